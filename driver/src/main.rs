// snelcheck-driver: fact extractor for the sneldb static checks.
//
// Invoked by cargo as RUSTC_WORKSPACE_WRAPPER (argv[1] = path of the real rustc, dropped).
// For the workspace crate(s) it dumps, per MIR body (mir_built, i.e. before the coroutine
// state transform and before drop elaboration), the CFG with resolved callees, structured
// places/operands/rvalues, plus ADT and trait-impl tables, as JSON lines into
// $SNELCHECK_OUT/<crate>-<pid>.jsonl.  It only extracts; all decisions are made by the
// Python rule engine.
#![feature(rustc_private)]
#![allow(rustc::internal)]

extern crate rustc_abi;
extern crate rustc_data_structures;
extern crate rustc_driver;
extern crate rustc_hir;
extern crate rustc_index;
extern crate rustc_interface;
extern crate rustc_middle;
extern crate rustc_session;
extern crate rustc_span;

use rustc_driver::{Callbacks, Compilation};
use rustc_hir::def::DefKind;
use rustc_hir::def_id::{DefId, LocalDefId};
use rustc_middle::mir::{
    AggregateKind, BasicBlock, Body, CastKind, Const, Local, Operand, Place, PlaceElem,
    Rvalue, StatementKind, TerminatorKind, UnwindAction,
};
use rustc_middle::ty::print::with_no_trimmed_paths;
use rustc_middle::ty::{self, Ty, TyCtxt};
use rustc_span::{ExpnKind, Span};
use std::fmt::Write as _;
use std::io::Write as _;

struct Cb;

impl Callbacks for Cb {
    fn after_expansion<'tcx>(
        &mut self,
        _c: &rustc_interface::interface::Compiler,
        tcx: TyCtxt<'tcx>,
    ) -> Compilation {
        if let Ok(dir) = std::env::var("SNELCHECK_OUT") {
            extract(tcx, &dir);
        }
        Compilation::Continue
    }
}

fn main() {
    let mut args: Vec<String> = std::env::args().collect();
    if args.len() > 1 && !args[1].starts_with('-') {
        args.remove(1); // path of the real rustc handed over by cargo
    }
    rustc_driver::run_compiler(&args, &mut Cb);
}

// ---------------------------------------------------------------- JSON helpers

fn js(s: &str) -> String {
    let mut o = String::with_capacity(s.len() + 2);
    o.push('"');
    for c in s.chars() {
        match c {
            '"' => o.push_str("\\\""),
            '\\' => o.push_str("\\\\"),
            '\n' => o.push_str("\\n"),
            '\r' => o.push_str("\\r"),
            '\t' => o.push_str("\\t"),
            c if (c as u32) < 0x20 => {
                let _ = write!(o, "\\u{:04x}", c as u32);
            }
            c => o.push(c),
        }
    }
    o.push('"');
    o
}

fn trunc(mut s: String, n: usize) -> String {
    if s.len() > n {
        let mut i = n;
        while !s.is_char_boundary(i) {
            i -= 1;
        }
        s.truncate(i);
        s.push('…');
    }
    s
}

fn path_of(tcx: TyCtxt<'_>, did: DefId) -> String {
    with_no_trimmed_paths!(tcx.def_path_str(did))
}

fn ty_str<'tcx>(t: Ty<'tcx>) -> String {
    trunc(with_no_trimmed_paths!(format!("{}", t)), 300)
}

fn span_loc(tcx: TyCtxt<'_>, sp: Span) -> (String, usize) {
    let sm = tcx.sess.source_map();
    let cs = sp.source_callsite();
    let lo = sm.lookup_char_pos(cs.lo());
    let name = format!("{}", lo.file.name.prefer_local_unconditionally());
    (name, lo.line)
}

fn macro_chain(sp: Span) -> Vec<String> {
    let mut v = Vec::new();
    for e in sp.macro_backtrace() {
        match e.kind {
            ExpnKind::Macro(_, name) => v.push(name.to_string()),
            ExpnKind::Desugaring(k) => v.push(format!("desugar:{:?}", k)),
            ExpnKind::AstPass(k) => v.push(format!("astpass:{:?}", k)),
            ExpnKind::Root => {}
        }
    }
    v
}

// ---------------------------------------------------------------- extraction

struct Cx<'a, 'tcx> {
    tcx: TyCtxt<'tcx>,
    body: &'a Body<'tcx>,
    owner: LocalDefId,
    upvars: Vec<String>,
}

impl<'a, 'tcx> Cx<'a, 'tcx> {
    fn place(&self, p: &Place<'tcx>) -> String {
        let tcx = self.tcx;
        let mut o = String::new();
        let _ = write!(o, "[{}", p.local.as_usize());
        let mut pty = rustc_middle::mir::PlaceTy::from_ty(self.body.local_decls[p.local].ty);
        for elem in p.projection.iter() {
            o.push(',');
            match elem {
                PlaceElem::Deref => o.push_str("\"*\""),
                PlaceElem::Field(f, _) => {
                    let mut name = format!("{}", f.as_usize());
                    match pty.ty.kind() {
                        ty::Adt(adt, _) => {
                            let vi = pty.variant_index.unwrap_or(rustc_abi::FIRST_VARIANT);
                            if adt.is_enum() || adt.is_struct() || adt.is_union() {
                                if let Some(v) = adt.variants().get(vi) {
                                    if let Some(fd) = v.fields.get(f) {
                                        name = fd.name.to_string();
                                    }
                                }
                            }
                        }
                        ty::Closure(..) | ty::Coroutine(..) | ty::CoroutineClosure(..) => {
                            // captured variable of a *nested* closure value
                            name = format!("{}", f.as_usize());
                        }
                        _ => {}
                    }
                    // upvar access through the environment parameter _1
                    if p.local.as_usize() == 1 && !self.upvars.is_empty() {
                        let is_env = matches!(
                            self.body.local_decls[p.local].ty.peel_refs().kind(),
                            ty::Closure(..) | ty::Coroutine(..) | ty::CoroutineClosure(..)
                        );
                        let base_is_env = matches!(
                            pty.ty.kind(),
                            ty::Closure(..) | ty::Coroutine(..) | ty::CoroutineClosure(..)
                        );
                        if is_env && base_is_env {
                            if let Some(n) = self.upvars.get(f.as_usize()) {
                                name = format!("^{}", n);
                            }
                        }
                    }
                    o.push_str(&js(&format!(".{}", name)));
                }
                PlaceElem::Index(l) => {
                    let _ = write!(o, "\"[_{}]\"", l.as_usize());
                }
                PlaceElem::ConstantIndex { offset, from_end, .. } => {
                    let _ = write!(o, "\"[{}{}]\"", if from_end { "-" } else { "" }, offset);
                }
                PlaceElem::Subslice { .. } => o.push_str("\"[..]\""),
                PlaceElem::Downcast(sym, vi) => {
                    let n = match sym {
                        Some(s) => s.to_string(),
                        None => format!("{}", vi.as_usize()),
                    };
                    o.push_str(&js(&format!("@{}", n)));
                }
                PlaceElem::OpaqueCast(_) => o.push_str("\"?opaque\""),
                PlaceElem::UnwrapUnsafeBinder(_) => o.push_str("\"?binder\""),
            }
            pty = pty.projection_ty(tcx, elem);
        }
        o.push(']');
        o
    }

    fn fn_const(&self, c: &Const<'tcx>) -> Option<String> {
        let tcx = self.tcx;
        if let ty::FnDef(did, args) = *c.ty().kind() {
            return Some(self.callee_json(did, args));
        }
        let _ = tcx;
        None
    }

    fn callee_json(&self, did: DefId, args: ty::GenericArgsRef<'tcx>) -> String {
        let tcx = self.tcx;
        let mut o = String::from("{");
        let upath = path_of(tcx, did);
        let _ = write!(o, "\"u\":{}", js(&upath));
        let env = ty::TypingEnv::post_analysis(tcx, self.owner.to_def_id());
        let mut resolved = false;
        let r = std::panic::catch_unwind(std::panic::AssertUnwindSafe(|| {
            ty::Instance::try_resolve(tcx, env, did, args)
        }));
        if let Ok(Ok(Some(inst))) = r {
            let rd = inst.def_id();
            let virt = matches!(inst.def, ty::InstanceKind::Virtual(..));
            let _ = write!(o, ",\"p\":{}", js(&path_of(tcx, rd)));
            if virt {
                o.push_str(",\"virt\":true");
            } else {
                resolved = true;
            }
            let _ = write!(o, ",\"ik\":{}", js(instance_kind_name(&inst.def)));
            if rd.is_local() {
                o.push_str(",\"local\":true");
            }
        }
        if !resolved {
            // still a trait item (generic) or virtual: candidates are found by CHA on the python side
            if tcx.trait_of_assoc(did).is_some() {
                o.push_str(",\"trait_item\":true");
            }
        }
        if did.is_local() {
            o.push_str(",\"ulocal\":true");
        }
        if tcx.trait_of_assoc(did).is_some() && args.len() > 0 {
            if let Some(t) = args.get(0).and_then(|a| a.as_type()) {
                let _ = write!(o, ",\"st\":{}", js(&ty_str(t)));
            }
        }
        let ga = trunc(with_no_trimmed_paths!(tcx.def_path_str_with_args(did, args)), 260);
        let _ = write!(o, ",\"ga\":{}", js(&ga));
        o.push('}');
        o
    }

    fn operand(&self, op: &Operand<'tcx>) -> String {
        match op {
            Operand::Copy(p) => format!("{{\"c\":{}}}", self.place(p)),
            Operand::Move(p) => format!("{{\"m\":{}}}", self.place(p)),
            Operand::Constant(c) => {
                let mut o = String::from("{");
                let repr = trunc(with_no_trimmed_paths!(format!("{}", c.const_)), 200);
                let _ = write!(o, "\"k\":{}", js(&repr));
                if let Some(f) = self.fn_const(&c.const_) {
                    let _ = write!(o, ",\"fn\":{}", f);
                } else {
                    match c.const_.ty().kind() {
                        ty::Closure(did, _) | ty::Coroutine(did, _) => {
                            let _ = write!(o, ",\"def\":{}", js(&path_of(self.tcx, *did)));
                        }
                        _ => {}
                    }
                    if let Const::Unevaluated(uv, _) = c.const_ {
                        let _ = write!(o, ",\"item\":{}", js(&path_of(self.tcx, uv.def)));
                    }
                    // statics show up as `const {alloc: &T}`; record the static path
                    if let Const::Val(rustc_middle::mir::ConstValue::Scalar(
                        rustc_middle::mir::interpret::Scalar::Ptr(ptr, _),
                    ), _) = c.const_
                    {
                        if let Some(rustc_middle::mir::interpret::GlobalAlloc::Static(sd)) =
                            self.tcx.try_get_global_alloc(ptr.provenance.alloc_id())
                        {
                            let _ = write!(o, ",\"static\":{}", js(&path_of(self.tcx, sd)));
                        }
                    }
                    let _ = write!(o, ",\"ty\":{}", js(&ty_str(c.const_.ty())));
                }
                o.push('}');
                o
            }
            #[allow(unreachable_patterns)]
            _ => "{\"k\":\"?runtime-check\"}".to_string(),
        }
    }

    fn rvalue(&self, rv: &Rvalue<'tcx>) -> String {
        let tcx = self.tcx;
        match rv {
            Rvalue::Use(op, ..) => format!("{{\"r\":\"use\",\"o\":{}}}", self.operand(op)),
            Rvalue::Ref(_, bk, p) => format!(
                "{{\"r\":\"ref\",\"p\":{},\"mut\":{}}}",
                self.place(p),
                matches!(bk, rustc_middle::mir::BorrowKind::Mut { .. })
            ),
            Rvalue::RawPtr(_, p) => format!("{{\"r\":\"rawptr\",\"p\":{}}}", self.place(p)),
            Rvalue::CopyForDeref(p) => format!("{{\"r\":\"cfd\",\"p\":{}}}", self.place(p)),
            Rvalue::Cast(ck, op, t) => {
                let ckn = match ck {
                    CastKind::PointerCoercion(pc, _) => format!("PointerCoercion:{:?}", pc),
                    other => format!("{:?}", other),
                };
                format!(
                    "{{\"r\":\"cast\",\"ck\":{},\"o\":{},\"ty\":{}}}",
                    js(&ckn),
                    self.operand(op),
                    js(&ty_str(*t))
                )
            }
            Rvalue::BinaryOp(op, ab) => format!(
                "{{\"r\":\"bin\",\"op\":{},\"a\":{},\"b\":{}}}",
                js(&format!("{:?}", op)),
                self.operand(&ab.0),
                self.operand(&ab.1)
            ),
            Rvalue::UnaryOp(op, a) => format!(
                "{{\"r\":\"un\",\"op\":{},\"o\":{}}}",
                js(&format!("{:?}", op)),
                self.operand(a)
            ),
            Rvalue::Discriminant(p) => {
                let mut o = format!("{{\"r\":\"discr\",\"p\":{}", self.place(p));
                let pty = p.ty(self.body, tcx).ty;
                if let ty::Adt(adt, _) = pty.kind() {
                    if adt.is_enum() {
                        let _ = write!(o, ",\"adt\":{}", js(&path_of(tcx, adt.did())));
                        o.push_str(",\"vars\":{");
                        let mut first = true;
                        for (vi, d) in adt.discriminants(tcx) {
                            if !first {
                                o.push(',');
                            }
                            first = false;
                            let _ = write!(
                                o,
                                "\"{}\":{}",
                                d.val,
                                js(&adt.variant(vi).name.to_string())
                            );
                        }
                        o.push('}');
                    }
                }
                o.push('}');
                o
            }
            Rvalue::Aggregate(kind, ops) => {
                let mut o = String::from("{\"r\":\"agg\"");
                match &**kind {
                    AggregateKind::Array(_) => o.push_str(",\"ak\":\"array\""),
                    AggregateKind::Tuple => o.push_str(",\"ak\":\"tuple\""),
                    AggregateKind::Adt(did, vi, _, _, _) => {
                        let adt = tcx.adt_def(*did);
                        let v = adt.variant(*vi);
                        let _ = write!(
                            o,
                            ",\"ak\":\"adt\",\"adt\":{},\"var\":{},\"fields\":[",
                            js(&path_of(tcx, *did)),
                            js(&v.name.to_string())
                        );
                        let mut first = true;
                        for f in v.fields.iter() {
                            if !first {
                                o.push(',');
                            }
                            first = false;
                            o.push_str(&js(&f.name.to_string()));
                        }
                        o.push(']');
                    }
                    AggregateKind::Closure(did, _) => {
                        let _ = write!(o, ",\"ak\":\"closure\",\"def\":{}", js(&path_of(tcx, *did)));
                    }
                    AggregateKind::Coroutine(did, _) => {
                        let _ =
                            write!(o, ",\"ak\":\"coroutine\",\"def\":{}", js(&path_of(tcx, *did)));
                    }
                    AggregateKind::CoroutineClosure(did, _) => {
                        let _ = write!(
                            o,
                            ",\"ak\":\"coroutine_closure\",\"def\":{}",
                            js(&path_of(tcx, *did))
                        );
                    }
                    AggregateKind::RawPtr(..) => o.push_str(",\"ak\":\"rawptr\""),
                }
                o.push_str(",\"o\":[");
                let mut first = true;
                for op in ops.iter() {
                    if !first {
                        o.push(',');
                    }
                    first = false;
                    o.push_str(&self.operand(op));
                }
                o.push_str("]}");
                o
            }
            Rvalue::Repeat(op, _) => format!("{{\"r\":\"repeat\",\"o\":{}}}", self.operand(op)),
            other => format!(
                "{{\"r\":\"other\",\"s\":{}}}",
                js(&trunc(with_no_trimmed_paths!(format!("{:?}", other)), 200))
            ),
        }
    }

    fn bb(b: BasicBlock) -> usize {
        b.as_usize()
    }

    fn unwind(u: &UnwindAction) -> String {
        match u {
            UnwindAction::Cleanup(b) => format!("{}", b.as_usize()),
            _ => "null".to_string(),
        }
    }

    fn span_fields(&self, sp: Span) -> String {
        let (f, l) = span_loc(self.tcx, sp);
        let mc = macro_chain(sp);
        let mut o = format!(",\"sp\":{}", js(&format!("{}:{}", f, l)));
        if !mc.is_empty() {
            o.push_str(",\"mac\":[");
            for (i, m) in mc.iter().enumerate() {
                if i > 0 {
                    o.push(',');
                }
                o.push_str(&js(m));
            }
            o.push(']');
        }
        o
    }

    fn terminator(&self, t: &rustc_middle::mir::Terminator<'tcx>) -> String {
        let sp = self.span_fields(t.source_info.span);
        match &t.kind {
            TerminatorKind::Goto { target } => {
                format!("{{\"t\":\"goto\",\"to\":{}}}", Self::bb(*target))
            }
            TerminatorKind::SwitchInt { discr, targets } => {
                let mut o = format!("{{\"t\":\"switch\",\"d\":{},\"v\":[", self.operand(discr));
                let mut first = true;
                for (v, b) in targets.iter() {
                    if !first {
                        o.push(',');
                    }
                    first = false;
                    let _ = write!(o, "[\"{}\",{}]", v, Self::bb(b));
                }
                let _ = write!(o, "],\"else\":{}{}}}", Self::bb(targets.otherwise()), sp);
                o
            }
            TerminatorKind::UnwindResume => "{\"t\":\"resume\"}".into(),
            TerminatorKind::UnwindTerminate(_) => "{\"t\":\"terminate\"}".into(),
            TerminatorKind::Return => format!("{{\"t\":\"ret\"{}}}", sp),
            TerminatorKind::Unreachable => "{\"t\":\"unreach\"}".into(),
            TerminatorKind::Drop { place, target, unwind, .. } => format!(
                "{{\"t\":\"drop\",\"p\":{},\"to\":{},\"uw\":{}{}}}",
                self.place(place),
                Self::bb(*target),
                Self::unwind(unwind),
                sp
            ),
            TerminatorKind::Call { func, args, destination, target, unwind, fn_span, .. } => {
                let mut o = String::from("{\"t\":\"call\"");
                let f = match func {
                    Operand::Constant(c) => match self.fn_const(&c.const_) {
                        Some(f) => f,
                        None => format!("{{\"ptr\":{}}}", self.operand(func)),
                    },
                    _ => {
                        // call through a local: fn pointer or closure value
                        let mut s = format!("{{\"ptr\":{}", self.operand(func));
                        let fty = func.ty(self.body, self.tcx);
                        let _ = write!(s, ",\"pty\":{}}}", js(&ty_str(fty)));
                        s
                    }
                };
                let _ = write!(o, ",\"f\":{},\"args\":[", f);
                for (i, a) in args.iter().enumerate() {
                    if i > 0 {
                        o.push(',');
                    }
                    o.push_str(&self.operand(&a.node));
                }
                let _ = write!(o, "],\"dest\":{}", self.place(destination));
                match target {
                    Some(b) => {
                        let _ = write!(o, ",\"to\":{}", Self::bb(*b));
                    }
                    None => o.push_str(",\"to\":null"),
                }
                let _ = write!(o, ",\"uw\":{}", Self::unwind(unwind));
                o.push_str(&sp);
                let (ff, fl) = span_loc(self.tcx, *fn_span);
                let _ = write!(o, ",\"fsp\":{}", js(&format!("{}:{}", ff, fl)));
                o.push('}');
                o
            }
            TerminatorKind::TailCall { func, args, .. } => {
                let mut o = String::from("{\"t\":\"tailcall\"");
                if let Operand::Constant(c) = func {
                    if let Some(f) = self.fn_const(&c.const_) {
                        let _ = write!(o, ",\"f\":{}", f);
                    }
                }
                o.push_str(",\"args\":[");
                for (i, a) in args.iter().enumerate() {
                    if i > 0 {
                        o.push(',');
                    }
                    o.push_str(&self.operand(&a.node));
                }
                o.push_str("]}");
                o
            }
            TerminatorKind::Assert { cond, expected, msg, target, unwind } => {
                let kind = format!("{:?}", msg);
                let kind = kind.split('(').next().unwrap_or("").to_string();
                format!(
                    "{{\"t\":\"assert\",\"c\":{},\"exp\":{},\"msg\":{},\"to\":{},\"uw\":{}{}}}",
                    self.operand(cond),
                    expected,
                    js(&kind),
                    Self::bb(*target),
                    Self::unwind(unwind),
                    sp
                )
            }
            TerminatorKind::Yield { value, resume, drop, .. } => format!(
                "{{\"t\":\"yield\",\"v\":{},\"resume\":{},\"drop\":{}}}",
                self.operand(value),
                Self::bb(*resume),
                match drop {
                    Some(b) => format!("{}", b.as_usize()),
                    None => "null".into(),
                }
            ),
            TerminatorKind::CoroutineDrop => "{\"t\":\"cordrop\"}".into(),
            TerminatorKind::FalseEdge { real_target, imaginary_target } => format!(
                "{{\"t\":\"false_edge\",\"to\":{},\"imag\":{}}}",
                Self::bb(*real_target),
                Self::bb(*imaginary_target)
            ),
            TerminatorKind::FalseUnwind { real_target, unwind } => format!(
                "{{\"t\":\"false_unwind\",\"to\":{},\"uw\":{}}}",
                Self::bb(*real_target),
                Self::unwind(unwind)
            ),
            TerminatorKind::InlineAsm { .. } => "{\"t\":\"asm\"}".into(),
        }
    }
}

fn instance_kind_name(k: &ty::InstanceKind<'_>) -> &'static str {
    match k {
        ty::InstanceKind::Item(_) => "item",
        ty::InstanceKind::Intrinsic(_) => "intrinsic",
        ty::InstanceKind::VTableShim(_) => "vtable_shim",
        ty::InstanceKind::ReifyShim(..) => "reify_shim",
        ty::InstanceKind::FnPtrShim(..) => "fnptr_shim",
        ty::InstanceKind::Virtual(..) => "virtual",
        ty::InstanceKind::ClosureOnceShim { .. } => "closure_once_shim",
        ty::InstanceKind::ConstructCoroutineInClosureShim { .. } => "coroutine_in_closure_shim",
        ty::InstanceKind::ThreadLocalShim(_) => "tls_shim",
        ty::InstanceKind::DropGlue(..) => "drop_glue",
        ty::InstanceKind::CloneShim(..) => "clone_shim",
        ty::InstanceKind::FnPtrAddrShim(..) => "fnptr_addr_shim",
        ty::InstanceKind::AsyncDropGlueCtorShim(..) => "async_drop_ctor",
        ty::InstanceKind::AsyncDropGlue(..) => "async_drop_glue",
        ty::InstanceKind::FutureDropPollShim(..) => "future_drop_poll",
    }
}

fn upvar_names<'tcx>(tcx: TyCtxt<'tcx>, def: LocalDefId) -> Vec<String> {
    let kind = tcx.def_kind(def);
    if !matches!(kind, DefKind::Closure | DefKind::SyntheticCoroutineBody) {
        return vec![];
    }
    tcx.closure_captures(def)
        .iter()
        .map(|c| with_no_trimmed_paths!(c.to_string(tcx)))
        .collect()
}

fn body_json<'tcx>(tcx: TyCtxt<'tcx>, def: LocalDefId, body: &Body<'tcx>) -> String {
    let cx = Cx { tcx, body, owner: def, upvars: upvar_names(tcx, def) };
    let key = path_of(tcx, def.to_def_id());
    let kind = tcx.def_kind(def);
    let (file, line) = span_loc(tcx, body.span);
    let mut o = String::with_capacity(16 * 1024);
    let _ = write!(
        o,
        "{{\"rec\":\"body\",\"k\":{},\"kind\":{},\"file\":{},\"line\":{}",
        js(&key),
        js(&format!("{:?}", kind)),
        js(&file),
        line
    );
    if body.span.from_expansion() {
        let mc = macro_chain(body.span);
        let _ = write!(o, ",\"mac\":{}", js(&mc.join(",")));
    }
    if let Some(p) = tcx.opt_local_parent(def) {
        let _ = write!(o, ",\"parent\":{}", js(&path_of(tcx, p.to_def_id())));
    }
    if matches!(kind, DefKind::Fn | DefKind::AssocFn) {
        let asy = tcx.asyncness(def).is_async();
        let _ = write!(o, ",\"async\":{}", asy);
        let vis = tcx.visibility(def);
        let _ = write!(o, ",\"pub\":{}", vis.is_public());
    }
    if body.coroutine.is_some() {
        o.push_str(",\"coroutine\":true");
    }
    let _ = write!(o, ",\"argc\":{}", body.arg_count);
    // locals
    let mut names: Vec<Option<String>> = vec![None; body.local_decls.len()];
    for vdi in body.var_debug_info.iter() {
        if let rustc_middle::mir::VarDebugInfoContents::Place(p) = vdi.value {
            if p.projection.is_empty() {
                names[p.local.as_usize()] = Some(vdi.name.to_string());
            }
        }
    }
    o.push_str(",\"locals\":[");
    for (i, (l, d)) in body.local_decls.iter_enumerated().enumerate() {
        if i > 0 {
            o.push(',');
        }
        let _ = write!(o, "{{\"t\":{}", js(&ty_str(d.ty)));
        if let Some(n) = &names[l.as_usize()] {
            let _ = write!(o, ",\"n\":{}", js(n));
        }
        o.push('}');
    }
    o.push_str("],\"upvars\":[");
    for (i, u) in cx.upvars.iter().enumerate() {
        if i > 0 {
            o.push(',');
        }
        o.push_str(&js(u));
    }
    o.push_str("],\"blocks\":[");
    for (bi, (_, bb)) in body.basic_blocks.iter_enumerated().enumerate() {
        if bi > 0 {
            o.push(',');
        }
        o.push_str("{\"s\":[");
        let mut first = true;
        for st in bb.statements.iter() {
            let s = match &st.kind {
                StatementKind::Assign(b) => {
                    let (_, ln) = span_loc(tcx, st.source_info.span);
                    Some(format!(
                        "{{\"a\":{},\"v\":{},\"ln\":{}}}",
                        cx.place(&b.0),
                        cx.rvalue(&b.1),
                        ln
                    ))
                }
                StatementKind::StorageDead(l) => Some(format!("{{\"sd\":{}}}", l.as_usize())),
                StatementKind::SetDiscriminant { place, variant_index } => Some(format!(
                    "{{\"setd\":{},\"vi\":{}}}",
                    cx.place(place),
                    variant_index.as_usize()
                )),
                _ => None,
            };
            if let Some(s) = s {
                if !first {
                    o.push(',');
                }
                first = false;
                o.push_str(&s);
            }
        }
        o.push_str("],\"t\":");
        match &bb.terminator {
            Some(t) => o.push_str(&cx.terminator(t)),
            None => o.push_str("{\"t\":\"none\"}"),
        }
        if bb.is_cleanup {
            o.push_str(",\"cu\":true");
        }
        o.push('}');
    }
    o.push_str("]}");
    o
}

fn extract<'tcx>(tcx: TyCtxt<'tcx>, dir: &str) {
    let crate_name = tcx.crate_name(rustc_hir::def_id::LOCAL_CRATE).to_string();
    let crate_types = format!("{:?}", tcx.crate_types());
    let _ = std::fs::create_dir_all(dir);
    let mut out: Vec<u8> = Vec::with_capacity(64 << 20);

    // pass 1: clone every built body before anything can steal it
    let owners: Vec<LocalDefId> = tcx.hir_body_owners().collect();
    let mut bodies: Vec<(LocalDefId, Body<'tcx>)> = Vec::with_capacity(owners.len());
    let mut stolen = 0usize;
    for def in owners.iter().copied() {
        let steal = tcx.mir_built(def);
        if steal.is_stolen() {
            stolen += 1;
            continue;
        }
        bodies.push((def, steal.borrow().clone()));
    }

    // ADT table
    for id in tcx.hir_crate_items(()).definitions() {
        let kind = tcx.def_kind(id);
        match kind {
            DefKind::Enum | DefKind::Struct => {
                let adt = tcx.adt_def(id.to_def_id());
                let mut o = format!(
                    "{{\"rec\":\"adt\",\"k\":{},\"kind\":{},\"variants\":[",
                    js(&path_of(tcx, id.to_def_id())),
                    js(&format!("{:?}", kind))
                );
                let discrs: Vec<(rustc_abi::VariantIdx, u128)> = if adt.is_enum() {
                    adt.discriminants(tcx).map(|(v, d)| (v, d.val)).collect()
                } else {
                    vec![(rustc_abi::FIRST_VARIANT, 0)]
                };
                for (i, (vi, d)) in discrs.iter().enumerate() {
                    if i > 0 {
                        o.push(',');
                    }
                    let v = adt.variant(*vi);
                    let _ = write!(o, "{{\"n\":{},\"d\":\"{}\",\"f\":[", js(&v.name.to_string()), d);
                    for (j, f) in v.fields.iter().enumerate() {
                        if j > 0 {
                            o.push(',');
                        }
                        o.push_str(&js(&f.name.to_string()));
                    }
                    o.push_str("]}");
                }
                o.push_str("]}\n");
                out.extend_from_slice(o.as_bytes());
            }
            DefKind::Impl { of_trait: true } => {
                let tr = tcx.impl_trait_ref(id.to_def_id()).skip_binder();
                let self_ty = ty_str(tr.self_ty());
                let mut o = format!(
                    "{{\"rec\":\"impl\",\"trait\":{},\"self\":{},\"items\":[",
                    js(&path_of(tcx, tr.def_id)),
                    js(&self_ty)
                );
                let mut first = true;
                for it in tcx.associated_items(id.to_def_id()).in_definition_order() {
                    if !matches!(it.kind, ty::AssocKind::Fn { .. }) {
                        continue;
                    }
                    if let Some(tid) = it.trait_item_def_id() {
                        if !first {
                            o.push(',');
                        }
                        first = false;
                        let _ = write!(
                            o,
                            "[{},{}]",
                            js(&path_of(tcx, tid)),
                            js(&path_of(tcx, it.def_id))
                        );
                    }
                }
                o.push_str("]}\n");
                out.extend_from_slice(o.as_bytes());
            }
            _ => {}
        }
    }

    // pass 2: emit bodies with resolved callees
    let n = bodies.len();
    for (def, body) in bodies.iter() {
        let s = body_json(tcx, *def, body);
        out.extend_from_slice(s.as_bytes());
        out.push(b'\n');
    }
    let meta = format!(
        "{{\"rec\":\"meta\",\"crate\":{},\"crate_types\":{},\"bodies\":{},\"stolen\":{},\"rustc\":{}}}\n",
        js(&crate_name),
        js(&crate_types),
        n,
        stolen,
        js(&tcx.sess.cfg_version.to_string())
    );
    out.extend_from_slice(meta.as_bytes());
    let path = format!("{}/{}-{}.jsonl", dir, crate_name, std::process::id());
    let mut f = std::fs::File::create(&path).expect("snelcheck: cannot create fact file");
    f.write_all(&out).expect("snelcheck: write failed");
    let _ = Local::from_usize(0);
}
