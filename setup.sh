#!/bin/sh
# Offline setup: build the extractor driver and warm the dependency metadata used by `cargo +nightly check`.
set -e
cd "$(dirname "$0")"
export CARGO_NET_OFFLINE=true
(cd driver && cargo build --release --offline)
./check extract
