"""Crate call graph over the compact facts: resolved call edges + may-call edges (closures / coroutines
created, function items used as values) + class-hierarchy expansion of dyn / unresolved trait calls."""
from collections import deque
from .mir import norm_path


class CallGraph:
    def __init__(self, F, include_bins=False):
        self.F = F
        cg = F.cg
        self.nodes = {k for k in cg if include_bins or not k.startswith("bin:")}
        # trait item path -> impl item paths (local impls)
        self.impls = {}
        for im in F.impls:
            for titem, iitem in im["items"]:
                self.impls.setdefault(titem, set()).add(iitem)
        self.edges = {}       # caller -> set(callee path) ; callee may be external (leaf)
        self.sites = {}       # (caller, callee) -> [sp]
        self.unresolved = 0
        self.total = 0
        for k in self.nodes:
            out = set()
            for (bb, p, u, virt, sp, mac, cu, st) in cg[k]["c"]:
                self.total += 1
                targets = []
                if p and not virt:
                    targets.append(p)
                    # a resolved trait *declaration* with a default body is itself a node; fine
                    if p == u and u in self.impls and p not in self.nodes:
                        targets += list(self.impls[u])
                else:
                    self.unresolved += 1
                    if u:
                        targets.append(u)
                        targets += list(self.impls.get(u, ()))
                for t in targets:
                    out.add(t)
                    self.sites.setdefault((k, t), []).append(sp)
            for d in cg[k]["d"]:
                if d:
                    out.add(d)
                    self.sites.setdefault((k, d), []).append("value")
            # an async fn's body is its coroutine closure
            self.edges[k] = out
        self._rev = None
        self._norm = None

    def norm(self, k):
        return norm_path(k)

    def rev(self):
        if self._rev is None:
            r = {}
            for a, outs in self.edges.items():
                for b in outs:
                    r.setdefault(b, set()).add(a)
            self._rev = r
        return self._rev

    def callers(self, callee):
        return self.rev().get(callee, set())

    def reachable(self, roots, stop=None, edge_filter=None):
        """All paths (nodes incl. external leaves) reachable from roots. Returns {node: predecessor}."""
        seen = {}
        dq = deque()
        for r in roots:
            if r not in seen:
                seen[r] = None
                dq.append(r)
        while dq:
            x = dq.popleft()
            if stop is not None and stop(x):
                continue
            for y in self.edges.get(x, ()):
                if y in seen:
                    continue
                if edge_filter is not None and not edge_filter(x, y):
                    continue
                seen[y] = x
                dq.append(y)
        return seen

    def chain(self, seen, node):
        out = []
        x = node
        while x is not None and len(out) < 200:
            out.append(x)
            x = seen.get(x)
        return list(reversed(out))

    def closure_family(self, key):
        """key plus all nested closures/coroutines (bodies whose key starts with key::{closure)"""
        pref = key + "::{closure"
        return [k for k in self.nodes if k == key or k.startswith(pref)]
