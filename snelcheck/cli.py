import sys, json, os
from . import facts as factsmod


def main(argv):
    if not argv:
        print("usage: check <Cxx|all|dump|find|extract|selftest> ...")
        return 2
    cmd = argv[0]
    if cmd == "extract":
        d = factsmod.extract()
        print(d)
        return 0
    if cmd == "find":
        F = factsmod.load()
        for k in F.find(argv[1]):
            print(k, F.info[k]["file"], F.info[k]["line"], F.info[k]["nb"])
        return 0
    if cmd == "dump":
        F = factsmod.load()
        name = argv[1]
        try:
            b = F.fn(name) if "--exact" not in argv else F.fn_exact(name)
        except factsmod.AnchorMissing as e:
            print(e)
            return 1
        print(b.dump())
        return 0
    from . import engine
    return engine.main(argv)
