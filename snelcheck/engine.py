"""Rule engine: evaluates the instance table of one property on the facts of /repo's current tree,
applies the known-findings file, writes evidence and replay files, prints VIOLATION / KNOWN-FINDING."""
import importlib, json, os, sys, time, traceback

from . import facts as factsmod
from .facts import AnchorMissing

VERIF = factsmod.VERIF
PROPS = ["C%02d" % i for i in range(1, 21)]


class Instance:
    def __init__(self, iid, kind, container, statement):
        self.id = iid            # e.g. C01.a
        self.kind = kind         # K1 DOM, K2 CUT, ...
        self.container = container
        self.statement = statement
        self.verdict = None      # 'ok' | 'violation' | 'anchor-missing' | 'known'
        self.sites = []          # human readable site descriptions (file:line)
        self.detail = ""
        self.key = None          # violation key (no line numbers)
        self.witness = None
        self.nontrivial = False

    def to_json(self):
        d = {"instance": self.id, "rule": self.kind, "container": self.container, "statement": self.statement,
             "verdict": self.verdict, "sites": self.sites[:12], "detail": self.detail}
        if self.key:
            d["key"] = self.key
        if self.witness:
            d["witness"] = self.witness
        return d


class Ctx:
    def __init__(self, F, prop, tier):
        self.F = F
        self.prop = prop
        self.tier = tier
        self.instances = []
        self.notes = []

    def instance(self, iid, kind, container, statement):
        inst = Instance(iid, kind, container, statement)
        self.instances.append(inst)
        return inst

    def run(self, iid, kind, container, statement, fn):
        """Evaluate one instance. fn(inst) returns None/True for ok, or a list of violations
        [(key, detail, witness)] ; raises AnchorMissing when a site/container cannot be found."""
        inst = self.instance(iid, kind, container, statement)
        try:
            r = fn(inst)
        except AnchorMissing as e:
            inst.verdict = "anchor-missing"
            inst.key = "%s|%s|anchor-missing" % (iid, container)
            inst.detail = "anchor missing: %s" % e
            return inst
        except Exception as e:  # a checker bug must not pass silently
            inst.verdict = "anchor-missing"
            inst.key = "%s|%s|checker-error" % (iid, container)
            inst.detail = "checker error: %r\n%s" % (e, traceback.format_exc()[-1500:])
            return inst
        if not r:
            inst.verdict = "ok"
            inst.nontrivial = True
            return inst
        # several violations under one instance: split into one Instance each so keys stay specific
        first = True
        for (key, detail, witness) in r:
            tgt = inst if first else self.instance(iid, kind, container, statement)
            first = False
            tgt.verdict = "violation"
            tgt.key = "%s|%s|%s" % (iid, container, key)
            tgt.detail = detail
            tgt.witness = witness
            tgt.sites = inst.sites
            tgt.nontrivial = True
        return inst

    def note(self, s):
        self.notes.append(s)

    def borrow(self, module_name, only, prefix):
        """Re-evaluate instances `only` of another property's table under this property (shared mechanisms)."""
        mod = importlib.import_module("snelcheck.rules.%s" % module_name)
        mod.run(_SubCtx(self, set(only), prefix))


class _SubCtx:
    def __init__(self, parent, only, prefix):
        self.parent, self.only, self.prefix = parent, only, prefix
        self.F, self.prop, self.tier = parent.F, parent.prop, parent.tier

    def run(self, iid, kind, container, statement, fn):
        if iid not in self.only:
            return None
        return self.parent.run("%s/%s" % (self.prefix, iid), kind, container, statement, fn)

    def note(self, s):
        pass

    def borrow(self, module_name, only, prefix):
        """a borrowed table's own borrows are not part of what the borrower asked for"""
        return None

    def instance(self, *a):
        return self.parent.instance(*a)


def site(body, bb):
    t = body.blocks[bb]["t"]
    return "%s bb%d" % (t.get("sp") or body.rec["file"], bb)


def witness_path(body, seen, dst, limit=40):
    p = body.path(seen, dst)
    out = []
    for b in p:
        sp = body.blocks[b]["t"].get("sp")
        if sp and (not out or out[-1] != sp):
            out.append(sp)
    if len(out) > limit:
        out = out[: limit // 2] + ["…"] + out[-limit // 2:]
    return out


def load_known():
    p = os.path.join(VERIF, "known_findings.json")
    if not os.path.exists(p):
        return {"findings": [], "fixed": []}
    return json.load(open(p))


def run_property(prop, tier="quick", F=None, quiet=False, write=True):
    t0 = time.time()
    seed = int(os.environ.get("VERIF_SEED", "0") or 0)
    if F is None:
        F = factsmod.load()
    mod = importlib.import_module("snelcheck.rules.%s" % prop)
    ctx = Ctx(F, prop, tier)
    mod.run(ctx)
    known = load_known()
    kmap = {(k["property"], k["key"]): k for k in known.get("findings", [])}
    violations, knowns = [], []
    for inst in ctx.instances:
        if inst.verdict in ("violation", "anchor-missing"):
            kf = kmap.get((prop, inst.key))
            if kf is not None and inst.verdict == "violation":
                inst.verdict = "known"
                knowns.append((inst, kf))
            else:
                violations.append(inst)
    evaluated = len(ctx.instances)
    floor = getattr(mod, "FLOOR", 1)
    floor_fail = None
    ids = {i.id for i in ctx.instances}
    required = set(getattr(mod, "REQUIRED", []))
    if evaluated < floor or not required <= ids:
        floor_fail = "instances evaluated %d < floor %d or missing required %s" % (evaluated, floor, sorted(required - ids))
    out_lines = []
    if not write:
        if os.environ.get("SNELCHECK_NO_WRITE"):
            for inst in violations:
                print("VIOLATION property=%s replay=(scratch run, nothing written)" % prop)
                print("  %s [%s] %s: %s" % (inst.id, inst.kind, inst.container, inst.detail.splitlines()[0] if inst.detail else ""))
            if floor_fail:
                print("VIOLATION property=%s replay=(scratch run) %s" % (prop, floor_fail))
            print("%s: %d instances, %d violations (scratch)" % (prop, len(ctx.instances), len(violations)))
        return 1 if (violations or floor_fail) else 0, ctx
    os.makedirs(os.path.join(VERIF, "reports"), exist_ok=True)
    os.makedirs(os.path.join(VERIF, "evidence"), exist_ok=True)
    for inst, kf in knowns:
        out_lines.append("KNOWN-FINDING: property=%s %s — %s" % (prop, inst.key, kf.get("what", "")))
    n = 0
    for inst in violations:
        n += 1
        rp = os.path.join(VERIF, "reports", "%s-%d.json" % (prop, n))
        json.dump({"property": prop, "kind": inst.verdict, **inst.to_json(), "facts": F.dir,
                   "explain": "./check explain %s" % rp}, open(rp, "w"), indent=1)
        out_lines.append("VIOLATION property=%s replay=%s" % (prop, rp))
        out_lines.append("  %s [%s] %s: %s" % (inst.id, inst.kind, inst.container, inst.detail.splitlines()[0] if inst.detail else ""))
    if floor_fail:
        n += 1
        rp = os.path.join(VERIF, "reports", "%s-%d.json" % (prop, n))
        json.dump({"property": prop, "kind": "floor", "detail": floor_fail}, open(rp, "w"), indent=1)
        out_lines.append("VIOLATION property=%s replay=%s" % (prop, rp))
        out_lines.append("  floor: " + floor_fail)
    okc = sum(1 for i in ctx.instances if i.verdict == "ok")
    wall = time.time() - t0
    lib_meta = [m for m in F.metas if m["unit"].startswith("lib:")]
    ev = {
        "property_id": prop,
        "tier": tier,
        "seed": seed,
        "level": "other",
        "coverage": {
            "explanation": getattr(mod, "EXPLANATION", "").strip(),
            "obligations": evaluated,
            "discharged": okc,
            "evaluations": evaluated,
            "distinct_nontrivial": len({(i.id, i.container, i.key) for i in ctx.instances if i.nontrivial}),
            "rule": "one evaluation = one rule instance (rule kind, container body, sites) decided on all CFG paths of the "
                    "container / the whole crate call graph; non-trivial = all anchors found and at least one path or edge set examined",
            "samples": [i.to_json() for i in ctx.instances][:60],
            "known_findings": [i.key for i, _ in knowns],
            "bodies_in_crate": sum(m["bodies"] for m in F.metas),
            "lib_bodies": lib_meta[0]["bodies"] if lib_meta else 0,
            "stolen_bodies": sum(m["stolen"] for m in F.metas),
            "units": [m["unit"] for m in F.metas],
            "facts_hash": F.done.get("hash"),
            "source_files_hashed": F.done.get("source_files"),
            "notes": ctx.notes[:40],
            "exhaustive": False,
            "checker_cmd": "./check %s --tier %s" % (prop, tier),
            "trusted_base": ["rustc 1.97.0-nightly front-end and MIR construction (mir_built)", "snelcheck-driver fact extraction",
                             "class-hierarchy over-approximation for dyn/generic calls", "external crates as leaves"],
        },
        "assumptions": getattr(mod, "ASSUMPTIONS", []) + [
            "analysed with the 1.97 nightly front-end while /repo pins nightly-2025-10-14",
            "non-test cfg, lib + bins; unwinding paths are outside the rules unless stated",
        ],
        "wall_s": round(wall, 2),
        "violations": len(violations) + (1 if floor_fail else 0),
    }
    json.dump(ev, open(os.path.join(VERIF, "evidence", "%s.json" % prop), "w"), indent=1)
    if not quiet:
        for l in out_lines:
            print(l)
        print("%s: %d instances, %d ok, %d known, %d violations (%.1fs) facts=%s" % (
            prop, evaluated, okc, len(knowns), len(violations) + (1 if floor_fail else 0), wall, os.path.basename(F.dir)))
    return 1 if (violations or floor_fail) else 0, ctx


def main(argv):
    tier = os.environ.get("VERIF_TIER", "quick")
    args = []
    i = 0
    verbose = False
    while i < len(argv):
        a = argv[i]
        if a == "--tier":
            tier = argv[i + 1]
            i += 2
            continue
        if a == "-v":
            verbose = True
            i += 1
            continue
        if a == "--scratch":
            # development aid (tools/try_seeded.sh): evaluate a temporarily patched tree without rewriting evidence/ and reports/
            os.environ["SNELCHECK_NO_WRITE"] = "1"
            i += 1
            continue
        args.append(a)
        i += 1
    cmd = args[0]
    if cmd == "explain":
        r = json.load(open(args[1]))
        print(json.dumps(r, indent=1))
        rc, ctx = run_property(r["property"], tier, quiet=True)
        for inst in ctx.instances:
            if inst.id == r.get("instance"):
                print("re-evaluated on current tree:", inst.verdict, inst.detail)
        return 0
    if cmd == "selftest":
        from . import selftest
        return selftest.main(args[1:])
    props = PROPS if cmd == "all" else [cmd]
    rc = 0
    F = factsmod.load()
    for p in props:
        if not os.path.exists(os.path.join(os.path.dirname(__file__), "rules", "%s.py" % p)):
            print("no rules for", p)
            rc = 2
            continue
        r, ctx = run_property(p, tier, F, write=not os.environ.get("SNELCHECK_NO_WRITE"))
        if verbose:
            for inst in ctx.instances:
                print("  %-8s %-6s %-9s %s :: %s" % (inst.id, inst.kind, inst.verdict, inst.container, (inst.detail or "")[:300]))
                for s in inst.sites[:6]:
                    print("           @", s)
        rc = max(rc, r)
        if tier == "thorough" and r == 0:
            from . import selftest
            r2 = selftest.run_for_property(p)
            rc = max(rc, r2)
    return rc
