"""Fact store: runs the extractor over /repo's current working tree (cached by source hash)
and gives lazy access to MIR bodies, the ADT/impl tables and the crate call graph."""
import hashlib, json, os, shutil, subprocess, sys, time, glob, re

VERIF = os.path.dirname(os.path.dirname(os.path.abspath(__file__)))
REPO = os.environ.get("SNELCHECK_REPO", "/repo")
CACHE = os.path.join(VERIF, ".cache")
DRIVER_DIR = os.path.join(VERIF, "driver")
DRIVER = os.path.join(DRIVER_DIR, "target", "release", "snelcheck-driver")


def _sh(cmd, **kw):
    return subprocess.run(cmd, shell=True, stdout=subprocess.PIPE, stderr=subprocess.STDOUT, text=True, **kw)


def sysroot():
    r = _sh("rustc +nightly --print sysroot")
    return r.stdout.strip()


def source_hash(repo=REPO):
    h = hashlib.sha256()
    files = []
    for root, dirs, fs in os.walk(repo):
        dirs[:] = sorted(d for d in dirs if d not in ("target", ".git"))
        for f in sorted(fs):
            if f.endswith(".rs") or f in ("Cargo.toml", "Cargo.lock", "build.rs"):
                files.append(os.path.join(root, f))
    for p in files:
        h.update(os.path.relpath(p, repo).encode())
        h.update(b"\0")
        with open(p, "rb") as fh:
            h.update(fh.read())
        h.update(b"\0")
    # the driver is part of the key: new extractor => new facts
    for p in (os.path.join(DRIVER_DIR, "src", "main.rs"),):
        with open(p, "rb") as fh:
            h.update(fh.read())
    return h.hexdigest()[:20], len(files)


def build_driver():
    if os.path.exists(DRIVER) and os.path.getmtime(DRIVER) >= os.path.getmtime(os.path.join(DRIVER_DIR, "src", "main.rs")):
        return
    r = _sh("cargo build --release --offline", cwd=DRIVER_DIR, env=dict(os.environ, CARGO_NET_OFFLINE="true"))
    if r.returncode != 0 or not os.path.exists(DRIVER):
        sys.stderr.write(r.stdout)
        raise SystemExit("snelcheck: cannot build the extractor driver")


def extract(repo=REPO, bins=True, target_dir=None, out_dir=None):
    """Run cargo check with the driver as workspace wrapper. Returns the facts directory."""
    build_driver()
    h, nfiles = source_hash(repo)
    out = out_dir or os.path.join(CACHE, "facts", h)
    done = os.path.join(out, "DONE")
    if os.path.exists(done):
        return out
    # serialise concurrent extractions of the same tree (20 checks may be started together)
    os.makedirs(os.path.join(CACHE, "facts"), exist_ok=True)
    import fcntl
    lock = open(os.path.join(CACHE, "facts", ".lock"), "w")
    fcntl.flock(lock, fcntl.LOCK_EX)
    try:
        if os.path.exists(done):
            return out
        if os.path.exists(out):
            shutil.rmtree(out)
        raw = out + ".raw"
        if os.path.exists(raw):
            shutil.rmtree(raw)
        os.makedirs(raw)
        tdir = target_dir or os.path.join(CACHE, "target")
        # cargo's freshness cache would skip the wrapper: drop the workspace crate's fingerprints
        for fp in glob.glob(os.path.join(tdir, "debug", ".fingerprint", "snel_db-*")):
            shutil.rmtree(fp, ignore_errors=True)
        env = dict(os.environ)
        env.update({
            "LD_LIBRARY_PATH": sysroot() + "/lib",
            "RUSTFLAGS": "-Awarnings",
            "RUSTC_WORKSPACE_WRAPPER": DRIVER,
            "SNELCHECK_OUT": raw,
            "CARGO_TARGET_DIR": tdir,
            "CARGO_NET_OFFLINE": "true",
        })
        t0 = time.time()
        targets = "--lib --bins" if bins else "--lib"
        r = _sh("cargo +nightly check --offline %s" % targets, cwd=repo, env=env)
        if r.returncode != 0:
            sys.stderr.write(r.stdout[-6000:])
            raise SystemExit("snelcheck: cargo check of %s failed (the tree must compile)" % repo)
        files = sorted(glob.glob(os.path.join(raw, "*.jsonl")))
        if not any(os.path.basename(f).startswith("snel_db-") for f in files):
            raise SystemExit("snelcheck: extractor produced no facts for snel_db")
        os.makedirs(out)
        _index(files, out)
        shutil.rmtree(raw)
        with open(done, "w") as fh:
            json.dump({"hash": h, "source_files": nfiles, "extract_s": round(time.time() - t0, 1), "repo": repo}, fh)
        _gc(os.path.join(CACHE, "facts"), keep=out)
        return out
    finally:
        fcntl.flock(lock, fcntl.LOCK_UN)
        lock.close()


def _gc(d, keep, maxn=4):
    ents = [os.path.join(d, e) for e in os.listdir(d) if os.path.isdir(os.path.join(d, e))]
    ents.sort(key=os.path.getmtime, reverse=True)
    for e in ents[maxn:]:
        if e != keep:
            shutil.rmtree(e, ignore_errors=True)


def _index(files, out):
    """Split the raw fact files: bodies.jsonl (+ offsets), tables.json, cg.json (compact call graph)."""
    idx = {}
    adts, impls, metas = {}, [], []
    cg = {}
    info = {}
    pos = 0
    with open(os.path.join(out, "bodies.jsonl"), "wb") as bo:
        for f in files:
            unit = os.path.basename(f).rsplit("-", 1)[0]
            # the lib crate and the `snel_db` bin share a crate name: tell them apart by crate type
            recs = [json.loads(l) for l in open(f)]
            meta = [r for r in recs if r["rec"] == "meta"][0]
            is_lib = "Rlib" in meta["crate_types"] or "Lib" in meta["crate_types"]
            prefix = "" if is_lib else "bin:%s::" % unit
            meta["unit"] = ("lib:" if is_lib else "bin:") + unit
            metas.append(meta)
            for r in recs:
                if r["rec"] == "adt":
                    adts[prefix + r["k"]] = r
                elif r["rec"] == "impl":
                    if is_lib:
                        impls.append(r)
                elif r["rec"] == "body":
                    k = prefix + r["k"]
                    if k in idx:
                        # macro-generated statics/consts (tracing call sites, serde derive) share a def-path
                        n = 2
                        while "%s~%d" % (k, n) in idx:
                            n += 1
                        k = "%s~%d" % (k, n)
                        r["k"] = k
                    if prefix:
                        r["k"] = k
                        r["unit"] = meta["unit"]
                        if "parent" in r:
                            r["parent"] = prefix + r["parent"]
                    line = (json.dumps(r, separators=(",", ":")) + "\n").encode()
                    bo.write(line)
                    idx[k] = [pos, len(line)]
                    pos += len(line)
                    calls = []
                    aggs = []
                    for bi, b in enumerate(r["blocks"]):
                        t = b["t"]
                        if t["t"] in ("call", "tailcall") and "f" in t:
                            f_ = t["f"]
                            calls.append([bi, f_.get("p") if not f_.get("virt") else None, f_.get("u"),
                                          1 if f_.get("virt") else 0, t.get("sp"), t.get("mac") or [],
                                          1 if b.get("cu") else 0, f_.get("st")])
                        for s in b["s"]:
                            v = s.get("v")
                            if v:
                                _collect_defs(v, aggs)
                        if t["t"] == "call":
                            for a in t["args"]:
                                _collect_op_defs(a, aggs)
                    cg[k] = {"c": calls, "d": sorted(set(aggs))}
                    info[k] = {"file": r["file"], "line": r["line"], "kind": r["kind"], "parent": r.get("parent"),
                               "async": r.get("async", False), "pub": r.get("pub", False), "mac": r.get("mac"),
                               "nb": len(r["blocks"])}
    json.dump(idx, open(os.path.join(out, "idx.json"), "w"))
    json.dump({"adts": adts, "impls": impls, "metas": metas, "info": info}, open(os.path.join(out, "tables.json"), "w"))
    json.dump(cg, open(os.path.join(out, "cg.json"), "w"))


def _collect_op_defs(op, acc):
    if "fn" in op:
        f = op["fn"]
        acc.append(f.get("p") or f.get("u"))
    elif "def" in op:
        acc.append(op["def"])


def _collect_defs(v, acc):
    r = v["r"]
    if r == "agg":
        if v.get("ak") in ("closure", "coroutine", "coroutine_closure"):
            acc.append(v["def"])
        for o in v["o"]:
            _collect_op_defs(o, acc)
    elif r in ("use", "cast", "un", "repeat"):
        _collect_op_defs(v["o"], acc)


class Facts:
    def __init__(self, d):
        self.dir = d
        self.idx = json.load(open(os.path.join(d, "idx.json")))
        t = json.load(open(os.path.join(d, "tables.json")))
        self.adts, self.impls, self.metas, self.info = t["adts"], t["impls"], t["metas"], t["info"]
        self.done = json.load(open(os.path.join(d, "DONE")))
        self._cg = None
        self._fh = open(os.path.join(d, "bodies.jsonl"), "rb")
        self._cache = {}

    @property
    def cg(self):
        if self._cg is None:
            self._cg = json.load(open(os.path.join(self.dir, "cg.json")))
        return self._cg

    def has(self, k):
        return k in self.idx

    def body(self, k):
        b = self._cache.get(k)
        if b is None:
            off, ln = self.idx[k]
            self._fh.seek(off)
            b = json.loads(self._fh.read(ln))
            self._cache[k] = b
        return b

    def keys(self):
        return self.idx.keys()

    def find(self, pattern):
        rx = re.compile(pattern)
        return [k for k in self.idx if rx.search(k)]


def load(repo=REPO):
    return Facts(extract(repo))


# ---------------------------------------------------------------- lookup helpers (appended)
from .mir import Body, norm_path  # noqa: E402


class AnchorMissing(Exception):
    pass


def _norm_index(self):
    ni = getattr(self, "_norm", None)
    if ni is None:
        ni = {}
        for k in self.idx:
            ni.setdefault(norm_path(k), []).append(k)
        self._norm = ni
    return ni


def fn_key(self, name, allow_many=False):
    """Resolve a table name like `WalCleaner::cleanup_up_to` (generic args stripped, `::`-boundary
    suffix match over lib bodies) to the body key. Fails closed when absent or ambiguous."""
    if name in self.idx:
        return name
    ni = _norm_index(self)
    if name in ni and len(ni[name]) == 1:
        return ni[name][0]
    hits = []
    for nk, ks in ni.items():
        if nk == name or nk.endswith("::" + name):
            hits += [k for k in ks if not k.startswith("bin:")]
    if not hits:
        raise AnchorMissing("no body named …::%s" % name)
    if len(hits) > 1 and not allow_many:
        raise AnchorMissing("ambiguous anchor %s: %s" % (name, hits[:5]))
    return hits if allow_many else hits[0]


def method_key(self, self_ty, trait, name):
    """body key of `impl <trait> for <self_ty> { fn name }` (type/trait given by their last path segments)"""
    rx = re.compile(r"^<(.*::)?%s as (.*::)?%s>::%s$" % (re.escape(self_ty), re.escape(trait), re.escape(name)))
    hits = [k for nk, ks in _norm_index(self).items() if rx.match(nk) for k in ks if not k.startswith("bin:")]
    if len(hits) != 1:
        raise AnchorMissing("impl %s for %s :: %s -> %d bodies" % (trait, self_ty, name, len(hits)))
    return hits[0]


def get_method(self, self_ty, trait, name):
    k = method_key(self, self_ty, trait, name)
    return get_body(self, k)


def get_body(self, name):
    """Body for a table name; for an `async fn` returns the coroutine body (`::{closure#0}`)."""
    k = fn_key(self, name)
    inf = self.info[k]
    if inf.get("async") and (k + "::{closure#0}") in self.idx:
        k = k + "::{closure#0}"
    bc = getattr(self, "_bodies", None)
    if bc is None:
        bc = self._bodies = {}
    if k not in bc:
        bc[k] = Body(self.body(k))
    b = bc[k]
    # #[async_trait]: the method only boxes `async move { body }`
    inner = k + "::{closure#0}"
    if not inf.get("async") and inner in self.idx and b.n <= 12 and any(
            v["r"] == "agg" and v.get("ak") == "coroutine" and v.get("def") == inner
            for blk in b.blocks for st in blk["s"] if "v" in st for v in [st["v"]]):
        if inner not in bc:
            bc[inner] = Body(self.body(inner))
        b = bc[inner]
        k = inner
    # #[tracing::instrument] wraps the real body in one more coroutine/closure
    inner = k + "::{closure#0}"
    if inner in self.idx and any("Instrument" in (c.name or "") and c.name.endswith("::instrument") for c in b.calls):
        if inner not in bc:
            bc[inner] = Body(self.body(inner))
        return bc[inner]
    return b


def get_body_exact(self, k):
    bc = getattr(self, "_bodies", None)
    if bc is None:
        bc = self._bodies = {}
    if k not in bc:
        bc[k] = Body(self.body(k))
    return bc[k]


Facts.fn_key = fn_key
Facts.fn = get_body
Facts.method = get_method
Facts.method_key = method_key
Facts.fn_exact = get_body_exact
