"""CFG view of one extracted MIR body (mir_built): edges, reachability with cuts, dominance,
call sites, switch-edge labelling, backward provenance and forward value flow.

All rules reduce to graph predicates over this view; nothing here looks at source text,
line numbers or block indices (those are only reported)."""
import re
from collections import deque

# calls that hand their (first) argument through unchanged as far as provenance is concerned
TRANSPARENT = re.compile(
    r"^(<.* as (std|core)::clone::Clone>::clone|"
    r"(std|core|alloc)::clone::Clone::clone|"
    r"<.* as (std|core)::ops::Deref(Mut)?>::deref(_mut)?|"
    r"(std|core)::ops::Deref(Mut)?::deref(_mut)?|"
    r"<.* as (std|core)::convert::(Into|From|AsRef|AsMut)<.*>>::(into|from|as_ref|as_mut)|"
    r"(std|core)::convert::(Into|From|AsRef|AsMut)::(into|from|as_ref|as_mut)|"
    r"<.* as (std|core)::borrow::(Borrow|BorrowMut|ToOwned)(<.*>)?>::(borrow|borrow_mut|to_owned)|"
    r"(std|alloc|core)::borrow::(Borrow|ToOwned)::(borrow|to_owned)|"
    r"<.* as (std|alloc)::string::ToString>::to_string|(std|alloc)::string::ToString::to_string|"
    r"(std|alloc)::string::String::as_str|(std|alloc)::string::String::as_bytes|"
    r"(std|alloc)::sync::Arc::<T(, A)?>::(new|clone|as_ref)|"
    r"(std|alloc)::boxed::Box::<T(, A)?>::(new|pin)|"
    r"(std|core)::pin::Pin::<.*>::(new|new_unchecked|as_mut|get_mut|into_inner)|"
    r"(std|core)::option::Option::<T>::(as_ref|as_mut|as_deref|cloned|copied|take|unwrap|expect|unwrap_or_default|ok_or|ok_or_else)|"
    r"(std|core)::str::<impl str>::(as_bytes|trim|trim_start|trim_end)|"
    r"(std|core)::result::Result::<T, E>::(as_ref|as_mut|unwrap|expect|map_err)|"
    r"<.* as (std|core)::future::IntoFuture>::into_future|(std|core)::future::IntoFuture::into_future|"
    r"<.* as (std|core)::iter::IntoIterator>::into_iter|(std|core)::iter::IntoIterator::into_iter|"
    r"(std|core)::slice::<impl \[T\]>::iter|(std|alloc)::vec::Vec::<T(, A)?>::(as_slice|iter|as_mut_slice)|"
    r"<.* as (std|core)::ops::Try>::branch|(std|core)::ops::Try::branch|"
    r"(std|core)::path::Path::new|(std|core)::path::PathBuf::as_path|<.* as (std|core)::ops::FromResidual<.*>>::from_residual"
    r")$"
)


def norm_path(p):
    """Strip generic-argument lists so tables can name `ZoneWriter::write_all` or
    `<FieldSelector as ZoneSelector>::select_for_segment` (keeps qualified-self `<T as Trait>` brackets)."""
    if p is None:
        return None
    c = _NORM_CACHE.get(p)
    if c is not None:
        return c
    out = []
    i, n = 0, len(p)
    while i < n:
        ch = p[i]
        strip = False
        if ch == "<":
            prev = p[i - 1] if i > 0 else ""
            if p.startswith("::<", i - 2) and i >= 2:
                strip = True
                # drop the '::' already emitted
                if out[-2:] == [":", ":"]:
                    out = out[:-2]
            elif prev.isalnum() or prev == "_":
                strip = True
        if strip:
            d, j = 0, i
            while j < n:
                if p[j] == "<":
                    d += 1
                elif p[j] == ">" and p[j - 1] != "-":
                    d -= 1
                    if d == 0:
                        break
                j += 1
            i = j + 1
            continue
        out.append(ch)
        i += 1
    r = "".join(out)
    _NORM_CACHE[p] = r
    return r


_NORM_CACHE = {}


class Call:
    __slots__ = ("bb", "callee", "ucallee", "virt", "args", "dest", "to", "sp", "mac", "st", "ga", "local", "cleanup", "ptr", "ik")

    def __init__(self, bb, t, cleanup):
        f = t["f"]
        self.bb = bb
        self.virt = bool(f.get("virt"))
        self.callee = f.get("p") if not self.virt else None
        self.ucallee = f.get("u")
        self.ptr = f.get("ptr")
        self.args = t.get("args", [])
        self.dest = t.get("dest")
        self.to = t.get("to")
        self.sp = t.get("sp")
        self.mac = t.get("mac") or []
        self.st = f.get("st")
        self.ga = f.get("ga")
        self.ik = f.get("ik")
        self.local = bool(f.get("local"))
        self.cleanup = cleanup

    @property
    def name(self):
        """best name: resolved callee, else the (trait) item called"""
        return self.callee or self.ucallee or "<fnptr>"

    @property
    def nname(self):
        return norm_path(self.name)

    def is_await_part(self):
        return any(m == "desugar:Await" for m in self.mac)

    def __repr__(self):
        return "Call(bb%d %s @%s)" % (self.bb, self.name, self.sp)


class Body:
    def __init__(self, rec):
        self.rec = rec
        self.key = rec["k"]
        self.blocks = rec["blocks"]
        self.locals = rec["locals"]
        self.n = len(self.blocks)
        self.argc = rec.get("argc", 0)
        self._succ = [None] * self.n
        self._pred = None
        self.calls = []
        for i, b in enumerate(self.blocks):
            t = b["t"]
            if t["t"] == "call":
                self.calls.append(Call(i, t, bool(b.get("cu"))))
        self._defs = None
        self._idom = None

    # ---------------------------------------------------------------- edges
    def succ(self, i, unwind=False):
        """(target, label) pairs. Labels: 'goto', 'ret' (call returned), ('sw', value|'else'),
        'drop', 'assert', 'resume' (after yield), 'unwind', 'ydrop'. FalseEdge/FalseUnwind are gotos
        to the real target (imaginary edges exist for borrowck only)."""
        c = self._succ[i]
        if c is None:
            t = self.blocks[i]["t"]
            k = t["t"]
            n, u = [], []
            if k == "goto" or k == "false_edge" or k == "false_unwind":
                n.append((t["to"], "goto"))
            elif k == "switch":
                cv = self._const_switch_value(i, t)
                if cv is not None:
                    # `if false {..}` from macro expansions: only the feasible edge exists
                    tgt = t["else"]
                    for v, b in t["v"]:
                        if v == cv:
                            tgt = b
                    n.append((tgt, ("sw", cv)))
                else:
                    for v, b in t["v"]:
                        n.append((b, ("sw", v)))
                    n.append((t["else"], ("sw", "else")))
            elif k == "call":
                if t.get("to") is not None:
                    n.append((t["to"], "ret"))
                if t.get("uw") is not None:
                    u.append((t["uw"], "unwind"))
            elif k == "drop":
                n.append((t["to"], "drop"))
                if t.get("uw") is not None:
                    u.append((t["uw"], "unwind"))
            elif k == "assert":
                n.append((t["to"], "assert"))
                if t.get("uw") is not None:
                    u.append((t["uw"], "unwind"))
            elif k == "yield":
                n.append((t["resume"], "resume"))
                if t.get("drop") is not None:
                    u.append((t["drop"], "ydrop"))
            c = (n, u)
            self._succ[i] = c
        return c[0] + c[1] if unwind else c[0]

    def _const_switch_value(self, i, t):
        d = t["d"]
        if "k" in d:
            k = d["k"]
        else:
            pl = d.get("m") or d.get("c")
            if pl is None or len(pl) != 1:
                return None
            k = None
            for s in reversed(self.blocks[i]["s"]):
                if "a" in s and s["a"] == [pl[0]]:
                    v = s["v"]
                    if v["r"] == "use" and "k" in v["o"]:
                        k = v["o"]["k"]
                    break
            if k is None:
                return None
        if k == "false":
            return "0"
        if k == "true":
            return "1"
        return None

    def preds(self):
        if self._pred is None:
            p = [[] for _ in range(self.n)]
            for i in range(self.n):
                for t, l in self.succ(i):
                    p[t].append((i, l))
            self._pred = p
        return self._pred

    def reach(self, src=0, cut_blocks=(), cut_edges=(), unwind=False, src_edges=None):
        """Blocks reachable from src (block index) or from the heads of src_edges without entering a
        cut block or taking a cut edge. Returns {block: predecessor} for witness paths."""
        cut_blocks = set(cut_blocks)
        cut_edges = set(cut_edges)
        seen = {}
        dq = deque()
        if src_edges is not None:
            for (a, b) in src_edges:
                if b not in cut_blocks and b not in seen:
                    seen[b] = a
                    dq.append(b)
        else:
            if src in cut_blocks:
                return seen
            seen[src] = None
            dq.append(src)
        while dq:
            x = dq.popleft()
            for t, _l in self.succ(x, unwind):
                if t in seen or t in cut_blocks or (x, t) in cut_edges:
                    continue
                seen[t] = x
                dq.append(t)
        return seen

    def path(self, seen, dst):
        out, x, guard = [], dst, 0
        while x is not None and guard < 100000:
            out.append(x)
            x = seen.get(x)
            if x in out:
                break
            guard += 1
        return list(reversed(out))

    def can_reach(self, a, b, **kw):
        return b in self.reach(a, **kw)

    def dominates_edge(self, edge, b):
        """every entry->b path takes `edge`"""
        return b not in self.reach(0, cut_edges=[edge])

    def dominates(self, a, b):
        """block a dominates block b (a's terminator executed and a normal successor taken)"""
        if a == b:
            return True
        return b not in self.reach(0, cut_blocks=[a])

    def exits(self):
        return [i for i, b in enumerate(self.blocks) if b["t"]["t"] == "ret"]

    def live_blocks(self):
        return set(self.reach(0))

    # ---------------------------------------------------------------- definitions
    def defs(self):
        """local -> list of (bb, idx|-1 for call dest, place, rvalue|call)"""
        if self._defs is None:
            d = {}
            for i, b in enumerate(self.blocks):
                for j, s in enumerate(b["s"]):
                    if "a" in s:
                        d.setdefault(s["a"][0], []).append((i, j, s["a"], s["v"]))
                t = b["t"]
                if t["t"] == "call" and t.get("dest") is not None:
                    d.setdefault(t["dest"][0], []).append((i, -1, t["dest"], t))
                if t["t"] == "yield":
                    pass
            self._defs = d
        return self._defs

    def local_name(self, l):
        if l < len(self.locals):
            return self.locals[l].get("n")
        return None

    def local_ty(self, l):
        return self.locals[l]["t"] if l < len(self.locals) else "?"

    def is_param(self, l):
        return 1 <= l <= self.argc

    # ---------------------------------------------------------------- provenance (backward)
    unwrap_some = False   # when set, `Some(x)` / `Ok(x)` wrappers are looked through

    def origins(self, op, depth=12, transparent=TRANSPARENT, _seen=None):
        """Set of leaf descriptors an operand/place may come from.
        leaves: ('param', name, proj) ('upvar', name, proj) ('const', repr) ('static', path, proj)
                ('call', callee, bb, proj) ('agg', adt::variant|kind, bb, proj) ('fnitem', path)
                ('binop', op, bb) ('unknown', why)"""
        if _seen is None:
            _seen = set()
        if isinstance(op, dict):
            if "k" in op:
                if "fn" in op:
                    f = op["fn"]
                    return {("fnitem", f.get("p") or f.get("u"))}
                if "static" in op:
                    return {("static", op["static"], ())}
                if "item" in op:
                    return {("constitem", op["item"], ())}
                if "def" in op:
                    return {("fnitem", op["def"])}
                return {("const", op["k"])}
            place = op.get("m") or op.get("c")
        else:
            place = op
        return self._place_origins(place, depth, transparent, _seen)

    def _place_origins(self, place, depth, transparent, seen):
        local, proj = place[0], tuple(place[1:])
        key = (local, proj)
        if key in seen or depth <= 0:
            return {("unknown", "cycle/depth", ())}
        seen = seen | {key}
        # strip derefs for provenance purposes
        proj_clean = tuple(p for p in proj if p != "*")
        if self.rec.get("upvars") and local == 1 and proj_clean and proj_clean[0].startswith(".^"):
            return {("upvar", proj_clean[0][2:], proj_clean[1:])}
        defs = self.defs().get(local, [])
        if self.is_param(local) and not [d for d in defs if len(d[2]) == 1]:
            return {("param", self.local_name(local) or "_%d" % local, proj_clean)}
        out = set()
        whole = [d for d in defs if len(d[2]) == 1]
        partial = [d for d in defs if len(d[2]) > 1]
        if self.is_param(local):
            out.add(("param", self.local_name(local) or "_%d" % local, proj_clean))
        # field-wise initialisation: _x.f = ...; prefer matching partial defs
        for (bb, j, dplace, rv) in partial:
            dproj = tuple(p for p in dplace[1:] if p != "*")
            if proj_clean[: len(dproj)] == dproj:
                out |= self._extend(self._rv_origins(bb, j, rv, depth, transparent, seen), proj_clean[len(dproj):])
        for (bb, j, dplace, rv) in whole:
            # see through `(a, b).0` / `S { f: x }.f`: project into the aggregate's operand
            if j != -1 and rv["r"] == "agg" and proj_clean and proj_clean[0].startswith("."):
                fld = proj_clean[0][1:]
                idx = None
                if rv.get("ak") in ("tuple", "array", "closure", "coroutine") and fld.isdigit():
                    idx = int(fld)
                elif rv.get("ak") == "adt" and fld in rv.get("fields", []):
                    idx = rv["fields"].index(fld)
                if idx is not None and idx < len(rv["o"]):
                    out |= self._extend(self.origins(rv["o"][idx], depth - 1, transparent, seen), proj_clean[1:])
                    continue
            out |= self._extend(self._rv_origins(bb, j, rv, depth, transparent, seen), proj_clean)
        if not out:
            out.add(("unknown", "no-def _%d" % local, proj_clean))
        return out

    @staticmethod
    def _extend(leaves, proj):
        if not proj:
            return leaves
        res = set()
        for l in leaves:
            if l[0] in ("param", "upvar", "static", "constitem"):
                res.add((l[0], l[1], tuple(l[2]) + tuple(proj)))
            elif l[0] in ("call", "agg"):
                res.add((l[0], l[1], l[2], tuple(l[3]) + tuple(proj)))
            else:
                res.add(l)
        return res

    def _rv_origins(self, bb, j, rv, depth, transparent, seen):
        if j == -1:  # call destination
            f = rv["f"]
            name = (f.get("p") if not f.get("virt") else None) or f.get("u") or "<fnptr>"
            if transparent is not None and rv.get("args") and transparent.match(name):
                return self.origins(rv["args"][0], depth - 1, transparent, seen)
            return {("call", name, bb, ())}
        r = rv["r"]
        if r in ("use", "cast", "repeat"):
            return self.origins(rv["o"], depth - 1, transparent, seen)
        if r in ("ref", "cfd", "rawptr"):
            return self._place_origins(rv["p"], depth - 1, transparent, seen)
        if r == "agg":
            ak = rv.get("ak")
            if ak == "adt":
                if self.unwrap_some and rv["var"] in ("Some", "Ok") and len(rv["o"]) == 1 and rv["adt"].endswith(("option::Option", "result::Result")):
                    return self.origins(rv["o"][0], depth - 1, transparent, seen)
                return {("agg", "%s::%s" % (rv["adt"], rv["var"]), bb, ())}
            if ak in ("closure", "coroutine", "coroutine_closure"):
                return {("agg", "%s:%s" % (ak, rv["def"]), bb, ())}
            return {("agg", ak, bb, ())}
        if r == "bin":
            return {("binop", rv["op"], bb)}
        if r == "un":
            return {("unop", rv["op"], bb)}
        if r == "discr":
            return {("discr", bb)}
        return {("unknown", r, ())}

    def agg_field_operand(self, bb, adt_variant_suffix, field):
        """operand assigned to `field` in the aggregate of ADT ..adt_variant built in block bb"""
        for s in self.blocks[bb]["s"]:
            v = s.get("v")
            if v and v["r"] == "agg" and v.get("ak") == "adt":
                if ("%s::%s" % (v["adt"], v["var"])).endswith(adt_variant_suffix) and field in v["fields"]:
                    return v["o"][v["fields"].index(field)]
        return None

    def aggregates(self, adt_suffix=None, variant=None):
        """all ADT aggregates: (bb, stmt_idx, rvalue, dest place)"""
        out = []
        for i, b in enumerate(self.blocks):
            for j, s in enumerate(b["s"]):
                v = s.get("v")
                if v and v["r"] == "agg" and v.get("ak") == "adt":
                    if adt_suffix is not None and not norm_path(v["adt"]).endswith(adt_suffix):
                        continue
                    if variant is not None and v["var"] != variant:
                        continue
                    out.append((i, j, v, s["a"]))
        return out

    # ---------------------------------------------------------------- forward flow
    def flow_forward(self, place, follow_calls=TRANSPARENT, max_iter=50):
        """Places (local, proj-tuple) that (may) hold the value initially in `place`, obtained by
        following moves/copies/refs/field projections and transparent calls forward."""
        start = (place[0], tuple(p for p in place[1:] if p != "*"))
        have = {start}
        changed = True
        it = 0
        while changed and it < max_iter:
            changed = False
            it += 1
            for i, b in enumerate(self.blocks):
                for s in b["s"]:
                    if "a" not in s:
                        continue
                    v = s["v"]
                    src = None
                    if v["r"] in ("use", "cast"):
                        o = v["o"]
                        src = o.get("m") or o.get("c")
                    elif v["r"] in ("ref", "cfd", "rawptr"):
                        src = v["p"]
                    if src is None:
                        continue
                    sl, sp = src[0], tuple(p for p in src[1:] if p != "*")
                    dl, dp = s["a"][0], tuple(p for p in s["a"][1:] if p != "*")
                    for (hl, hp) in list(have):
                        if hl != sl:
                            continue
                        # src is hp extended by extra projection, or a prefix of hp
                        if sp[: len(hp)] == hp:
                            new = (dl, dp + ("#",) * 0 + tuple(("+" + x) for x in sp[len(hp):]))
                        elif hp[: len(sp)] == sp:
                            new = (dl, dp + hp[len(sp):])
                        else:
                            continue
                        if new not in have:
                            have.add(new)
                            changed = True
                t = b["t"]
                if t["t"] == "call" and follow_calls is not None and t.get("args") and t.get("dest"):
                    f = t["f"]
                    name = (f.get("p") if not f.get("virt") else None) or f.get("u") or ""
                    if follow_calls.match(name):
                        o = t["args"][0]
                        src = o.get("m") or o.get("c")
                        if src is not None:
                            sl, sp = src[0], tuple(p for p in src[1:] if p != "*")
                            for (hl, hp) in list(have):
                                if hl == sl and (sp[: len(hp)] == hp or hp[: len(sp)] == sp):
                                    new = (t["dest"][0], tuple(p for p in t["dest"][1:] if p != "*"))
                                    if new not in have:
                                        have.add(new)
                                        changed = True
        return have

    # ---------------------------------------------------------------- switches
    def switch_info(self, bb):
        """Describe what the SwitchInt at bb tests.
        returns dict(kind='enum', place=..., adt=..., edges={variant_or_'else': target}) or
                dict(kind='bool', origin=leaves, true=bb, false=bb, neg=bool, op=operand) or dict(kind='int', ...)"""
        t = self.blocks[bb]["t"]
        if t["t"] != "switch":
            return None
        d = t["d"]
        place = d.get("m") or d.get("c")
        if place is None:
            return {"kind": "const", "t": t}
        local = place[0]
        ty = self.local_ty(local)
        # find the defining statement (prefer same block, scanning backwards)
        rv = self._last_def_in_or_before(bb, local)
        if rv is not None and rv["r"] == "discr":
            vars_ = rv.get("vars", {})
            edges = {}
            for v, tgt in t["v"]:
                edges[vars_.get(v, "#" + v)] = tgt
            listed = {vars_.get(v) for v, _ in t["v"]}
            edges["else"] = t["else"]
            return {"kind": "enum", "place": rv["p"], "adt": rv.get("adt"), "edges": edges,
                    "else_variants": [n for n in vars_.values() if n not in listed], "vars": vars_}
        if ty == "bool":
            neg = False
            op = d
            # peel Not
            guard = 0
            while rv is not None and rv["r"] == "un" and rv["op"] == "Not" and guard < 5:
                neg = not neg
                op = rv["o"]
                pl = op.get("m") or op.get("c")
                rv = self._last_def_in_or_before(bb, pl[0]) if pl else None
                guard += 1
            f = t["else"]
            tr = None
            for v, tgt in t["v"]:
                if v == "0":
                    fl = tgt
                    tr = t["else"]
                    break
            else:
                fl = t["else"]
                tr = t["v"][0][1] if t["v"] else None
            if neg:
                tr, fl = fl, tr
            return {"kind": "bool", "true": tr, "false": fl, "op": op, "def": rv, "neg": neg}
        return {"kind": "int", "ty": ty, "edges": {v: tgt for v, tgt in t["v"]}, "else": t["else"], "def": rv, "op": d}

    def _last_def_in_or_before(self, bb, local):
        # same block, last assignment
        for s in reversed(self.blocks[bb]["s"]):
            if "a" in s and s["a"][0] == local and len(s["a"]) == 1:
                return s["v"]
        ds = [d for d in self.defs().get(local, []) if len(d[2]) == 1]
        if len(ds) == 1:
            d = ds[0]
            if d[1] == -1:
                return {"r": "call", "t": d[3], "bb": d[0]}
            return d[3]
        return None

    def def_call_of(self, op):
        """If operand is a temp defined exactly once by a call, return that Call."""
        place = op.get("m") or op.get("c") if isinstance(op, dict) else op
        if place is None:
            return None
        ds = [d for d in self.defs().get(place[0], []) if len(d[2]) == 1]
        if len(ds) == 1 and ds[0][1] == -1:
            for c in self.calls:
                if c.bb == ds[0][0]:
                    return c
        return None

    # ---------------------------------------------------------------- call-site queries
    def find_calls(self, pattern, cleanup=False):
        """call sites whose (normalised) resolved-or-trait name matches the regex `pattern` (search)"""
        rx = re.compile(pattern) if isinstance(pattern, str) else pattern
        live = self.live_blocks()
        return [c for c in self.calls if (cleanup or (not c.cleanup and c.bb in live))
                and (rx.search(c.nname) or (c.ucallee and rx.search(norm_path(c.ucallee))))]

    def call_at(self, bb):
        for c in self.calls:
            if c.bb == bb:
                return c
        return None

    # .await: X(args) -> into_future -> loop { poll -> switch Ready/Pending -> yield }
    def await_of(self, call):
        """For a call creating a future, return (poll_call, ready_edge) of the `.await` consuming it, or None.
        Only the *whole* returned value counts (a future stored in a field of the result is a different await)."""
        if call.dest is None:
            return None
        c = getattr(self, "_await_cache", None)
        if c is None:
            c = self._await_cache = {}
        if call.bb in c:
            return c[call.bb]
        res = None
        flow = self.flow_forward(call.dest)
        exact = {l for l, p in flow if p == ()}
        for f in self.calls:
            if f.cleanup or not f.is_await_part() or not f.nname.endswith("into_future") or not f.args:
                continue
            pl = f.args[0].get("m") or f.args[0].get("c")
            if pl is None or len(pl) != 1 or pl[0] not in exact:
                continue
            aw = {l for l, p in self.flow_forward(f.dest) if p == ()}
            for p_ in self.calls:
                if p_.cleanup or not p_.is_await_part() or not p_.args:
                    continue
                n = p_.nname
                if not (n.endswith("::poll") or "Future>::poll" in n or n.endswith("{closure#0}") or (p_.ucallee or "").endswith("Future::poll")):
                    continue
                if p_.nname.endswith("into_future") or p_.nname.endswith("get_context") or p_.nname.endswith("new_unchecked"):
                    continue
                if self._origin_locals(p_.args[0]) & aw:
                    res = (p_, self.ready_edge(p_))
                    break
            if res:
                break
        c[call.bb] = res
        return res

    def _origin_locals(self, op, depth=8):
        """locals reachable backwards from operand through moves/refs/transparent calls"""
        out = set()
        place = op.get("m") or op.get("c")
        if place is None:
            return out
        stack = [(place[0], depth)]
        while stack:
            l, d = stack.pop()
            if l in out or d <= 0:
                continue
            out.add(l)
            for (bb, j, dpl, rv) in self.defs().get(l, []):
                if j == -1:
                    f = rv["f"]
                    name = (f.get("p") if not f.get("virt") else None) or f.get("u") or ""
                    if TRANSPARENT.match(name) and rv.get("args"):
                        p2 = rv["args"][0].get("m") or rv["args"][0].get("c")
                        if p2:
                            stack.append((p2[0], d - 1))
                else:
                    r = rv["r"]
                    p2 = None
                    if r in ("use", "cast"):
                        p2 = rv["o"].get("m") or rv["o"].get("c")
                    elif r in ("ref", "cfd", "rawptr"):
                        p2 = rv["p"]
                    if p2:
                        stack.append((p2[0], d - 1))
        return out

    def ready_edge(self, poll_call):
        """edge (switch_bb, target) taken when the polled future is Ready"""
        if poll_call.to is None:
            return None
        # the switch on discriminant(poll dest) follows directly
        bb = poll_call.to
        guard = 0
        while guard < 6:
            si = self.switch_info(bb)
            if si and si["kind"] == "enum" and "Ready" in si["edges"]:
                return (bb, si["edges"]["Ready"])
            nx = self.succ(bb)
            if len(nx) != 1:
                return None
            bb = nx[0][0]
            guard += 1
        return None

    def completion_edge(self, call):
        """The CFG edge that is taken exactly when `call` has completed: for a plain call the return
        edge; for a future-creating call that is awaited, the Ready edge of its poll loop."""
        aw = self.await_of(call)
        if aw is not None and aw[1] is not None:
            return aw[1], aw[0]
        if call.to is None:
            return None, None
        return (call.bb, call.to), None

    def result_value_place(self, call):
        """place holding the call's (awaited) result"""
        aw = self.await_of(call)
        if aw is not None:
            pc = aw[0]
            return [pc.dest[0], "@Ready", ".0"], aw
        return call.dest, None

    def variant_edges(self, call, want):
        """Follow the (awaited) result of `call` forward to enum switches and return the edges on which
        the value is in one of the `want` variants at every level tested so far.
        want: set like {'Ok','Some','Continue','Ready'}; returns list of (edge, variant, switch_bb)."""
        place, aw = self.result_value_place(call)
        flow = self.flow_forward(place if aw is None else [aw[0].dest[0]])
        locs = {}
        for l, p in flow:
            locs.setdefault(l, set()).add(p)
        out = []
        for i, b in enumerate(self.blocks):
            if b["t"]["t"] != "switch":
                continue
            si = self.switch_info(i)
            if not si or si["kind"] != "enum":
                continue
            pl = si["place"]
            if pl[0] in locs:
                for name, tgt in si["edges"].items():
                    if name in want:
                        out.append(((i, tgt), name, i))
        return out

    # ---------------------------------------------------------------- pretty printing
    def fmt_place(self, p):
        s = "_%d" % p[0]
        n = self.local_name(p[0])
        if n:
            s += "(%s)" % n
        for e in p[1:]:
            s += e if e.startswith((".", "@", "[")) else e
        return s

    def fmt_op(self, o):
        if "k" in o:
            if "fn" in o:
                return "fn " + (o["fn"].get("p") or o["fn"].get("u"))
            return o["k"]
        return ("move " if "m" in o else "") + self.fmt_place(o.get("m") or o.get("c"))

    def fmt_rv(self, v):
        r = v["r"]
        if r in ("use", "repeat"):
            return self.fmt_op(v["o"])
        if r == "ref":
            return ("&mut " if v.get("mut") else "&") + self.fmt_place(v["p"])
        if r in ("cfd", "rawptr"):
            return r + " " + self.fmt_place(v["p"])
        if r == "cast":
            return "%s as %s (%s)" % (self.fmt_op(v["o"]), v["ty"][:60], v["ck"])
        if r == "bin":
            return "%s(%s, %s)" % (v["op"], self.fmt_op(v["a"]), self.fmt_op(v["b"]))
        if r == "un":
            return "%s(%s)" % (v["op"], self.fmt_op(v["o"]))
        if r == "discr":
            return "discriminant(%s) [%s]" % (self.fmt_place(v["p"]), v.get("adt"))
        if r == "agg":
            ak = v.get("ak")
            if ak == "adt":
                fs = ", ".join("%s: %s" % (f, self.fmt_op(o)) for f, o in zip(v["fields"], v["o"]))
                return "%s::%s { %s }" % (v["adt"], v["var"], fs)
            if ak in ("closure", "coroutine", "coroutine_closure"):
                return "%s %s [%s]" % (ak, v["def"], ", ".join(self.fmt_op(o) for o in v["o"]))
            return "%s(%s)" % (ak, ", ".join(self.fmt_op(o) for o in v["o"]))
        return v.get("s", r)

    def dump(self, only_live=True, skip_macro=("tracing", "event", "debug", "info", "warn", "error", "trace")):
        out = ["fn %s  [%s:%s] blocks=%d" % (self.key, self.rec["file"], self.rec["line"], self.n)]
        live = self.live_blocks() if only_live else set(range(self.n))
        TR = {"$crate::event", "tracing::event", "$crate::valueset", "$crate::level_enabled", "$crate::enabled", "tracing::enabled", "$crate::callsite2", "$crate::callsite"}
        for i, b in enumerate(self.blocks):
            if i not in live:
                continue
            if skip_macro and set(b["t"].get("mac") or []) & TR:
                continue
            out.append("bb%d%s:" % (i, " (cleanup)" if b.get("cu") else ""))
            for s in b["s"]:
                if "a" in s:
                    out.append("    %s = %s   // L%s" % (self.fmt_place(s["a"]), self.fmt_rv(s["v"]), s.get("ln")))
                elif "sd" in s:
                    pass
            t = b["t"]
            k = t["t"]
            if k == "call":
                f = t["f"]
                nm = f.get("p") or f.get("u") or "<ptr %s>" % self.fmt_op(f["ptr"])
                if f.get("virt"):
                    nm = "dyn " + f.get("u")
                out.append("    %s = %s(%s) -> bb%s uw=%s   // %s %s" % (
                    self.fmt_place(t["dest"]), nm, ", ".join(self.fmt_op(a) for a in t["args"]), t.get("to"), t.get("uw"),
                    t.get("sp"), ",".join(t.get("mac") or [])))
            elif k == "switch":
                out.append("    switch(%s) %s else bb%s   // %s" % (self.fmt_op(t["d"]), " ".join("%s:bb%s" % (v, tg) for v, tg in t["v"]), t["else"], t.get("sp")))
            elif k == "drop":
                out.append("    drop(%s) -> bb%s" % (self.fmt_place(t["p"]), t["to"]))
            elif k == "yield":
                out.append("    yield -> bb%s drop=%s" % (t["resume"], t["drop"]))
            elif k in ("goto", "false_edge", "false_unwind"):
                out.append("    %s -> bb%s" % (k, t["to"]))
            elif k == "assert":
                out.append("    assert(%s == %s, %s) -> bb%s" % (self.fmt_op(t["c"]), t["exp"], t["msg"], t["to"]))
            else:
                out.append("    " + k)
        return "\n".join(out)
