"""C01 — applied writes survive crash/restart exactly once: structural clauses."""
from .util import *
import json
from ..callgraph import CallGraph

EXPLANATION = """
Decides structural (all-path) clauses that are necessary for C01; does not decide crash atomicity or exactly-once as behaviour.
a) insert_and_maybe_flush: {completion of awaited WalHandle::append, CONFIG.wal.enabled==false edge, ctx.wal==None edge} cuts entry from MemTable::insert.
b) WalEntry::from_event copies timestamp/context_id/event_type/payload/event_id from the event; WalRecovery::replay_log_file builds the Event from the same five entry fields.
c) ShardContext::new reaches WalRecovery::recover on every path to return; recover sorts the file list before the replay loop; replay reaches MemTable::insert.
d) who-may-delete WAL files: only WalCleaner::cleanup_up_to calls remove_file among functions whose path comes from a WAL directory; callers(cleanup_up_to) = {flush task}.
e) flush task: cleanup_up_to is dominated by Ok(flush), verify_with_retry==true, and the segment_ids push.
f) cleanup_up_to: remove_file is control dependent on Lt(parsed id, keep_from_log_id).
g) SegmentIndex::save: File::create takes the tmp path; flush -> sync_all -> rename(tmp, final) in this order; only `save` names "segments.idx" for writing.
h) Flusher::flush: SegmentIndexBuilder::add_segment_entry is dominated by successful completion of the per-type write loop.
i) shutdown: flush_all precedes shutdown_all; on_shutdown awaits wal.shutdown() before returning Ok.
k) writer side of the same lockstep: the WAL rotates when entries_written reaches CONFIG.engine.fill_factor * event_per_zone, the same product that sizes the memtable (ShardContext::new) and that
   find_next_wal_id uses to decide roll-over at start-up; entries_written is only ever (re)initialised from the lines already in the newest log file (count_entries) or incremented by one per appended entry.
l) restart lists every segment directory the writer can produce: SegmentId::dir_name pads to a *minimum* width, so the start-up scan (SegmentIdLoader::load) accepts a directory on an
   all-digits test only and never on an exact-length comparison (segments of level >= 10 have longer names).
j) every L0 id allocation site (next_for_level(0) feeding queue_for_flush) is control dependent on MemTable::is_full (segment-id / WAL-log-id lockstep).
Not decided: crash points between steps, WAL replay vs published segment duplication, buffered WAL prefix semantics, fsync actually reaching disk.
Borrowed: C18.a (the event id is assigned before the WAL entry is built: recovery then reproduces the ids reads de-duplicate by, which is what makes an event present in both an unpruned log and a segment count once).
"""
FLOOR = 16
REQUIRED = ["C01.a", "C01.b1", "C01.b2", "C01.c", "C01.d", "C01.e", "C01.f", "C01.g", "C01.h", "C01.i", "C01.j", "C01.k", "C01.l", "C01.m", "C01.n"]
ASSUMPTIONS = ["tokio mpsc mailbox is FIFO", "WalHandle::append completing means the entry was handed to the WAL writer task"]

FIVE = ["timestamp", "context_id", "event_type", "payload", "event_id"]


def run(ctx):
    F = ctx.F

    # ------------------------------------------------------------------ a
    def a(inst):
        b = F.fn("insert_and_maybe_flush")
        ins = one(b, r"MemTable::insert$", "memtable insert")
        app = one(b, r"WalHandle::append$", "WAL append")
        inst.sites = [sp(b, app.bb), sp(b, ins.bb)]
        if not is_awaited(b, app):
            return [("append-not-awaited", "WalHandle::append future is created but not awaited before the insert", None)]
        cut = [done_edge(b, app)]
        cfg = bool_switches_on(b, lambda L: has_origin(L, "static", name_re=r"CONFIG$", proj_contains=[".wal", ".enabled"]))
        for i, si in cfg:
            cut.append((i, si["false"]))
        wal = enum_switches_on(b, lambda L: has_origin(L, None, proj_contains=[".wal"]) and not has_origin(L, "static"), r"option::Option")
        for i, si in wal:
            for tgt in edges_for_variant(si, "None"):
                cut.append((i, tgt))
        inst.detail = "cut = append-completed edge + %d config-disabled edge(s) + %d wal-None edge(s)" % (len(cfg), len(wal))
        return must_cross(b, ins.bb, cut_edges=cut, key="insert-without-wal", detail="MemTable::insert reachable without the WAL append having completed")
    ctx.run("C01.a", "K2 CUT", "insert_and_maybe_flush", "WAL append (or WAL disabled) on every path to MemTable::insert", a)

    # ------------------------------------------------------------------ b
    def b1(inst):
        b = F.fn("WalEntry::from_event")
        aggs = b.aggregates("WalEntry")
        if len(aggs) != 1:
            raise AnchorMissing("WalEntry aggregate in from_event: %d" % len(aggs))
        bb, j, v, _ = aggs[0]
        bad = []
        for f in FIVE:
            if f not in v["fields"]:
                raise AnchorMissing("WalEntry has no field %s" % f)
            L = b.origins(v["o"][v["fields"].index(f)])
            want_proj = {"timestamp": ".timestamp", "context_id": ".context_id", "event_type": ".event_type", "payload": ".payload"}.get(f)
            if want_proj:
                ok = has_origin(L, "param", "event", proj_contains=[want_proj]) and len(L) == 1
            else:
                ok = any(l[0] == "call" and norm_path(l[1]).endswith("Event::event_id") for l in L) and len(L) == 1
                if ok:
                    c = [c for c in b.calls if c.nname.endswith("Event::event_id")][0]
                    ok = has_origin(b.origins(c.args[0]), "param", "event")
            inst.sites.append("%s <- %s" % (f, fmt_leaves(L)))
            if not ok:
                bad.append(("field:%s" % f, "WalEntry.%s is not copied from the event (origin: %s)" % (f, fmt_leaves(L)), None))
        return bad
    ctx.run("C01.b1", "K7 PROV", "WalEntry::from_event", "WAL entry carries the event's five identity/content fields", b1)

    def b2(inst):
        b = F.fn("WalRecovery::replay_log_file")
        aggs = b.aggregates("event::event::Event")
        if len(aggs) != 1:
            raise AnchorMissing("Event aggregate in replay_log_file: %d" % len(aggs))
        bb, j, v, _ = aggs[0]
        bad = []
        m = {"timestamp": ".timestamp", "context_id": ".context_id", "event_type": ".event_type", "id": ".event_id", "payload": ".payload"}
        # the parsed entry: result of serde_json::from_str::<WalEntry>
        for f, pr in m.items():
            if f not in v["fields"]:
                raise AnchorMissing("Event has no field %s" % f)
            L = b.origins(v["o"][v["fields"].index(f)])
            ok = len(L) == 1 and all(l[0] == "call" and "serde_json" in l[1] and "from_str" in l[1] and pr in l[3] for l in L)
            inst.sites.append("%s <- %s" % (f, fmt_leaves(L)))
            if not ok:
                bad.append(("field:%s" % f, "recovered Event.%s is not the parsed entry's %s (origin: %s)" % (f, pr, fmt_leaves(L)), None))
        # the event inserted is that aggregate; id regenerated only on the is_zero edge
        ins = one(b, r"MemTable::insert$")
        L = b.origins(ins.args[1])
        if not any(l[0] == "agg" and l[1].endswith("Event::Event") for l in L):
            bad.append(("insert-arg", "replay inserts something else than the reconstructed event: %s" % fmt_leaves(L), None))
        setid = calls(b, r"Event::set_event_id$", 0)
        for c in setid:
            z = one(b, r"EventId::is_zero$")
            tr = bool_result_edge(b, z, True)
            if not any(b.dominates_edge(e, c.bb) for e in tr):
                bad.append(("regenerate-id", "recovery overwrites an event id outside the is_zero branch", None))
        return bad
    ctx.run("C01.b2", "K7 PROV", "WalRecovery::replay_log_file", "recovered event = parsed WAL entry field by field; original id kept unless zero", b2)
    # 'exactly once' after a restart rests on reads de-duplicating by event id: the id in the WAL entry must be the id stored (assigned before the WAL entry is built)
    ctx.borrow("C18", ["C18.a"], "C01")

    # ------------------------------------------------------------------ c
    def c(inst):
        b = F.fn("ShardContext::new")
        rec = one(b, r"WalRecovery::recover$")
        bad = []
        for x in b.exits():
            bad += must_cross(b, x, cut_blocks=[rec.bb], key="return-without-recover", detail="ShardContext::new returns without WAL recovery")
        inst.sites.append(sp(b, rec.bb))
        r = F.fn("WalRecovery::recover")
        lst = one(r, r"WalRecovery::list_sorted_log_files$")
        rp = one(r, r"WalRecovery::replay_log_file$")
        if not r.dominates_edge((lst.bb, lst.to), rp.bb):
            bad.append(("replay-unsorted", "replay loop not dominated by list_sorted_log_files", None))
        # `?` on each replay: error aborts (no silent skip of a whole file)
        l = F.fn("WalRecovery::list_sorted_log_files")
        srt = sort_call_sites(F, l)
        if not srt:
            raise AnchorMissing("site: a slice sort executed by WalRecovery::list_sorted_log_files (directly or through a crate helper)")
        for x in l.exits():
            # Ok exits must pass the sort; the `?` early exit on read_dir error may bypass
            pass
        okagg = [a for a in l.aggregates("result::Result", "Ok")]
        if not okagg:
            raise AnchorMissing("Ok(..) aggregate in list_sorted_log_files")
        for (bb, j, v, _) in okagg:
            if not any(l.dominates_edge((s.bb, s.to), bb) for s in srt):
                bad.append(("unsorted-ok", "list_sorted_log_files can return Ok without sorting", None))
        rl = F.fn("WalRecovery::replay_log_file")
        one(rl, r"MemTable::insert$")
        nxs = [c_ for c_ in for_headers(r) if r.can_reach(c_.bb, rp.bb) and r.can_reach(rp.bb, c_.bb)]
        if not nxs:
            raise AnchorMissing("loop over the WAL files in recover")
        w = skipped_iteration(r, nxs[0], [rp.bb])
        if w:
            bad.append(("wal-file-skipped", "recovery can skip a WAL file without replaying it", w))
        inst.sites += [sp(r, lst.bb), sp(r, rp.bb)]
        return bad
    ctx.run("C01.c", "K1 DOM", "ShardContext::new / WalRecovery::recover", "startup always replays the WAL, in sorted file order, into the memtable", c)

    # ------------------------------------------------------------------ d
    def d(inst):
        cg = CallGraph(F)
        bad = []
        # every lib function that calls a file-removal leaf
        rm = [k for k in cg.nodes for t in cg.edges[k] if t in ("std::fs::remove_file", "tokio::fs::remove_file")]
        rm = sorted(set(rm))
        wal_rm = []
        for k in rm:
            if "::wal::" in k or "wal_" in k.split("::")[-2] if "::" in k else False:
                wal_rm.append(k)
        inst.sites = ["remove_file callers in wal modules: %s" % ", ".join(norm_path(k) for k in wal_rm)]
        allowed = {"engine::core::wal::wal_cleaner::WalCleaner::cleanup_up_to"}
        for k in wal_rm:
            base = k.split("::{closure")[0]
            if base not in allowed:
                bad.append(("wal-delete:%s" % norm_path(base), "%s deletes files from a WAL module but is not the cleaner" % k, None))
        if not any(k.split("::{closure")[0] in allowed for k in wal_rm):
            raise AnchorMissing("cleanup_up_to no longer calls remove_file")
        # provenance: any remove_file whose path derives from a `wal_dir` field / CONFIG.wal.dir, anywhere in the lib
        for k in rm:
            base = k.split("::{closure")[0]
            if base in allowed:
                continue
            body = F.fn_exact(k)
            for c in body.find_calls(r"fs::remove_file$"):
                L = body.origins(c.args[0])
                if has_origin(L, None, proj_contains=[".wal_dir"]) or has_origin(L, "static", name_re="CONFIG", proj_contains=[".wal", ".dir"]):
                    bad.append(("wal-delete:%s" % norm_path(base), "%s removes a file under a WAL directory (%s)" % (k, fmt_leaves(L)), None))
        callers = {x.split("::{closure")[0] + ("::{closure" + x.split("::{closure", 1)[1] if "::{closure" in x else "") for x in cg.callers("engine::core::wal::wal_cleaner::WalCleaner::cleanup_up_to")}
        inst.sites.append("callers(cleanup_up_to) = %s" % sorted(callers))
        ok_callers = {"engine::core::write::flush_worker::FlushWorker::run::{closure#0}::{closure#0}"}
        for x in callers:
            if x not in ok_callers:
                bad.append(("cleanup-caller:%s" % norm_path(x), "cleanup_up_to is called from %s (only the flush task may prune the WAL)" % x, None))
        if not callers:
            raise AnchorMissing("no caller of cleanup_up_to")
        return bad
    ctx.run("C01.d", "K4 REACH", "crate call graph", "only the cleaner deletes WAL files and only the flush task calls it", d)

    # ------------------------------------------------------------------ e
    def e(inst):
        b = F.fn_exact("engine::core::write::flush_worker::FlushWorker::run::{closure#0}::{closure#0}") if F.has("engine::core::write::flush_worker::FlushWorker::run::{closure#0}::{closure#0}") else None
        if b is None:
            raise AnchorMissing("flush task body")
        cl = one(b, r"WalCleaner::cleanup_up_to$")
        fl = one(b, r"Flusher::flush$")
        vr = one(b, r"SegmentVerifier::verify_with_retry$")
        push = calls(b, r"Vec::push$", 1)
        inst.sites = [sp(b, fl.bb), sp(b, vr.bb)] + [sp(b, p.bb) for p in push] + [sp(b, cl.bb)]
        bad = []
        # (i) Ok edge of awaited flush
        oke = [e for (e, v) in ok_edges(b, fl) if v == "Ok"]
        if not oke:
            raise AnchorMissing("flush result is not matched on Ok")
        if not any(b.dominates_edge(e_, cl.bb) for e_ in oke):
            bad.append(("cleanup-before-flush-ok", "cleanup_up_to not dominated by the Ok edge of Flusher::flush", None))
        # (ii) true edge of verify
        te = bool_result_edge(b, vr, True)
        if not any(b.dominates_edge(e_, cl.bb) for e_ in te):
            bad.append(("cleanup-before-verify", "cleanup_up_to not dominated by verify_with_retry == true", None))
        # (iii) segment_ids push: the push is conditional on !contains; the contains-true edge is the accepted bypass
        segpush = [p for p in push if has_origin(b.origins(p.args[0]), "upvar", "segment_ids") or has_origin(b.origins(p.args[0]), "call", name_re=r"RwLock.*::write")]
        if not segpush:
            raise AnchorMissing("push into segment_ids")
        cont = calls(b, r"contains$", 1)
        cut = [(p.bb, p.to) for p in segpush]
        for c_ in cont:
            for e_ in bool_result_edge(b, c_, True):
                cut.append(e_)
        bad += must_cross(b, cl.bb, cut_edges=cut, key="cleanup-before-publish", detail="cleanup_up_to reachable before the segment id is in segment_ids")
        # argument: segment_id + 1 where segment_id is the task's captured id
        L = b.origins(cl.args[1])
        inst.detail = "keep_from arg origin: %s" % fmt_leaves(L)
        return bad
    ctx.run("C01.e", "K1 DOM", "flush task", "WAL pruning only after flush Ok, verification and publication", e)

    # ------------------------------------------------------------------ f
    def f(inst):
        b = F.fn("WalCleaner::cleanup_up_to")
        rm = one(b, r"fs::remove_file$")
        inst.sites = [sp(b, rm.bb)]

        def acc(op, A, B, truth):
            a_id = has_origin(A, "call", name_re=r"parse") or has_origin(A, None, proj_contains=["@Ok"])
            b_keep = has_origin(B, "param", "keep_from_log_id")
            a_keep = has_origin(A, "param", "keep_from_log_id")
            b_id = has_origin(B, "call", name_re=r"parse") or has_origin(B, None, proj_contains=["@Ok"])
            if a_id and b_keep:
                return (op == "Lt" and truth) or (op == "Ge" and not truth)
            if a_keep and b_id:
                return (op == "Gt" and truth) or (op == "Le" and not truth)
            return False
        g = cmp_guard(b, rm.bb, acc)
        if not g:
            return [("guard", "remove_file is not guarded by `id < keep_from_log_id`", None)]
        inst.detail = "guard: %s" % g
        return []
    ctx.run("C01.f", "K8 GUARD", "WalCleaner::cleanup_up_to", "delete only log ids strictly below the keep-from id", f)

    # ------------------------------------------------------------------ g
    def g(inst):
        b = F.fn("SegmentIndex::save")
        cr = one(b, r"fs::File::create$")
        rn = one(b, r"fs::rename$")
        fl = one(b, r"Write>::flush$|Write::flush$")
        sy = calls(b, r"fs::File::sync_all$", 1)
        inst.sites = [sp(b, cr.bb), sp(b, fl.bb)] + [sp(b, s.bb) for s in sy] + [sp(b, rn.bb)]
        bad = []
        Lc = b.origins(cr.args[0])
        # the final path: the join with the constant file name of the index; the temporary path: whatever File::create opens
        joins = [c for c in b.calls if not c.cleanup and c.nname.endswith("Path::join")]
        finals = [c for c in joins if any(x == "segments.idx" for x in str_consts(b, c.args[1], depth=2))]
        if len(finals) != 1:
            raise AnchorMissing("the join that builds <shard>/segments.idx in SegmentIndex::save (%d)" % len(finals))
        final_join = finals[0]
        cr_locals = b._origin_locals(cr.args[0])
        tmp_local = {l for l in cr_locals if l != final_join.dest[0]}
        derived_from_final = final_join.dest[0] in cr_locals
        mutated = any(c.nname.endswith(("PathBuf::set_extension", "PathBuf::set_file_name", "PathBuf::push")) and (b._origin_locals(c.args[0]) & cr_locals) for c in b.calls if not c.cleanup)
        if derived_from_final and not mutated:
            bad.append(("create-final", "File::create opens the final index path directly", None))
        rn_src = b._origin_locals(rn.args[0])
        rn_dst = b._origin_locals(rn.args[1])
        if not (rn_src & cr_locals) or final_join.dest[0] not in rn_dst or (final_join.dest[0] in rn_src and not mutated):
            bad.append(("rename-args", "rename is not (tmp -> final)", None))
        # order: create -> flush(?) -> sync_all(?) -> rename
        def okedge(c):
            es = [e for (e, v) in ok_edges(b, c) if v == "Continue"]
            if not es:
                raise AnchorMissing("result of %s is not propagated with ?" % c.name)
            return es
        writer_sync = [s for s in sy if b.can_reach(fl.bb, s.bb) and b.can_reach(s.bb, rn.bb)]
        if not writer_sync:
            bad.append(("no-sync-before-rename", "no sync_all between flush and rename", None))
        else:
            s0 = writer_sync[0]
            if not any(b.dominates_edge(e_, rn.bb) for e_ in okedge(s0)):
                bad.append(("sync-not-dominating", "rename not dominated by successful sync_all", None))
            if not any(b.dominates_edge(e_, s0.bb) for e_ in okedge(fl)):
                bad.append(("flush-not-dominating", "sync_all not dominated by successful flush", None))
            # no write to the file between sync and rename
            wr = b.find_calls(r"serialize_into$|write_to$|write_all$|Write>::write$")
            for w in wr:
                if b.can_reach(s0.bb, w.bb) and b.can_reach(w.bb, rn.bb):
                    bad.append(("write-after-sync", "%s writes after sync_all and before rename" % w.name, None))
            for w in wr:
                if not any(b.dominates_edge(e_, rn.bb) for e_ in okedge(w)):
                    bad.append(("write-unchecked:%s" % w.nname.split("::")[-1], "rename not dominated by success of %s" % w.name, None))
        # single writer of "segments.idx": fs-mutating calls whose path argument is built from exactly that constant
        cg = CallGraph(F)
        writers = set()
        MUT = r"(fs::File::create|fs::rename|fs::write|fs::OpenOptions::open|fs::remove_file|fs::copy|fs::File::create_new)$"
        nmut = 0
        for k in cg.nodes:
            if not any(re.search(MUT, norm_path(t)) for t in cg.edges[k]):
                continue
            body = F.fn_exact(k)
            for c in body.find_calls(MUT):
                nmut += 1
                for a in c.args:
                    if "segments.idx" in str_consts(body, a):
                        writers.add(k.split("::{closure")[0])
        inst.sites.append("fs-mutating call sites scanned: %d; bodies writing a path named segments.idx: %s" % (nmut, sorted(writers)))
        for w in writers:
            if w != "engine::core::segment::segment_index::SegmentIndex::save":
                bad.append(("second-writer:%s" % norm_path(w), "%s also writes segments.idx" % w, None))
        if "engine::core::segment::segment_index::SegmentIndex::save" not in writers:
            raise AnchorMissing("save no longer names segments.idx")
        return bad
    ctx.run("C01.g", "K1 DOM + K4", "SegmentIndex::save", "index replaced atomically: tmp create, flush, sync, rename; single writer", g)

    # ------------------------------------------------------------------ h
    def h(inst):
        b = F.fn("Flusher::flush")
        add = one(b, r"SegmentIndexBuilder::add_segment_entry$")
        w = one(b, r"Flusher::flush_one_type_inner$")
        inst.sites = [sp(b, w.bb), sp(b, add.bb)]
        bad = []
        # every Break (error) of the per-type write returns; so add is reachable from w only via Continue
        es = [e for (e, v) in ok_edges(b, w) if v == "Continue"]
        if not es:
            return [("write-unchecked", "flush_one_type_inner result is not propagated with ?", None)]
        # after the write call completes, reaching add must cross a Continue edge
        de = done_edge(b, w)
        seen = b.reach(0, src_edges=[de], cut_edges=es)
        if add.bb in seen:
            bad.append(("index-after-failed-write", "segment index entry can be added after a failed zone write", witness_path(b, seen, add.bb)))
        # every non-empty event type of the memtable is written: the only permitted skip is `events.is_empty()`
        nxs = [c_ for c_ in for_headers(b) if b.can_reach(c_.bb, w.bb) and b.can_reach(w.bb, c_.bb)]
        if not nxs:
            raise AnchorMissing("loop over event types around flush_one_type_inner")
        emp = [c_ for c_ in b.find_calls(r"Vec::is_empty$") if b.can_reach(nxs[0].bb, c_.bb) and b.can_reach(c_.bb, nxs[0].bb)]
        allowed = [e_ for c_ in emp for e_ in bool_result_edge(b, c_, True)]
        wpath = skipped_iteration(b, nxs[0], [w.bb], allowed)
        if wpath:
            bad.append(("event-type-not-flushed", "an event type with events can be skipped by the flush loop while the memtable is discarded", wpath))
        wi = F.fn("Flusher::flush_one_type_inner")
        wa = one(wi, r"ZoneWriter::write_all$")
        es2 = [e for (e, v) in ok_edges(wi, wa) if v == "Continue"]
        if not es2:
            bad.append(("write_all-unchecked", "ZoneWriter::write_all result is dropped in flush_one_type_inner", None))
        else:
            de2 = done_edge(wi, wa)
            for x in wi.exits():
                seen = wi.reach(0, src_edges=[de2], cut_edges=es2)
                # Ok-return after failed write_all?
                okagg = [bb for (bb, j, v, _) in wi.aggregates("result::Result", "Ok")]
                for ob in okagg:
                    if ob in seen:
                        bad.append(("ok-after-failed-write_all", "flush_one_type_inner can return Ok after write_all failed", None))
                break
        return bad
    ctx.run("C01.h", "K1 DOM", "Flusher::flush", "segment is entered into the index only after every zone write succeeded", h)

    # ------------------------------------------------------------------ i
    def i_(inst):
        bad = []
        ks = [k for k in F.find(r"^frontend::start_all") if True]
        if not ks:
            raise AnchorMissing("frontend::start_all")
        found = False
        for k in ks:
            b = F.fn_exact(k)
            fa = b.find_calls(r"ShardManager::flush_all$")
            sa = b.find_calls(r"ShardManager::shutdown_all$")
            if not sa:
                continue
            found = True
            inst.sites += [sp(b, c.bb) for c in fa + sa]
            for s in sa:
                if not any(b.dominates_edge(done_edge(b, f_), s.bb) for f_ in fa):
                    bad.append(("shutdown-without-flush", "shutdown_all not dominated by a completed flush_all in %s" % k, None))
        if not found:
            raise AnchorMissing("shutdown_all call in frontend::start_all")
        b = F.fn("worker::on_shutdown")
        sh = one(b, r"WalHandle::shutdown$")
        if not is_awaited(b, sh):
            bad.append(("wal-shutdown-not-awaited", "on_shutdown does not await wal.shutdown()", None))
        else:
            de = done_edge(b, sh)
            wal = enum_switches_on(b, lambda L: has_origin(L, None, proj_contains=[".wal"]), r"option::Option")
            cut = [de] + [(i, t) for i, si in wal for t in edges_for_variant(si, "None")]
            for x in b.exits():
                bad += must_cross(b, x, cut_edges=cut, key="return-before-wal-shutdown", detail="on_shutdown returns before the WAL writer was shut down")
        inst.sites.append(sp(b, sh.bb))
        return bad
    ctx.run("C01.i", "K1 DOM", "frontend::start_all / worker::on_shutdown", "graceful shutdown flushes before stopping shards and drains the WAL", i_)

    # ------------------------------------------------------------------ l
    def l_(inst):
        b = F.fn("SegmentIdLoader::load")
        fam = [b] + [F.fn_exact(kk) for kk in F.find("^" + re.escape(b.key) + r"::\{closure")]
        push = [p for p in b.find_calls(r"Vec::push$")]
        if not push:
            raise AnchorMissing("ids.push in SegmentIdLoader::load")
        bad = []
        digits = any(bb_.find_calls(r"char::(methods::)?is_ascii_digit$|is_ascii_digit$|is_numeric$") for bb_ in fam)
        if not digits:
            bad.append(("no-digits-test", "SegmentIdLoader::load no longer recognises segment directories by an all-digits test", None))
        for bb_ in fam:
            lens = {c.dest[0] for c in bb_.calls if not c.cleanup and re.search(r"str::len$|String::len$|OsStr::len$", c.nname) and c.dest}
            for blk in bb_.live_blocks():
                for st in bb_.blocks[blk]["s"]:
                    v = st.get("v")
                    if v and v["r"] == "bin" and v["op"] in ("Eq", "Ne", "Lt", "Le", "Gt", "Ge"):
                        la = bb_._origin_locals(v["a"]) & lens
                        lb = bb_._origin_locals(v["b"]) & lens
                        if la or lb:
                            bad.append(("name-length-guard:%s" % v["op"], "SegmentIdLoader::load filters directory names by length (%s): SegmentId::dir_name only pads to a minimum width, deeper-level segments have longer names and would vanish after restart" % v["op"], None))
        dn = F.fn("SegmentId::dir_name")
        inst.sites = [sp(b, push[0].bb), "digits test: %s" % digits]
        # after listing, the list is sorted and handed to the allocator / live list
        return bad
    ctx.run("C01.l", "K11 SIB", "SegmentIdLoader::load vs SegmentId::dir_name", "every segment directory the writer can create is listed again after restart", l_)

    # ------------------------------------------------------------------ k
    def k(inst):
        bad = []
        # (i) one capacity expression at the three sites
        sites = {"memtable capacity": F.fn("ShardContext::new"), "start-up roll-over": F.fn("InnerWalWriter::find_next_wal_id")}
        rot = [kk for kk in F.find(r"^engine::core::wal::wal_handle::WalHandle::spawn_wal_thread") if F.fn_exact(kk).find_calls(r"InnerWalWriter::rotate_log_file$")]
        if len(rot) != 1:
            raise AnchorMissing("WAL writer loop calling rotate_log_file (%d)" % len(rot))
        sites["WAL rotation"] = F.fn_exact(rot[0])
        for nm, b in sites.items():
            cp = _capacity_products(b)
            inst.sites.append("%s: fill_factor*event_per_zone at %d site(s)" % (nm, len(cp)))
            if not cp:
                bad.append(("capacity-expression:%s" % nm, "%s no longer uses CONFIG.engine.fill_factor * event_per_zone: memtable flush and WAL rotation fall out of step" % nm, None))
        wb = sites["WAL rotation"]
        rc = one(wb, r"InnerWalWriter::rotate_log_file$")
        caps = {l for _, l in _capacity_products(wb)}

        def acc(op, A, B, truth):
            ea = has_origin(A, None, proj_contains=[".entries_written"])
            cb = any(l[0] == "binop" and l[1].startswith("Mul") for l in B)
            return ea and cb and ((op == "Ge" and truth) or (op == "Lt" and not truth))
        if not cmp_guard(wb, rc.bb, acc):
            bad.append(("rotation-guard", "the WAL does not rotate exactly under entries_written >= fill_factor*event_per_zone", None))
        # (ii) writers of entries_written
        n = 0
        for key in F.find(r"^engine::core::wal::(inner_wal_writer|wal_handle)::"):
            if "__CALLSITE" in key:
                continue
            b = F.fn_exact(key)
            for blk in b.live_blocks():
                for st in b.blocks[blk]["s"]:
                    if "a" in st and ".entries_written" in st["a"][1:]:
                        n += 1
                        L = b.origins(st["v"]["o"]) if st["v"]["r"] == "use" else {(st["v"]["r"],)}
                        ok = all((l[0] == "binop" and l[1].startswith("Add")) or (l[0] == "call" and norm_path(l[1]).endswith("count_entries")) for l in L)
                        if not ok:
                            bad.append(("entries-written-source:%s" % norm_path(key), "%s sets entries_written from %s (must be count_entries(dir) or += 1)" % (key, fmt_leaves(L) if st["v"]["r"] == "use" else st["v"]["r"]), None))
                t = b.blocks[blk]["t"]
                if t["t"] == "call" and t.get("dest") and ".entries_written" in t["dest"][1:]:
                    n += 1
                    nm = norm_path(t["f"].get("p") or t["f"].get("u") or "")
                    if not nm.endswith("count_entries"):
                        bad.append(("entries-written-source:%s" % norm_path(key), "%s sets entries_written from %s" % (key, nm), None))
            for (bb_, j_, v_, _d) in b.aggregates("InnerWalWriter"):
                n += 1
                L = b.origins(v_["o"][v_["fields"].index("entries_written")])
                if not all(l[0] == "call" and norm_path(l[1]).endswith("count_entries") for l in L):
                    bad.append(("entries-written-init", "InnerWalWriter is constructed with entries_written from %s" % fmt_leaves(L), None))
        inst.sites.append("writers of entries_written examined: %d" % n)
        if n < 3:
            raise AnchorMissing("writers of entries_written: %d" % n)
        return bad
    ctx.run("C01.k", "K11 SIB + K7", "WAL rotation counter", "the WAL rotates in step with the memtable: same capacity, counter restored from the reopened log", k)

    # ------------------------------------------------------------------ j
    def j(inst):
        cg = CallGraph(F)
        bad = []
        sites = []
        for k in cg.nodes:
            if "engine::core::segment::range_allocator::RangeAllocator::next_for_level" not in cg.edges[k]:
                continue
            body = F.fn_exact(k)
            if not body.find_calls(r"FlushManager::queue_for_flush$"):
                continue
            for c in body.find_calls(r"RangeAllocator::next_for_level$"):
                if (c.args[1].get("k") or "").startswith("0"):
                    sites.append((k, body, c))
        if len(sites) < 2:
            raise AnchorMissing("expected >=2 L0 rotation sites, found %d" % len(sites))
        for k, body, c in sites:
            inst.sites.append(sp(body, c.bb))
            full = body.find_calls(r"MemTable::is_full$")
            ok = False
            for fcall in full:
                for e_ in bool_result_edge(body, fcall, True):
                    if body.dominates_edge(e_, c.bb):
                        ok = True
            if not ok:
                bad.append(("rotation-without-full:%s" % norm_path(k.split("::{closure")[0]),
                            "%s allocates an L0 segment id (later used as WAL keep-from id) without the memtable being full: the WAL has not rotated" % k, None))
        return bad
    ctx.run("C01.j", "K11 SIB", "L0 rotation sites", "segment-id / WAL-log-id lockstep: L0 ids advance only when the memtable (and hence the WAL) rotates", j)

    # ------------------------------------------------------------------ m
    def m(inst):
        """The WAL pruning bound is computed from a SEGMENT id (cleanup_up_to(segment_id + 1)) and compared with WAL LOG ids. That coupling is only
        sound while both sequences advance together (C01.j, C01.k) AND start together: at start-up each must be seeded with knowledge of the other."""
        ft = F.fn_exact("engine::core::write::flush_worker::FlushWorker::run::{closure#0}::{closure#0}")
        cl = one(ft, r"WalCleaner::cleanup_up_to$")
        L = ft.origins(cl.args[1])
        # coupled: the bound is `x + 1` where x is the very value handed to Flusher::new as the segment id of this flush
        fn_ = one(ft, r"Flusher::new$")
        seg_leaves = set()
        for a_ in fn_.args:
            seg_leaves |= {l for l in ft.origins(a_) if l[0] in ("upvar", "param")}
        coupled, seg_named = False, False
        for l in L:
            if l[0] == "binop" and l[1].startswith("Add"):
                coupled = True
                for st in ft.blocks[l[2]]["s"]:
                    v = st.get("v")
                    if v and v.get("r") == "bin" and v.get("op", "").startswith("Add"):
                        ops = ft.origins(v["a"]) | ft.origins(v["b"])
                        if {x for x in ops if x[0] in ("upvar", "param")} & seg_leaves:
                            seg_named = True
        if not (coupled and seg_named):
            inst.sites.append("pruning bound no longer derives from the flushed segment's id: the id spaces are decoupled, seeds need not agree")
            return []
        bad = []
        b = F.fn("ShardContext::new")
        wh = one(b, r"WalHandle::new$")
        ld = one(b, r"SegmentIdLoader::load$")
        al = one(b, r"RangeAllocator::from_existing_ids$")
        inst.sites += [sp(b, wh.bb), sp(b, ld.bb), sp(b, al.bb)]
        seg_locals = set()
        for c_ in (ld, al):
            seg_locals.add(c_.dest[0])
        # (1) does the WAL's first log id know about the segment ids?  (any argument of the WAL constructor / a later call on the WAL handle derived from the loader / allocator)
        wal_args = set()
        for c_ in b.calls:
            if c_.cleanup or not re.search(r"wal::wal_handle::WalHandle::|wal::inner_wal_writer::", c_.nname):
                continue
            for a_ in c_.args:
                wal_args |= wide_all(b, a_)
        fl = set()
        for x in seg_locals:
            fl |= {l for l, _ in b.flow_forward([x])}
        if not (wal_args & (fl | seg_locals)):
            bad.append(("wal-seed-ignores-segments", "ShardContext::new starts the WAL numbering from the WAL directory alone (WalHandle::new gets nothing derived from the segment ids): after a clean shutdown pruned every log, numbering restarts at 0 below the next L0 id and cleanup_up_to(segment_id + 1) unlinks the log the writer has just rotated to", None))
        # (2) does the L0 seed know about the WAL position?
        wal_locals = {wh.dest[0]}
        al_in = wide_all(b, al.args[0]) if al.args else set()
        wl = set()
        for x in wal_locals:
            wl |= {l for l, _ in b.flow_forward([x])}
        reads_wal_dir = any(re.search(r"wal", (b.local_name(x) or "")) for x in al_in)
        if not (al_in & (wl | wal_locals)) and not reads_wal_dir:
            bad.append(("l0-seed-ignores-wal", "ShardContext::new seeds the L0 allocator from the surviving segment directory names alone: once compaction has removed every L0 directory the next L0 id falls back below the WAL position, cleanup_up_to(segment_id + 1) never reaches the live logs and every restart replays (and aggregates count) their events again", None))
        # (3) the L0 seed counts directories, not published segments
        lb = F.fn("SegmentIdLoader::load")
        fam = [lb] + [F.fn_exact(x) for x in F.find("^" + re.escape(lb.key) + r"::\{closure")]
        lists_dir = any(c_.nname.endswith("fs::read_dir") for B in fam for c_ in B.calls if not c_.cleanup)
        consults_index = any(re.search(r"SegmentIndex::|segment_index::", c_.nname) for B in fam for c_ in B.calls if not c_.cleanup)
        if lists_dir and not consults_index:
            # is the list intersected with segments.idx before it seeds the allocator?
            consult_ctx = any(re.search(r"SegmentIndex::(load|open|read)", c_.nname) and (set(c_.dest) & al_in or c_.dest[0] in al_in) for c_ in b.calls if not c_.cleanup and c_.dest)
            if not consult_ctx:
                bad.append(("l0-seed-counts-unindexed-dirs", "SegmentIdLoader::load takes every numeric directory as a live segment without consulting segments.idx: the directory of a flush that crashed before publication shifts the next L0 id above the WAL position and the re-flush's cleanup unlinks the active log", None))
        return bad
    ctx.run("C01.m", "K11 SIB + K10 READS", "id lockstep at start-up (ShardContext::new)", "segment ids and WAL log ids start in step: each seed takes the other sequence into account", m)

    def n_(inst):
        # writer/reader agreement of the derived serde impls: a field the reader insists on (missing_field)
        # is written on every successful path of the writer (no skip_serializing_if without a default)
        SER = re.compile(r"^(.*)::_::<impl .*_serde::Serialize for (.+)>::serialize$")
        sers = {}
        for k in F.keys():
            m_ = SER.match(k)
            if m_:
                sers[m_.group(2)] = k
        WAL = "engine::core::wal::wal_entry::WalEntry"
        if WAL not in sers:
            raise AnchorMissing("derived Serialize of WalEntry")
        bad, n = [], 0
        for ty, sk in sorted(sers.items()):
            vm = [k for k in F.keys() if k.startswith("<") and "Deserialize<'de> for %s>::deserialize::__Visitor<'de> as" % ty in k and k.endswith("::visit_map")]
            if not vm:
                if ty == WAL:
                    raise AnchorMissing("derived Deserialize (visit_map) of WalEntry")
                continue
            vb, sb = F.fn_exact(vm[0]), F.fn_exact(sk)
            required = set()
            for c in vb.find_calls(r"de::missing_field$"):
                required |= str_consts(vb, c.args[0], 0)
            ends = sb.find_calls(r"ser::SerializeStruct::end$")
            if not ends or not required:
                if ty == WAL:
                    raise AnchorMissing("required fields / SerializeStruct::end of WalEntry")
                continue
            n += 1
            written = {}
            for c in sb.find_calls(r"ser::SerializeStruct::serialize_field$"):
                for nm in str_consts(sb, c.args[1], 0):
                    written.setdefault(nm, []).append(c)
            for f in sorted(required):
                cs = written.get(f, [])
                if not cs:
                    # renamed fields are not matched by name: only report what is provably skipped
                    continue
                if all(re.search(r"serialize_field::<(std|core)::option::Option<", c.ga or "") for c in cs):
                    continue    # serde reads a missing Option field as None
                for e in ends:
                    if not any(sb.dominates(c.bb, e.bb) for c in cs):
                        bad.append(("field-skipped:%s.%s" % (ty.split("::")[-1], f), "%s.%s can be left out by the writer (skip_serializing_if) while the reader fails with `missing field` without it: %s" % (ty.split("::")[-1], f, "a WAL line written without it is dropped at recovery" if ty == WAL else "such a record cannot be read back"), sp(sb, cs[0].bb)))
        inst.sites = ["%d serde struct pairs (Serialize + Deserialize::visit_map) compared" % n]
        if n < 10:
            raise AnchorMissing("serde struct pairs: %d" % n)
        return bad
    ctx.run("C01.n", "K11 SIB + K1", "derived serde writer / reader pairs (WalEntry and every persisted struct)", "a field the reader requires is written on every successful path of the writer", n_)


def _capacity_products(body):
    """Mul statements whose operands are CONFIG.engine.fill_factor and CONFIG.engine.event_per_zone"""
    out = []
    for blk in body.live_blocks():
        for st in body.blocks[blk]["s"]:
            v = st.get("v")
            if v and v["r"] == "bin" and v["op"].startswith("Mul"):
                A, B = body.origins(v["a"]), body.origins(v["b"])
                fa = has_origin(A, "static", name_re=r"CONFIG$", proj_contains=[".engine", ".fill_factor"]) or has_origin(B, "static", name_re=r"CONFIG$", proj_contains=[".engine", ".fill_factor"])
                ez = has_origin(A, "static", name_re=r"CONFIG$", proj_contains=[".engine", ".event_per_zone"]) or has_origin(B, "static", name_re=r"CONFIG$", proj_contains=[".engine", ".event_per_zone"])
                if fa and ez:
                    out.append((blk, st["a"][0]))
    return out


def _ops(v):
    r = v["r"]
    if r in ("use", "cast", "un", "repeat"):
        return [v["o"]]
    if r == "bin":
        return [v["a"], v["b"]]
    if r == "agg":
        return v["o"]
    return []
