"""C02 — a query returns exactly the matching events: structural clauses."""
from .util import *
import json
from ..callgraph import CallGraph

EXPLANATION = """
Decides structural clauses necessary for C02; does not decide that answers are equal across storage layouts (value level).
a) row-level re-evaluation is unavoidable: memtable sources emit a row only on the true edge of ConditionEvaluator::evaluate_event; the segment stream emits only events returned by
   evaluate_zones_with_limit; inside evaluate_zones_with_limit a row is pushed only under its mask bit, the mask is cleared by every condition; all four sites build the evaluator with build_from_plan.
b) fallback discipline: in FieldSelector::select_for_segment, on the `None` (cannot decide) edge of every pruner call the function returns a superset (collect_zones_for_scope / create_all_zones…), never an empty set.
c) set-combinator polarity: candidate sets are may-sets; NOT of a leaf filter must not return the complement of the leaf's may-set.
d) ZoneStepRunner::run scans segment_ids plus the in-flight snapshot; a step list narrower than that is used only under the allow_prune guard or an explicit subset.
e) operator tables: add_where_clause maps Expr::{And,Or,Not} to LogicalOp::{And,Or,Not}; collect_zones_from_group maps And->And, Or->Or; handle_not follows De Morgan.
f) candidate-zone identity: zone ids restart at 0 for every event type inside a segment, so every place that de-duplicates or intersects candidate zones keys them by (zone id, segment id, uid):
   CandidateZone::uniq, ZoneHydrator::hydrate and ZoneCombiner::combine all read CandidateZone::uid for their key.
g) hydration completeness: ZoneHydrator groups zones for loading by `zone.uid()` falling back to the plan's own event-type uid, so zones produced by index pruners (no uid) are still hydrated when
   they are combined with uid-tagged zones of all-zones fallbacks.
Not decided: that each leaf strategy's zone set is a superset for all values (C08), literal typing, ZoneCombiner's set algebra bodies.
h) the three dense-buffer accessors of the row filter (PreparedAccessor::get_{i64,u64,f64}_buffer_with_validity) agree on what "this column is not of my kind" looks like: each returns Some only
   on an edge where at least one entry was valid - an all-invalid buffer returned as Some stops evaluate_numeric_simd from trying the next kind, and every row of e.g. a float column fails an integer literal.
i) every comparison leaf of WHERE becomes a row condition: in ConditionEvaluatorBuilder::add_where_clause no path through the Compare arm returns without add_numeric_condition / add_string_condition /
   add_logical_condition (a literal kind the chain does not recognise - today: a fractional number - silently filters nothing, and `WHERE x > 1.7` returns every row).
j) the event-at-a-time evaluation of a numeric condition (memtable rows) reads the field through the same kinds as the columnar one (i64, u64, f64): NumericCondition::evaluate_event_direct and
   evaluate_at are siblings; a kind only one of them reads gives different answers before and after FLUSH.
"""
FLOOR = 19
REQUIRED = ["C02.a1", "C02.a2", "C02.a3", "C02.a4", "C02.b", "C02.c", "C02.d", "C02.e1", "C02.e2", "C02.f", "C02.g", "C02.h", "C02.i", "C02.j", "C02.k", "C02.l", "C02.m", "C02.n", "C02.o"]

SUPERSET = r"(collect_zones_for_scope|create_all_zones_for_segment_from_meta(_cached)?)$"


def run(ctx):
    F = ctx.F

    def mem_loop(name):
        def f(inst):
            b = F.fn(name)
            ev = one(b, r"ConditionEvaluator::evaluate_event$")
            pushes = calls(b, r"(ColumnBatchBuilder::push_row|Vec::push)$", 1)
            te = bool_result_edge(b, ev, True)
            inst.sites = [sp(b, ev.bb)] + [sp(b, p.bb) for p in pushes]
            bad = []
            for p in pushes:
                if not any(b.dominates_edge(e, p.bb) for e in te):
                    bad.append(("emit-without-eval:%s" % p.nname.split("::")[-1], "%s emits a row (%s) that did not pass evaluate_event" % (name, p.name), None))
            # the evaluated event is the iterated one and the emitted values come from it
            gf = calls(b, r"Event::get_field_scalar$", 1)
            evl = b._origin_locals(ev.args[1])
            for g in gf:
                if not (b._origin_locals(g.args[0]) & evl):
                    bad.append(("emit-other-event", "%s reads fields from a different event than the one evaluated" % name, None))
            return bad
        return f
    ctx.run("C02.a1", "K1 DOM", "MemTableSource::push_rows_from_memtable", "memtable rows are emitted only after evaluate_event == true", mem_loop("MemTableSource::push_rows_from_memtable"))
    ctx.run("C02.a2", "K1 DOM", "MemTableSource::collect_rows_from_memtable", "memtable rows are collected only after evaluate_event == true", mem_loop("MemTableSource::collect_rows_from_memtable"))

    def a3(inst):
        bad = []
        b = F.fn("SegmentQueryRunner::stream_into")
        evs = calls(b, r"ConditionEvaluator::evaluate_zones_with_limit$", 1)
        gf = calls(b, r"Event::get_field_scalar$", 1)
        inst.sites = [sp(b, c.bb) for c in evs + gf]
        for g in gf:
            L = b.origins(g.args[0], transparent=NEXT_TRANSPARENT)
            if not all(l[0] == "call" and norm_path(l[1]).endswith("evaluate_zones_with_limit") for l in L):
                bad.append(("emit-unevaluated", "segment stream reads a row that is not a result of evaluate_zones_with_limit (%s)" % fmt_leaves(L), None))
        # evaluator provenance at every consumer
        for nm, pat in (("SegmentQueryRunner::stream_into", r"evaluate_zones_with_limit$"), ("SegmentQueryRunner::evaluate_zones", r"evaluate_zones_with_limit$"),
                        ("MemTableQuery::query", r"evaluate_event$")):
            bb_ = F.fn(nm)
            for c in calls(bb_, pat, 1):
                L = bb_.origins(c.args[0])
                if not all(l[0] == "call" and norm_path(l[1]).endswith("ConditionEvaluatorBuilder::build_from_plan") for l in L):
                    bad.append(("evaluator-origin:%s" % nm, "%s uses an evaluator not built by build_from_plan (%s)" % (nm, fmt_leaves(L)), None))
        ms = F.method("MemTableSource", "FlowSource", "run")
        bp = one(ms, r"ConditionEvaluatorBuilder::build_from_plan$")
        for c in calls(ms, r"MemTableSource::(push_rows_from_memtable|collect_rows_from_memtable)$", 2):
            L = set()
            for a in c.args:
                L |= {l for l in ms.origins(a) if l[0] == "call" and norm_path(l[1]).endswith("build_from_plan")}
            if not L:
                bad.append(("evaluator-origin:MemTableSource::run", "memtable source passes an evaluator not built from the plan", None))
        # MemTableQuery::query: push only after evaluate_event
        mq = F.fn("MemTableQuery::query")
        ev = one(mq, r"ConditionEvaluator::evaluate_event$")
        te = bool_result_edge(mq, ev, True)
        for p in calls(mq, r"Vec::push$", 1):
            if not any(mq.dominates_edge(e, p.bb) for e in te):
                bad.append(("memtable_query-emit", "MemTableQuery::query pushes an event without evaluating it", None))
        return bad
    ctx.run("C02.a3", "K7 PROV", "SegmentQueryRunner::stream_into & evaluator construction", "segment rows come from evaluate_zones_with_limit; evaluators are built from the plan", a3)

    def a4(inst):
        b = F.fn("ConditionEvaluator::evaluate_zones_with_limit")
        bad = []
        push = [p for p in calls(b, r"Vec::push$", 1) if any("Event" in (b.local_ty(l)) for l in b._origin_locals(p.args[1]) )]
        res_push = [p for p in push if has_origin(b.origins(p.args[0]), None) and "Event" in b.local_ty((p.args[1].get("m") or p.args[1].get("c"))[0])]
        if not res_push:
            raise AnchorMissing("results.push(event)")
        # mask test: bool switch whose operand comes from Index::index on the mask vector
        msw = bool_switches_on(b, lambda L: any(l[0] == "call" and norm_path(l[1]).endswith("Index>::index") for l in L))
        mask_true = []
        for i, si in msw:
            c = None
            for l in b.origins(si["op"]):
                if l[0] == "call":
                    c = b.call_at(l[2])
            if c is None:
                continue
            vl = b._origin_locals(c.args[0])
            if any(b.local_ty(x).startswith("std::vec::Vec<bool") for x in vl):
                mask_true.append((i, si["true"]))
        if not mask_true:
            raise AnchorMissing("mask[i] test")
        inst.sites = [sp(b, p.bb) for p in res_push] + [sp(b, i) for i, _ in mask_true]
        for p in res_push:
            if not any(b.dominates_edge(e, p.bb) for e in mask_true):
                bad.append(("push-ignores-mask", "a row is pushed to the result without its mask bit being tested", None))
        # every condition contributes to the mask: both evaluation calls present, receiver from self.conditions
        ea = calls(b, r"Condition::evaluate_at$", 1)
        sim = calls(b, r"ConditionEvaluator::evaluate_numeric_simd$", 1)
        for c in ea:
            L = b.origins(c.args[0], transparent=NEXT_TRANSPARENT)
            if not has_origin(L, "param", "self", proj_contains=[".conditions"]):
                bad.append(("evaluate_at-receiver", "evaluate_at receiver is not an element of self.conditions (%s)" % fmt_leaves(L), None))
        # the false result of evaluate_at clears the bit: an assignment `mask[i] = false` dominated by its false edge
        for c in ea:
            fe = bool_result_edge(b, c, False)
            cleared = False
            for blk in range(b.n):
                for s in b.blocks[blk]["s"]:
                    if "a" in s and s["v"]["r"] == "use" and s["v"]["o"].get("k") == "false" and len(s["a"]) > 1:
                        if any(b.dominates_edge(e, blk) for e in fe):
                            cleared = True
            if not cleared:
                bad.append(("mask-not-cleared", "a failed evaluate_at does not clear the row's mask bit", None))
        return bad
    ctx.run("C02.a4", "K1 DOM", "ConditionEvaluator::evaluate_zones_with_limit", "a hydrated row is returned only if every condition left its mask bit set", a4)

    # ------------------------------------------------------------------ b
    def b_(inst):
        b = F.method("FieldSelector", "ZoneSelector", "select_for_segment")
        pr = [c for c in b.find_calls(r"Pruner::(apply|apply_[a-z_]+|attempt)$") if "MaterializationPruner" not in c.nname]
        if len(pr) < 5:
            raise AnchorMissing("expected >=5 pruner calls in select_for_segment, found %d" % len(pr))
        prov = [c.bb for c in b.find_calls(SUPERSET)]
        if not prov:
            raise AnchorMissing("no superset provider call in select_for_segment")
        bad = []
        for c in pr:
            inst.sites.append("%s %s" % (sp(b, c.bb), c.nname.split("::")[-2] + "::" + c.nname.split("::")[-1]))
            ne = variant_edge(b, c, "None")
            for x in b.exits():
                seen = b.reach(0, src_edges=ne, cut_blocks=prov)
                if x in seen:
                    bad.append(("none-empty:%s" % "::".join(c.nname.split("::")[-2:]),
                                "pruner %s answering None (cannot decide) leads to a return without a full-scan fallback: rows in that segment are skipped" % c.nname,
                                witness_path(b, seen, x)))
                    break
        return bad
    ctx.run("C02.b", "K6+K7", "FieldSelector::select_for_segment", "None from a pruner falls back to a superset of zones", b_)

    # ------------------------------------------------------------------ c
    def c_(inst):
        b = F.fn("ZoneGroupCollector::handle_not")
        sw = param_enum_switches(b, r"FilterGroup$", "child")
        if not sw:
            raise AnchorMissing("match on child in handle_not")
        i, si = sw[0]
        a = arms(b, i)
        bad = []
        comp = calls_in(b, a.get("Filter", set()), r"compute_complement$")
        allz = calls_in(b, a.get("Filter", set()), r"get_all_zones_for_segments$")
        inst.sites = [sp(b, c.bb) for c in comp + allz]
        if comp:
            bad.append(("not-leaf-complement", "NOT(filter) returns the complement of the filter's may-set: a zone holding both matching and non-matching rows is dropped", None))
        elif not allz:
            raise AnchorMissing("NOT(filter) arm neither complements nor returns all zones")
        return bad
    ctx.run("C02.c", "K6 TABLE", "ZoneGroupCollector::handle_not", "complement is never applied to a may-set", c_)

    # ------------------------------------------------------------------ d
    def d_(inst):
        b = F.fn("ZoneStepRunner::run")
        snap = one(b, r"InflightSegments::snapshot$")
        step = one(b, r"ExecutionStep::get_candidate_zones_with_segments$")
        inst.sites = [sp(b, snap.bb), sp(b, step.bb)]
        bad = []
        # segments argument origins: full_segments.clone(), subset, pruned.clone().unwrap_or_else
        L = b.origins(step.args[2])
        srcs = set()
        for l in L:
            srcs.add(l[0] + ":" + (norm_path(l[1]) if isinstance(l[1], str) else str(l[1])))
        inst.detail = "segments origins: %s" % fmt_leaves(L)
        # full_segments is built from plan.segment_ids + snapshot: a push of inflight entries into full_segments exists and is reachable after snapshot
        # the scan list: the Vec<String> local cloned from plan.segment_ids.read()
        scan_lists = {x for x in range(len(b.locals)) if b.local_ty(x).startswith("std::vec::Vec<std::string::String") and
                      any(l[0] == "call" and re.search(r"RwLock.*::read$", norm_path(l[1])) for l in b.origins({"c": [x]}))}
        if not scan_lists:
            raise AnchorMissing("scan list cloned from plan.segment_ids")
        pushes = [p for p in b.find_calls(r"Vec::push$") if b._origin_locals(p.args[0]) & scan_lists]
        if not pushes:
            bad.append(("inflight-not-merged", "in-flight segments are not merged into the scanned segment list", None))
        elif not all(b.dominates_edge((snap.bb, snap.to), p.bb) for p in pushes):
            bad.append(("inflight-not-from-snapshot", "segment list extended from something else than the in-flight snapshot", None))
        rd = calls(b, r"RwLock::read$", 1)
        if not any(has_origin(b.origins(r.args[0]), None, proj_contains=[".segment_ids"]) for r in rd):
            bad.append(("segment_ids-not-read", "scan list not seeded from plan.segment_ids", None))
        # the pruned list may be used only under allow_prune
        return bad
    ctx.run("C02.d", "K9 LOOP", "ZoneStepRunner::run", "every step scans segment_ids ∪ in-flight snapshot (or an explicit subset)", d_)

    # ------------------------------------------------------------------ e
    def e1(inst):
        b = F.fn("ConditionEvaluatorBuilder::add_where_clause")
        sw = param_enum_switches(b, r"types::Expr$", "where_clause")
        if not sw:
            raise AnchorMissing("match on where_clause")
        i, si = sw[0]
        a = arms(b, i)
        need = {"Compare", "In", "And", "Or", "Not"}
        bad = []
        missing = need - set(a)
        if missing or si.get("else_variants"):
            bad.append(("expr-arms", "add_where_clause does not handle Expr variants explicitly: missing %s, wildcard gets %s" % (sorted(missing), si.get("else_variants")), None))
        for v in ("And", "Or", "Not"):
            lv = unit_variants_in(b, a.get(v, set()), "LogicalOp")
            inst.sites.append("Expr::%s -> LogicalOp::%s" % (v, lv))
            if lv != [v]:
                bad.append(("logical-op:%s" % v, "Expr::%s builds LogicalOp %s" % (v, lv), None))
            if not calls_in(b, a.get(v, set()), r"add_logical_condition$"):
                bad.append(("logical-dropped:%s" % v, "Expr::%s arm does not add its condition" % v, None))
            rec = calls_in(b, a.get(v, set()), r"ConditionEvaluatorBuilder::add_where_clause$")
            if len(rec) != (1 if v == "Not" else 2):
                bad.append(("logical-children:%s" % v, "Expr::%s arm recurses into %d children" % (v, len(rec)), None))
        if not calls_in(b, a.get("Compare", set()), r"add_(numeric|string)_condition$"):
            bad.append(("compare-dropped", "Compare arm adds no condition", None))
        if not calls_in(b, a.get("In", set()), r"add_in_(numeric|string)_condition$"):
            bad.append(("in-dropped", "In arm adds no condition", None))
        return bad
    ctx.run("C02.e1", "K6 TABLE", "ConditionEvaluatorBuilder::add_where_clause", "Expr -> LogicalCondition operator table is the identity", e1)

    def e2(inst):
        bad = []
        b = F.fn("ZoneGroupCollector::collect_zones_from_group")
        sw = param_enum_switches(b, r"FilterGroup$", "group")
        if not sw:
            raise AnchorMissing("match on group")
        i, si = sw[0]
        a = arms(b, i)
        if si.get("else_variants"):
            bad.append(("group-wildcard", "collect_zones_from_group has a wildcard arm for %s" % si["else_variants"], None))
        for v, want in (("And", "And"), ("Or", "Or")):
            lv = unit_variants_in(b, a.get(v, set()), "LogicalOp")
            inst.sites.append("FilterGroup::%s -> LogicalOp::%s" % (v, lv))
            if lv != [want] or not calls_in(b, a.get(v, set()), r"collect_and_combine_children$"):
                bad.append(("combine-op:%s" % v, "FilterGroup::%s is combined with LogicalOp %s" % (v, lv), None))
        if not calls_in(b, a.get("Not", set()), r"handle_not$"):
            bad.append(("not-arm", "FilterGroup::Not is not routed to handle_not", None))
        if not calls_in(b, a.get("Filter", set()), r"get_zones_for_filter$"):
            bad.append(("filter-arm", "FilterGroup::Filter does not look up its zones", None))
        h = F.fn("ZoneGroupCollector::handle_not")
        sw = param_enum_switches(h, r"FilterGroup$", "child")
        i, si = sw[0]
        a = arms(h, i)
        for v, want in (("And", "Or"), ("Or", "And")):
            lv = unit_variants_in(h, a.get(v, set()), "LogicalOp")
            inst.sites.append("NOT FilterGroup::%s -> LogicalOp::%s of negated children" % (v, lv))
            if lv != [want] or not calls_in(h, a.get(v, set()), r"collect_and_combine_children$"):
                bad.append(("demorgan:%s" % v, "NOT(%s …) is combined with LogicalOp %s (De Morgan requires %s)" % (v, lv, want), None))
            # children are wrapped in Not: the mapping closure builds FilterGroup::Not
        if not calls_in(h, a.get("Not", set()), r"collect_zones_from_group$"):
            bad.append(("double-negation", "NOT(NOT x) is not x", None))
        # and the combiner honours the operator it is given
        cb = F.fn("ZoneCombiner::combine")
        swc = enum_switches_on(cb, lambda L: has_origin(L, "param", "self", proj_contains=[".op"]), r"LogicalOp$")
        if not swc:
            raise AnchorMissing("ZoneCombiner::combine does not branch on self.op")
        return bad
    ctx.run("C02.e2", "K6 TABLE", "ZoneGroupCollector", "zone-set combinators: And->And, Or->Or, De Morgan under Not", e2)


    def f_(inst):
        bad = []
        for nm in ("CandidateZone::uniq", "ZoneHydrator::hydrate", "ZoneCombiner::combine"):
            b = F.fn(nm)
            fam = [b] + [F.fn_exact(k) for k in F.find("^" + re.escape(b.key.split("::{closure")[0]) + r"::\{closure") if k != b.key]
            # key tuples: 3-tuples starting with a u32 zone id; one component must come from CandidateZone::uid
            found = False
            for bb_ in fam:
                for blk in bb_.live_blocks():
                    for s_ in bb_.blocks[blk]["s"]:
                        v = s_.get("v")
                        if v and v["r"] == "agg" and v.get("ak") == "tuple" and len(v["o"]) in (2, 3):
                            L0 = fmt_leaves(bb_.origins(v["o"][0], transparent=NEXT_TRANSPARENT))
                            if ".zone_id" not in L0:
                                continue
                            has_uid = any(c_.nname.endswith("CandidateZone::uid") for c_ in bb_.calls if not c_.cleanup) and len(v["o"]) == 3
                            inst.sites.append("%s key arity %d, uid read: %s" % (nm, len(v["o"]), has_uid))
                            found = True
                            if not has_uid:
                                bad.append(("zone-key-without-uid:%s" % nm, "%s identifies candidate zones by (zone_id, segment_id) only: zone 0 of one event type replaces zone 0 of another in the same segment (wildcard REPLAY loses rows)" % nm, None))
            if not found:
                raise AnchorMissing("candidate-zone key tuple in %s" % nm)
        return bad
    ctx.run("C02.f", "K10 READS", "candidate-zone keys (uniq / hydrate / combine)", "zones of different event types are never merged into one", f_)

    def g_(inst):
        b = F.fn("ZoneHydrator::hydrate")
        ent = [c_ for c_ in b.find_calls(r"HashMap::entry$")]
        if not ent:
            raise AnchorMissing("zones_by_uid.entry(..)")
        fb = b.find_calls(r"QueryPlan::event_type_uid$")
        uidc = b.find_calls(r"CandidateZone::uid$")
        inst.sites = [sp(b, c_.bb) for c_ in ent[:2] + fb[:1]]
        if not uidc:
            raise AnchorMissing("zone.uid() in hydrate")
        if not fb:
            return [("no-uid-fallback", "zones without a uid are left out of hydration when other zones carry one: OR/IN over a pruned filter and a fallback filter loses rows", None)]
        # the grouping key derives from both sources
        ok = False
        for e in ent:
            w = wide_all(b, e.args[1], depth=30)
            if any(c_.dest and c_.dest[0] in w for c_ in uidc) and any((b.await_of(c_) or (c_, None))[0].dest[0] in w or c_.dest[0] in w for c_ in fb):
                ok = True
        if not ok:
            return [("uid-fallback-unused", "the plan's event-type uid is not used as the grouping key for untagged zones", None)]
        return []
    ctx.run("C02.g", "K7 PROV", "ZoneHydrator::hydrate", "every candidate zone is hydrated, tagged or not", g_)

    def h_(inst):
        bad = []
        for kind in ("i64", "u64", "f64"):
            b = F.fn("PreparedAccessor::get_%s_buffer_with_validity" % kind)
            hs_ = for_headers(b)
            somes = [(bb, v) for (bb, j, v, dst) in b.aggregates("option::Option", "Some") if dst[0] == 0 and any(b.can_reach(h.bb, bb) for h in hs_)]
            if not somes:
                raise AnchorMissing("Some(..) return after the fill loop in get_%s_buffer_with_validity" % kind)
            guarded = 0
            for (bb, v) in somes:
                # dominated by the true edge of a bool that is set to true exactly where a valid entry is pushed
                ok = False
                for i in sorted(b.live_blocks()):
                    if b.blocks[i]["t"]["t"] != "switch":
                        continue
                    si = b.switch_info(i)
                    if si and si["kind"] == "bool" and si["true"] is not None and b.dominates_edge((i, si["true"]), bb):
                        for l_ in b._origin_locals(si["op"], depth=6):
                            if any(j != -1 and rv.get("r") == "use" and rv["o"].get("k") == "true" for (bb2, j, dpl, rv) in b.defs().get(l_, [])):
                                ok = True
                guarded += ok
            inst.sites.append("get_%s_buffer_with_validity: %d Some return(s), %d behind an any-valid flag" % (kind, len(somes), guarded))
            if guarded < len(somes):
                bad.append(("all-invalid-buffer-returned:%s" % kind, "get_%s_buffer_with_validity can return Some(buffer) with no valid entry: the numeric SIMD evaluation takes it as 'this is a %s column' and never tries the other kinds" % (kind, kind), None))
        return bad
    ctx.run("C02.h", "K11 SIB", "PreparedAccessor::get_{i64,u64,f64}_buffer_with_validity", "a typed buffer is handed out only if the column has a value of that type", h_)

    def i_(inst):
        b = F.fn("ConditionEvaluatorBuilder::add_where_clause")
        sw = [(i, b.switch_info(i)) for i in sorted(b.live_blocks()) if b.blocks[i]["t"]["t"] == "switch"]
        sw = [(i, si) for i, si in sw if si and si["kind"] == "enum" and str(si.get("adt") or "").endswith("types::Expr")]
        if not sw:
            raise AnchorMissing("match on Expr in add_where_clause")
        i, si = sw[0]
        cmp_edges = [(i, t) for t in edges_for_variant(si, "Compare")]
        adds = [c_ for c_ in b.find_calls(r"ConditionEvaluator::add_(numeric|string|logical|in_numeric|in_string|\w+)_condition$|ConditionEvaluator::add_\w+$")]
        inst.sites = [sp(b, c_.bb) for c_ in adds[:6]]
        if not adds:
            raise AnchorMissing("add_*_condition calls in add_where_clause")
        seen = b.reach(0, src_edges=cmp_edges, cut_blocks=[c_.bb for c_ in adds])
        esc = [x for x in b.exits() if x in seen]
        if esc:
            return [("compare-leaf-ignored", "add_where_clause can return from the Compare arm without adding any condition (a literal kind the chain does not recognise): the leaf then filters nothing", witness_path(b, seen, esc[0]))]
        return []
    ctx.run("C02.i", "K2 CUT", "ConditionEvaluatorBuilder::add_where_clause", "every comparison leaf of WHERE becomes a row condition", i_)

    def j_(inst):
        ev = F.method("NumericCondition", "Condition", "evaluate_event_direct")
        at = F.method("NumericCondition", "Condition", "evaluate_at")

        def kinds(b_):
            out = set()
            fam = [b_] + [F.fn_exact(k) for k in F.find("^" + re.escape(b_.key) + r"::\{closure")]
            for B in fam:
                for c_ in B.calls:
                    if c_.cleanup:
                        continue
                    m_ = re.search(r"get_(?:field_as_)?(i64|u64|f64)(?:_at)?$", c_.nname)
                    if m_:
                        out.add(m_.group(1))
            return out
        ke, ka = kinds(ev), kinds(at)
        inst.sites = ["evaluate_event_direct reads %s" % sorted(ke), "evaluate_at reads %s" % sorted(ka)]
        if not ka or not ke:
            raise AnchorMissing("typed field reads in NumericCondition::{evaluate_at, evaluate_event_direct}")
        if ka - ke:
            return [("memtable-row-kinds", "NumericCondition::evaluate_event_direct reads a field only as %s while the columnar evaluate_at also reads %s: a float (or large u64) value matches an integer literal after FLUSH but not before" % (sorted(ke), sorted(ka - ke)), None)]
        return []
    ctx.run("C02.j", "K11 SIB", "NumericCondition::evaluate_event_direct vs evaluate_at", "memtable rows and segment rows are compared through the same numeric kinds", j_)

    def k_(inst):
        """A quoted literal is text. add_where_clause knows the literal and the field NAME but not the field's type; it sends every
        string literal through the time parser, whose numeric fallback accepts any integer text, and then builds a NUMERIC row
        condition: `uid = "7"` matches the string value "007". Decided here: a numeric condition is built from a string literal
        only after the field's schema type was consulted."""
        bad = []
        b = F.fn("ConditionEvaluatorBuilder::add_where_clause")
        nums = [c for c in b.calls if not c.cleanup and re.search(r"ConditionEvaluator::add_(in_)?numeric_condition$", c.nname)]
        if not nums:
            raise AnchorMissing("add_numeric_condition in add_where_clause")
        tp = [c for c in b.calls if not c.cleanup and c.nname.endswith("TimeParser::parse_str_to_epoch_seconds")]
        typed = [c for c in b.calls if not c.cleanup and re.search(r"Schema\w*::(field_type|get_field|fields|field_types)|SchemaRegistry::|FieldType::", c.nname)]
        from_text = []
        for c in nums:
            L = b.origins(c.args[-1], transparent=re.compile(r"Option.*::(or_else|or|map|unwrap_or\w*)$"))
            W = wide_all(b, c.args[-1])
            if any(x.dest and x.dest[0] in W for x in tp) or any(l[0] == "call" and "parse_str_to_epoch_seconds" in l[1] for l in L):
                from_text.append(c)
        inst.sites += [sp(b, c.bb) for c in from_text] + ["schema type consulted in add_where_clause: %s" % bool(typed)]
        if from_text and not typed:
            bad.append(("quoted-literal-becomes-number", "add_where_clause turns a quoted literal into a numeric condition through TimeParser::parse_str_to_epoch_seconds without knowing the field's type: a string field is compared numerically (uid = \"7\" matches \"007\")", sp(b, from_text[0].bb)))
        return bad
    ctx.run("C02.k", "K10 READS", "ConditionEvaluatorBuilder::add_where_clause", "a string literal is compared as text unless the field's type says otherwise", k_)

    def m_(inst):
        """A numeric condition carries an i64 literal; unsigned columns are compared in a u64 lane. A negative literal is below every
        u64, so what the row filter answers depends on the operator (`>`, `>=`, `!=`: every non-null row; `<`, `<=`, `=`: none).
        Both row paths that run on segment rows have a `value < 0` early exit on the u64 lane: the exit must consult the operator."""
        bad = []
        sites = [("ConditionEvaluator::evaluate_numeric_simd", F.fn("ConditionEvaluator::evaluate_numeric_simd")),
                 ("NumericCondition::evaluate_at", F.method("NumericCondition", "Condition", "evaluate_at"))]
        n = 0
        for nm, b in sites:
            def negative(op, A, B_, truth):
                zero = any(l[0] == "const" and re.match(r"^0_i64", str(l[1])) for l in B_)
                val = any((l[0] == "call" and norm_path(l[1]).endswith("NumericCondition::value")) or (l[0] in ("param", "upvar") and len(l) > 2 and ".value" in l[2]) for l in A)
                return zero and val and ((op == "Lt" and truth) or (op == "Ge" and not truth))
            arms_ = []
            for i_ in sorted(b.live_blocks()):
                if b.blocks[i_]["t"]["t"] != "switch":
                    continue
                si = b.switch_info(i_)
                d = si.get("def") if si and si["kind"] == "bool" else None
                if d and d.get("r") == "bin":
                    for truth, tgt in ((True, si["true"]), (False, si["false"])):
                        if tgt is not None and negative(d["op"], b.origins(d["a"]), b.origins(d["b"]), truth):
                            arms_.append((i_, tgt))
            if not arms_:
                inst.sites.append("%s: no early exit for a negative literal on the u64 lane" % nm)
                continue
            n += 1
            for (i_, tgt) in arms_:
                # blocks that belong to the negative arm only
                region = edge_dominated(b, (i_, tgt))
                reads_op = False
                for x in region:
                    for st in b.blocks[x]["s"]:
                        if ".operation" in json.dumps(st) or ".op\"" in json.dumps(st):
                            reads_op = True
                    t = b.blocks[x]["t"]
                    if t["t"] == "call" and re.search(r"NumericCondition::op$|::operation$", norm_path((t["f"].get("p") or t["f"].get("u") or ""))):
                        reads_op = True
                    if t["t"] == "switch":
                        si2 = b.switch_info(x)
                        if si2 and si2["kind"] == "enum" and (si2.get("adt") or "").endswith("CompareOp"):
                            reads_op = True
                inst.sites.append("%s: negative-literal exit @ %s consults the operator: %s" % (nm, sp(b, i_), reads_op))
                if not reads_op:
                    bad.append(("negative-bound-ignores-operator:%s" % nm.split("::")[-1], "%s answers `no row` for every operator when the literal is negative and the column is unsigned: u > -1, u >= -5, u != -1 lose every row of a flushed segment" % nm, sp(b, i_)))
        if n < 1:
            raise AnchorMissing("a negative-literal exit on the u64 lane in the row filters")
        return bad
    ctx.run("C02.m", "K11 SIB + K8", "evaluate_numeric_simd / NumericCondition::evaluate_at (u64 lane)", "a negative literal against an unsigned column is answered per operator", m_)

    def n_(inst):
        """ZoneCollector de-duplicates the leaves of a WHERE tree by filter_key and caches their candidate zones under it: two different
        leaves with one key are answered with the first leaf's zones. The key must therefore contain the literal as a whole: on the
        Utf8 arm of filter_key the text pushed into the key is the literal itself - never a slice, prefix, length or hash of it."""
        bad = []
        b = F.fn("filter::filter_group::filter_key")
        sw = [(i_, si) for i_, si in enum_switches_on(b, lambda L: has_origin(L, "param", "value"), r"ScalarValue$")]
        if not sw:
            raise AnchorMissing("match on the literal's ScalarValue in filter_key")
        a = arms(b, sw[0][0])
        ub = a.get("Utf8", set())
        if not ub:
            raise AnchorMissing("the Utf8 arm of filter_key")
        pushes = [c for c in b.calls if not c.cleanup and c.bb in ub and re.search(r"String::push_str$|fmt::Write>::write_fmt$|String::push$|String::extend", c.nname)]
        cuts = [c for c in b.calls if not c.cleanup and c.bb in ub and re.search(r"ops::Index|str::get$|split_at$|char_indices$|Chars|is_char_boundary$|truncate$|Iterator::take$|str::len$|hash", c.nname, re.I)]
        whole = [c for c in pushes if c.nname.endswith("String::push_str") and any(l[0] == "param" and l[1] == "value" for l in b.origins(c.args[1]))]
        inst.sites = [sp(b, sw[0][0])] + [sp(b, c.bb) for c in whole] + ["partial views of the literal on the Utf8 arm: %s" % sorted({c.nname.split("::")[-1] for c in cuts})]
        if cuts:
            bad.append(("filter-key-abbreviates-literal", "filter_key builds the key of a string literal from a part of it (%s): two long literals that agree on that part share one key and the second one is answered with the first one's candidate zones" % sorted({c.nname.split("::")[-1] for c in cuts}), sp(b, cuts[0].bb)))
        if not whole and not cuts:
            bad.append(("filter-key-without-literal", "the Utf8 arm of filter_key does not push the literal itself into the key", sp(b, sw[0][0])))
        return bad
    ctx.run("C02.n", "K7 PROV", "filter::filter_group::filter_key", "the cache key of a filter contains its literal as a whole", n_)

    def l_(inst):
        """String conditions read a row through get_str_at. Memtable rows render a bool value as "true" / "false"; a flushed bool column
        is typed, so the segment accessor must give it the same string view or `b = true` matches in memory and nothing after FLUSH."""
        bad = []
        g = F.method("PreparedAccessor", "FieldAccessor", "get_str_at")
        fam = [g] + [F.fn_exact(k) for k in F.keys() if k.startswith(g.key.split("::{closure")[0] + "::{closure")]
        has_bool = any(c.nname.endswith("ColumnValues::get_bool_at") for f_ in fam for c in f_.calls if not c.cleanup)
        has_str = any(c.nname.endswith("ColumnValues::get_str_at") for f_ in fam for c in f_.calls if not c.cleanup)
        if not has_str:
            raise AnchorMissing("ColumnValues::get_str_at in PreparedAccessor::get_str_at")
        inst.sites.append("PreparedAccessor::get_str_at: string view of typed bool columns: %s" % has_bool)
        if not has_bool:
            bad.append(("bool-column-has-no-string-view", "PreparedAccessor::get_str_at returns None for a typed bool column: the string condition a true / false literal becomes fails every row of a flushed segment", sp(g, 0)))
        return bad
    ctx.run("C02.l", "K11 SIB", "PreparedAccessor::get_str_at", "bool values have the same string view in memory and in segments", l_)

    def o_(inst):
        bad = []
        # (1) RETURN limits what is shown, not what SINCE is evaluated on: the USING time field is among the loaded columns
        b = F.method("SelectionProjection", "ProjectionStrategy", "compute")
        adds = [c_ for c_ in b.calls if not c_.cleanup and re.search(r"ProjectionColumns::add$", c_.nname)]
        tf = [c_ for c_ in adds if has_origin(b.origins(c_.args[1]), None, proj_contains=[".time_field"])]
        ob = [c_ for c_ in adds if any(l[0] == "call" and norm_path(l[1]).endswith("QueryPlan::order_by") for l in b.origins(c_.args[1]))]
        inst.sites = ["columns added by name: %d" % len(adds)] + [sp(b, c_.bb) + " time field" for c_ in tf] + [sp(b, c_.bb) + " order field" for c_ in ob]
        if len(adds) < 2:
            raise AnchorMissing("columns added by name in SelectionProjection::compute (%d)" % len(adds))
        if not tf:
            bad.append(("since-field-not-loaded", "SelectionProjection::compute loads the RETURN list, the ORDER BY field and the filter columns, but not the USING time field SINCE is evaluated on: with a WHERE clause and a RETURN that omits it, every flushed row fails the SINCE comparison", None))
        # (2) a projection is the identity only if it keeps all input columns
        pi = F.fn("Projection::is_identity")
        cmp_param = False
        for i_ in sorted(pi.live_blocks()):
            for st in pi.blocks[i_]["s"]:
                v = st.get("v")
                if v and v.get("r") == "bin" and v.get("op") in ("Ne", "Eq"):
                    for o_ in (v["a"], v["b"]):
                        if any(l[0] == "param" and l[1] != "self" for l in pi.origins(o_)):
                            cmp_param = True
        inst.sites.append("is_identity compares with the input width: %s" % cmp_param)
        if not cmp_param:
            bad.append(("prefix-projection-taken-for-identity", "Projection::is_identity looks only at the projection itself: indices 0..n over an input of more than n columns skip ProjectOp, the ordered merger then refuses the batches (column count) and the query returns no rows", None))
        return bad
    ctx.run("C02.o", "K10 READS", "SelectionProjection::compute / Projection::is_identity", "RETURN never hides a column a row test reads; a narrowing projection is applied", o_)
