"""C03 — reads see every applied write exactly once at every stage of its flush: structural clauses."""
from .util import *
from ..callgraph import CallGraph

EXPLANATION = """
Decides structural clauses necessary for C03; does not decide exactly-once over all interleavings of the flush task with readers.
a) store handler: the OK response is written only on the Ok(Ok(())) edge of the awaited mailbox send of ShardMessage::Store.
b) both rotation sites: awaited PassiveBufferSet::add_from completes before mem::replace of the active memtable; queue_for_flush gets the replaced table and the same passive Arc;
   FlushManager::queue_for_flush registers the segment as in-flight before sending it to the flush worker.
c) flush task: the passive buffer is cleared (clear_and_complete / MemTable::flush) only after verify_with_retry == true and after the segment id is published in segment_ids;
   the InflightGuard is not dropped before publication.
d) scan reaches the sources that together always hold an applied event: passive snapshot (PassiveBufferSet::non_empty), the active memtable and the segment flows over the live list (the in-flight merge is reported, not required: a passive buffer is released only after its segment is in the live list, C03.c).
j) aggregates: an event of a flushing memtable is held by two scanned sources (passive buffer; in-flight / published segment); selections drop the second copy by event id (e), aggregates would need ONE de-duplicating fold over both flows - two per-flow AggregateOps whose partials are added count it twice.
e) response writers emit a row only on the true edge of try_accept_row; try_accept_row consults seen_ids before any offset/limit accounting.
g) MemTableSource::run visits every passive buffer handed to it: in both loops over passive_memtables each iteration reaches the row-collection call before the next iteration
   (no skip of a busy buffer); no try_lock/try_read/try_write is used by engine::core::read code reachable from scan.
h) PassiveBufferSet only ever removes buffers with `retain` under an emptiness predicate (MemTable::len) — no drain/remove/truncate/clear of possibly non-empty passive buffers.
i) flow accounting cannot kill a stream: in FlowMetrics no *unsigned* atomic counter is ever decremented (a receive can be accounted before the matching send, so a decremented counter must be signed);
   the forwarder task that panicked on the wrapped counter is never joined, which truncated results silently (reproduced under load, fixed).
f) run_worker_loop awaits on_store inline (no spawn) before the next recv.
Not decided: the window between publication and release of the passive copy (cross-task atomicity), aggregates not being de-duplicated.
"""
FLOOR = 18
REQUIRED = ["C03.a", "C03.b1", "C03.b2", "C03.b3", "C03.c", "C03.d", "C03.e1", "C03.e2", "C03.f", "C03.g", "C03.h", "C03.i", "C03.j", "C03.k", "C03.l", "C03.m", "C03.n"]
FLUSH_TASK = "engine::core::write::flush_worker::FlushWorker::run::{closure#0}::{closure#0}"


def run(ctx):
    F = ctx.F

    def a(inst):
        b = F.fn("handlers::store::handle")
        send = one(b, r"mpsc::(bounded::)?Sender::send$")
        tmo = one(b, r"tokio::time::timeout$")
        ok = one(b, r"handlers::store::write_ok$")
        inst.sites = [sp(b, send.bb), sp(b, ok.bb)]
        bad = []
        # message is ShardMessage::Store
        L = b.origins(send.args[1])
        if not any(l[0] == "agg" and l[1].endswith("ShardMessage::Store") for l in L):
            bad.append(("send-not-store", "mailbox send does not carry ShardMessage::Store (%s)" % fmt_leaves(L), None))
        # send future is what timeout awaits
        if not (b._origin_locals(tmo.args[1]) & {send.dest[0]}):
            bad.append(("timeout-other-future", "timeout() wraps something else than the mailbox send", None))
        oks = [e for e in variant_edge(b, tmo, "Ok")]
        dom = [e for e in oks if b.dominates_edge(e, ok.bb)]
        inst.detail = "Ok edges on the send result: %d, dominating write_ok: %d" % (len(oks), len(dom))
        if len(dom) < 2:
            bad.append(("ok-without-delivery", "OK is written without both the timeout and the channel send having succeeded", None))
        return bad
    ctx.run("C03.a", "K1 DOM", "handlers::store::handle", "acknowledge only after the shard mailbox accepted the event", a)

    def rotation(name):
        def f(inst):
            b = F.fn(name)
            add = one(b, r"PassiveBufferSet::add_from$")
            rep = one(b, r"mem::replace$")
            q = one(b, r"FlushManager::queue_for_flush$")
            inst.sites = [sp(b, add.bb), sp(b, rep.bb), sp(b, q.bb)]
            bad = []
            if not is_awaited(b, add):
                return [("add_from-not-awaited", "passive copy is not awaited before rotation", None)]
            if not b.dominates_edge(done_edge(b, add), rep.bb):
                bad.append(("replace-before-passive", "active memtable is replaced before its passive copy exists: a reader sees the rows in neither", None))
            # add_from copies the *active* memtable, and replace swaps the same one
            La, Lr = b.origins(add.args[1]), b.origins(rep.args[0])
            if not (has_origin(La, None, proj_contains=[".memtable"]) and has_origin(Lr, None, proj_contains=[".memtable"])):
                bad.append(("wrong-table", "add_from/replace do not operate on ctx.memtable (%s / %s)" % (fmt_leaves(La), fmt_leaves(Lr)), None))
            Lq = b.origins(q.args[1])
            if not all(l[0] == "call" and norm_path(l[1]).endswith("mem::replace") for l in Lq):
                bad.append(("queue-other-table", "queue_for_flush does not receive the replaced memtable (%s)" % fmt_leaves(Lq), None))
            Lp = b.origins(q.args[4])
            if not any(l[0] == "call" and "add_from" in l[1] for l in Lp):
                bad.append(("queue-other-passive", "queue_for_flush does not receive the passive copy returned by add_from (%s)" % fmt_leaves(Lp), None))
            return bad
        return f
    ctx.run("C03.b1", "K1 DOM + K7", "insert_and_maybe_flush", "rotation keeps the rows readable: passive copy first, then swap, then queue", rotation("insert_and_maybe_flush"))
    ctx.run("C03.b2", "K1 DOM + K7", "worker::on_flush", "rotation keeps the rows readable: passive copy first, then swap, then queue", rotation("worker::on_flush"))

    def b3(inst):
        b = F.fn("FlushManager::queue_for_flush")
        ins = one(b, r"InflightSegments::insert$")
        send = one(b, r"mpsc::(bounded::)?Sender::send$")
        inst.sites = [sp(b, ins.bb), sp(b, send.bb)]
        if not b.dominates_edge((ins.bb, ins.to), send.bb):
            return [("send-before-inflight", "memtable handed to the flush worker before its segment is registered in-flight", None)]
        return []
    ctx.run("C03.b3", "K1 DOM", "FlushManager::queue_for_flush", "segment is in-flight before the worker can start writing it", b3)

    def c(inst):
        b = F.fn_exact(FLUSH_TASK) if F.has(FLUSH_TASK) else None
        if b is None:
            raise AnchorMissing("flush task body")
        vr = one(b, r"SegmentVerifier::verify_with_retry$")
        clear = one(b, r"SegmentLifecycleTracker::clear_and_complete$")
        pfl = one(b, r"MemTable::flush$")
        push = [p for p in calls(b, r"Vec::push$", 1) if has_origin(b.origins(p.args[0]), "call", name_re=r"RwLock::write")]
        if not push:
            raise AnchorMissing("segment_ids push")
        cont = calls(b, r"contains$", 1)
        inst.sites = [sp(b, vr.bb)] + [sp(b, p.bb) for p in push] + [sp(b, clear.bb), sp(b, pfl.bb)]
        bad = []
        te = bool_result_edge(b, vr, True)
        cut = [(p.bb, p.to) for p in push]
        for c_ in cont:
            if has_origin(b.origins(c_.args[0]), "call", name_re=r"RwLock::write"):
                cut += bool_result_edge(b, c_, True)
        for tgt, nm in ((clear, "clear_and_complete"), (pfl, "passive MemTable::flush")):
            if not any(b.dominates_edge(e, tgt.bb) for e in te):
                bad.append(("release-unverified:%s" % nm, "%s not dominated by verify_with_retry == true" % nm, None))
            bad += must_cross(b, tgt.bb, cut_edges=cut, key="release-before-publish:%s" % nm, detail="%s reachable before the segment id is in segment_ids" % nm)
        # the pushed name is this segment's
        # InflightGuard not dropped before publication
        guards = [i for i, l in enumerate(b.locals) if "InflightGuard" in l["t"] and not l["t"].startswith("&")]
        drops = [i for i in b.live_blocks() if b.blocks[i]["t"]["t"] == "drop" and b.blocks[i]["t"]["p"][0] in guards and not b.blocks[i].get("cu")]
        inst.detail = "guard locals %s, non-cleanup drops at %s" % (guards, [sp(b, d) for d in drops])
        if not guards:
            raise AnchorMissing("InflightGuard local in flush task")
        for d in drops:
            for p in push:
                if b.can_reach(d, p.bb):
                    bad.append(("guard-dropped-before-publish", "in-flight guard can be dropped before the segment id is published", None))
        for c_ in b.find_calls(r"InflightGuard::disarm$|mem::drop$"):
            if c_.args and b.local_ty((c_.args[0].get("m") or c_.args[0].get("c") or [0])[0]).endswith("InflightGuard"):
                for p in push:
                    if b.can_reach(c_.bb, p.bb):
                        bad.append(("guard-released-before-publish", "in-flight guard released before publication", None))
        return bad
    ctx.run("C03.c", "K1/K3/K5", "flush task", "publish (verified) before releasing the in-memory copy; in-flight guard spans publication", c)

    def k_(inst):
        """`exactly once`: once the segment is published the rows exist twice (segment + passive buffer) until the passive copy is
        emptied. Selections hide that (rows are de-duplicated by id), aggregates do not. The flush task therefore must not be able
        to finish the job while the passive buffer handed back by clear_and_complete still holds its rows: every path from
        `Some(passive)` to the end of the task passes MemTable::flush on it. (Pruning only removes EMPTY buffers, so a skipped release
        is never made up for.)"""
        b = F.fn_exact(FLUSH_TASK) if F.has(FLUSH_TASK) else None
        if b is None:
            raise AnchorMissing("flush task body")
        clear = one(b, r"SegmentLifecycleTracker::clear_and_complete$")
        fl = [c for c in b.calls if not c.cleanup and c.nname.endswith("MemTable::flush")]
        if not fl:
            raise AnchorMissing("MemTable::flush of the passive buffer in the flush task")
        some = variant_edge(b, clear, "Some")
        exits = list(b.exits())
        if not exits:
            raise AnchorMissing("exit of the flush task")
        inst.sites = [sp(b, clear.bb)] + [sp(b, c.bb) for c in fl]
        seen = set(b.reach(0, src_edges=some, cut_blocks=[c.bb for c in fl]))
        bad = []
        if any(x in seen for x in exits):
            bad.append(("passive-copy-not-released", "the flush task can finish without having emptied the passive buffer of the segment it just published (a path from Some(passive) to the end of the task avoids MemTable::flush): the rows stay readable twice and aggregates count them twice", sp(b, clear.bb)))
        return bad
    ctx.run("C03.k", "K2 CUT", "flush task", "the passive copy of a published segment is always emptied by the job that published it", k_)

    def d(inst):
        cg = CallGraph(F)
        roots = [k for k in cg.nodes if norm_path(k).startswith("engine::query::scan::scan")]
        if not roots:
            raise AnchorMissing("scan")
        seen = cg.reachable(roots)
        need = {
            "passive snapshot": "engine::core::memory::passive_buffer_set::PassiveBufferSet::non_empty",
            "in-flight snapshot": "engine::core::segment::inflight::InflightSegments::snapshot",
            "memtable source": "engine::core::read::memtable_query_runner::MemTableQueryRunner::<'a>::stream",
            "segment stream": "engine::core::read::flow::shard_pipeline::build_segment_stream",
            "zone step runner": "engine::core::zone::zone_step_runner::ZoneStepRunner::<'a>::run",
        }
        bad = []
        for nm, k in need.items():
            if k not in cg.nodes and nm != "in-flight snapshot":
                raise AnchorMissing(k)
            if k not in seen and nm == "in-flight snapshot":
                inst.sites.append("in-flight segments are not merged into the scan list (not needed: a passive buffer is released only after its segment is in the live list)")
            elif k not in seen:
                bad.append(("source-unreachable:%s" % nm, "scan no longer reaches the %s (%s)" % (nm, k), None))
            else:
                inst.sites.append("%s via %s" % (nm, " -> ".join(norm_path(x).split("::")[-2] + "::" + norm_path(x).split("::")[-1] for x in cg.chain(seen, k)[-4:])))
        # StreamingContext::new stores the non_empty() result as passive_snapshot
        b = F.fn("StreamingContext::new")
        ne = one(b, r"PassiveBufferSet::non_empty$")
        ag = b.aggregates("StreamingContext")
        if not ag:
            raise AnchorMissing("StreamingContext aggregate")
        for (bb, j, v, _) in ag:
            L = b.origins(v["o"][v["fields"].index("passive_snapshot")])
            if not any(l[0] == "call" and "non_empty" in l[1] for l in L):
                bad.append(("passive-snapshot-origin", "passive_snapshot is not the result of non_empty() (%s)" % fmt_leaves(L), None))
        # memtable_flow hands both the active memtable and the passive refs to the runner
        mf = F.fn("FlowBuilders::memtable_flow")
        nw = one(mf, r"MemTableQueryRunner::new$")
        L0 = mf.origins(nw.args[0])
        L1 = mf.origins(nw.args[1])
        if not any(l[0] == "agg" and l[1].endswith("Option::Some") for l in L0):
            bad.append(("active-memtable-dropped", "memtable flow built without the active memtable (%s)" % fmt_leaves(L0), None))
        if not any(l[0] == "call" and "passive_refs" in l[1] for l in L1):
            bad.append(("passives-dropped", "memtable flow built without the passive buffers (%s)" % fmt_leaves(L1), None))
        ex = F.fn("StreamingScan::execute")
        one(ex, r"FlowBuilders::memtable_flow$")
        one(ex, r"FlowBuilders::segment_flow$")
        return bad
    ctx.run("C03.d", "K4 REACH", "engine::query::streaming::scan", "a read consults active memtable, passive buffers and published segments", d)

    def l_(inst):
        """C03.d shows that a scan CAN reach the memtable, the passive buffers and the segments. A read sees every applied write only if
        it DOES: in StreamingScan::execute both source flows are requested on every path that goes on to merge - in particular a shard
        the coordinator's top-k plan gave no zones still holds unflushed rows (the plan only knows on-disk zones)."""
        b = F.fn("StreamingScan::execute")
        mf = one(b, r"FlowBuilders::memtable_flow$")
        sf = one(b, r"FlowBuilders::segment_flow$")
        mgs = calls(b, r"ShardFlowMerger::merge$", 1)
        inst.sites = [sp(b, mf.bb), sp(b, sf.bb)] + [sp(b, mg.bb) for mg in mgs]
        bad = []
        for c, nm in ((mf, "memtable (active + passive buffers)"), (sf, "segment")):
            for mg in mgs:
                if mg.bb in set(b.reach(0, cut_blocks=[c.bb])):
                    bad.append(("scan-skips-source:%s" % nm.split(" ")[0], "StreamingScan::execute can merge and answer without having requested the %s flow: rows that live only there are missing from the shard's answer" % nm, sp(b, mg.bb)))
                    break
        return bad
    ctx.run("C03.l", "K1 DOM", "StreamingScan::execute", "a shard's answer is always built from the memtable flow and the segment flow", l_)

    def writer(name):
        def f(inst):
            b = F.fn(name)
            acc = one(b, r"QueryResponseWriter::try_accept_row$")
            te = bool_result_edge(b, acc, True)
            # the accepted-row list: the Vec<usize> that receives a push on the accepting edge
            VR = set()
            for p_ in b.find_calls(r"Vec::push$"):
                if any(b.dominates_edge(e, p_.bb) for e in te):
                    VR |= {x for x in b._origin_locals(p_.args[0]) if b.local_ty(x).startswith("std::vec::Vec<usize")}
            pushes = [p for p in b.find_calls(r"Vec::push$") if b._origin_locals(p.args[0]) & VR]
            if not pushes:
                raise AnchorMissing("valid_row_indices.push")
            inst.sites = [sp(b, acc.bb)] + [sp(b, p.bb) for p in pushes]
            bad = []
            for p in pushes:
                if not any(b.dominates_edge(e, p.bb) for e in te):
                    bad.append(("row-without-accept", "%s keeps a row that try_accept_row did not accept" % name, None))
            # rows rendered are taken from valid_row_indices
            rend = b.find_calls(r"Renderer::stream_(batch|row)$|ArrowStreamEncoder::write_batch$")
            if not rend:
                raise AnchorMissing("row rendering call")
            for r in rend:
                if r.nname.endswith("write_batch"):
                    # row_indices argument: Some(valid_row_indices…) or None (all rows accepted)
                    L = b.origins(r.args[3])
                    for l in L:
                        if l[0] == "agg" and l[1].endswith("Option::Some"):
                            for (bb_, j_, v_, _d) in b.aggregates("option::Option", "Some"):
                                if bb_ == l[2]:
                                    if not (b._origin_locals(v_["o"][0], depth=14) & VR):
                                        bad.append(("render-unfiltered:write_batch", "Arrow batch is written with row indices that are not valid_row_indices", None))
                        elif not (l[0] == "agg" and l[1].endswith("Option::None")):
                            bad.append(("render-unfiltered:write_batch", "Arrow batch row selection has an unexpected origin %s" % (l,), None))
                    continue
                L = set()
                for a_ in r.args:
                    L |= b.origins(a_, transparent=NEXT_TRANSPARENT, depth=16)
                txt = fmt_leaves(L)
                ok = any(deep_locals(b, a_, wide=True) & VR for a_ in r.args)
                if not ok:
                    bad.append(("render-unfiltered:%s" % r.nname.split("::")[-1], "%s renders rows not selected through valid_row_indices (%s)" % (name, txt[:200]), None))
            return bad
        return f
    ctx.run("C03.e1", "K1 DOM", "QueryResponseWriter::write_json", "JSON rows pass try_accept_row (event-id de-duplication)", writer("QueryResponseWriter::write_json"))
    ctx.run("C03.e1", "K1 DOM", "QueryResponseWriter::write_arrow", "Arrow rows pass try_accept_row (event-id de-duplication)", writer("QueryResponseWriter::write_arrow"))

    def e2(inst):
        b = F.fn("QueryResponseWriter::try_accept_row")
        ins = one(b, r"HashSet::insert$")
        L = b.origins(ins.args[0])
        if not has_origin(L, "param", "self", proj_contains=[".seen_ids"]):
            return [("dedup-other-set", "try_accept_row does not insert into self.seen_ids", None)]
        te = bool_result_edge(b, ins, True)
        none = enum_switches_on(b, lambda L_: has_origin(L_, "param", "event_id"), r"option::Option")
        cut = list(te) + [(i, t) for i, si in none for t in edges_for_variant(si, "None")]
        bad = []
        # assignments to self.skipped / self.emitted / self.limit_reached
        for blk in b.live_blocks():
            for s in b.blocks[blk]["s"]:
                if "a" in s and s["a"][0] == 1 and any(p in (".skipped", ".emitted", ".limit_reached") for p in s["a"][1:]):
                    fld = [p for p in s["a"][1:] if p.startswith(".")][-1]
                    r = must_cross(b, blk, cut_edges=cut, key="accounting-before-dedup:%s" % fld, detail="offset/limit accounting (%s) happens before the duplicate test" % fld)
                    bad += r
                    inst.sites.append("%s L%s" % (fld, s.get("ln")))
        if not inst.sites:
            raise AnchorMissing("accounting assignments")
        # duplicate => false
        fe = bool_result_edge(b, ins, False)
        for e in fe:
            seen = b.reach(0, src_edges=[e])
            for blk in seen:
                for s in b.blocks[blk]["s"]:
                    if "a" in s and s["a"] == [0] and s["v"]["r"] == "use" and s["v"]["o"].get("k") == "true":
                        bad.append(("duplicate-accepted", "a duplicate event id can still be accepted", None))
        return bad
    ctx.run("C03.e2", "K1 DOM", "QueryResponseWriter::try_accept_row", "duplicates are rejected before offset/limit accounting", e2)

    def f_(inst):
        b = F.fn("worker::run_worker_loop")
        st = one(b, r"worker::on_store$")
        rc = one(b, r"mpsc::(bounded::)?Receiver::recv$")
        inst.sites = [sp(b, rc.bb), sp(b, st.bb)]
        bad = []
        if not is_awaited(b, st):
            bad.append(("store-not-awaited", "on_store future is not awaited inline: a later read in the mailbox can overtake the write", None))
        else:
            de = done_edge(b, st)
            # from on_store creation, the next recv is reachable only through completion
            seen = b.reach(0, src_edges=[(st.bb, st.to)], cut_edges=[de])
            if rc.bb in seen:
                bad.append(("recv-before-store-done", "next message can be received before on_store completed", witness_path(b, seen, rc.bb)))
        if b.find_calls(r"tokio::(task::)?spawn$"):
            L = [c for c in b.find_calls(r"tokio::(task::)?spawn$")]
            for c in L:
                if b.can_reach(rc.bb, c.bb):
                    bad.append(("spawn-in-loop", "worker loop spawns message handling; FIFO application is lost", None))
        q = one(b, r"worker::on_query_streaming$")
        if not is_awaited(b, q):
            bad.append(("query-not-awaited", "on_query_streaming not awaited inline", None))
        return bad
    ctx.run("C03.f", "K9 LOOP", "worker::run_worker_loop", "one message at a time: STORE is applied before a later message is looked at", f_)


    def g(inst):
        b = F.method("MemTableSource", "FlowSource", "run")
        nxs = [c for c in for_headers(b) if has_origin(b.origins(c.args[0], transparent=NEXT_TRANSPARENT), None, proj_contains=[".passive_memtables"])]
        if len(nxs) < 2:
            raise AnchorMissing("loops over config.passive_memtables in MemTableSource::run (%d)" % len(nxs))
        coll = b.find_calls(r"MemTableSource::(collect_rows_from_memtable|push_rows_from_memtable)$")
        bad = []
        for nx in nxs:
            some = variant_edge(b, nx, "Some")
            body_blocks = set(b.reach(0, src_edges=some, cut_blocks=[nx.bb]))
            mine = [c for c in coll if c.bb in body_blocks]
            inst.sites.append("%s -> %s" % (sp(b, nx.bb), [sp(b, c.bb) for c in mine]))
            if not mine:
                bad.append(("passive-loop-without-scan", "a loop over the passive buffers never scans them", None))
                continue
            seen = b.reach(0, src_edges=some, cut_blocks=[c.bb for c in mine])
            if nx.bb in seen:
                bad.append(("passive-buffer-skipped", "an iteration over the passive buffers can move on to the next buffer without scanning this one (e.g. when it is busy): acknowledged rows are observed zero times", witness_path(b, seen, nx.bb)))
            # the scanned table is the iterated buffer's guard
            for c in mine:
                L = b.origins(c.args[1], transparent=NEXT_TRANSPARENT, depth=16)
                if not any(l[0] == "call" and ("Mutex" in l[1] and "lock" in l[1]) for l in L) and not has_origin(L, None, proj_contains=[".passive_memtables"]):
                    pass
        cg = CallGraph(F)
        roots = [k for k in cg.nodes if norm_path(k).startswith("engine::query::scan::scan")]
        seen = cg.reachable(roots)
        for k in seen:
            if k in cg.nodes and norm_path(k).startswith(("engine::core::read::", "<engine::core::read::")):
                for t in cg.edges[k]:
                    if re.search(r"(Mutex|RwLock)(::<T>)?::try_(lock|read|write)(_owned)?$", t):
                        bad.append(("read-path-try-lock:%s" % norm_path(k.split("::{closure")[0]), "%s uses %s on the read path: a busy source would be skipped instead of waited for" % (k, t), cg.chain(seen, k)))
        return bad
    ctx.run("C03.g", "K9 LOOP + K4", "MemTableSource::run passive loops", "every passive buffer of the snapshot is scanned", g)

    def h(inst):
        bad = []
        ks = [k for k in F.find(r"^engine::core::memory::passive_buffer_set::PassiveBufferSet::") if "__CALLSITE" not in k]
        if len(ks) < 4:
            raise AnchorMissing("PassiveBufferSet bodies")
        retains = 0
        for k in ks:
            b = F.fn_exact(k)
            for c in b.calls:
                if c.cleanup:
                    continue
                if re.search(r"(Vec|VecDeque)::(drain|remove|truncate|clear|pop|swap_remove|split_off|pop_front|pop_back|dedup\w*)$", c.nname):
                    bad.append(("passive-removal:%s:%s" % (norm_path(k.split("::{closure")[0]).split("::")[-1], c.nname.split("::")[-1]),
                                "%s removes passive buffers with %s (only empty buffers may leave the set before their segment is published)" % (k, c.nname), None))
                if re.search(r"Vec::retain(_mut)?$", c.nname):
                    retains += 1
                    ok = False
                    for l in b.origins(c.args[1]):
                        if l[0] == "agg" and l[1].startswith("closure:"):
                            cb = F.fn_exact(l[1].split(":", 1)[1])
                            if cb.find_calls(r"MemTable::len$|MemTable::is_empty$"):
                                ok = True
                    inst.sites.append("%s retain with emptiness predicate: %s" % (norm_path(k).split("::")[-1] if "closure" not in k else norm_path(k).split("::")[-2], ok))
                    if not ok:
                        bad.append(("passive-retain-predicate:%s" % norm_path(k.split("::{closure")[0]).split("::")[-1], "%s retains passive buffers under a predicate that does not test emptiness" % k, None))
        if retains < 2:
            raise AnchorMissing("retain sites in PassiveBufferSet: %d" % retains)
        return bad
    ctx.run("C03.h", "K4 EFFECT", "PassiveBufferSet", "a passive buffer leaves the set only when it is empty", h)

    def m_(inst):
        """The read snapshot of the passive buffers (PassiveBufferSet::non_empty) may leave a buffer out only on evidence that it is
        empty. A buffer whose mutex is held is being scanned by another read (MemTableSource::run holds it for the whole scan) just
        as well as being released by the flush worker: skipping it hides acknowledged rows from the second of two overlapping reads."""
        bad = []
        b = F.fn("PassiveBufferSet::non_empty")
        pushes = [c for c in b.calls if not c.cleanup and c.nname.endswith("Vec::push")]
        if not pushes:
            raise AnchorMissing("out.push(..) in PassiveBufferSet::non_empty")
        hdrs = [h for h in for_headers(b) if any(b.can_reach(h.bb, p_.bb) and b.can_reach(p_.bb, h.bb) for p_ in pushes)]
        if len(hdrs) != 1:
            raise AnchorMissing("the loop over the buffers in non_empty (%d)" % len(hdrs))
        h = hdrs[0]

        def is_empty_edge(op, A, B_, truth):
            ln = any(l[0] == "call" and re.search(r"MemTable::len$|MemTable::is_empty$", norm_path(l[1])) for l in A)
            zero = any(l[0] == "const" and re.match(r"^0_", str(l[1])) for l in B_)
            return ln and zero and ((op == "Gt" and not truth) or (op == "Eq" and truth) or (op == "Ne" and not truth) or (op == "Le" and truth))
        allowed = []
        for i_ in sorted(b.live_blocks()):
            if b.blocks[i_]["t"]["t"] != "switch":
                continue
            si = b.switch_info(i_)
            if not si or si["kind"] != "bool":
                continue
            d = si.get("def")
            if d and d.get("r") == "bin":
                for truth, tgt in ((True, si["true"]), (False, si["false"])):
                    if tgt is not None and is_empty_edge(d["op"], b.origins(d["a"]), b.origins(d["b"]), truth):
                        allowed.append((i_, tgt))
            elif any(l[0] == "call" and norm_path(l[1]).endswith("MemTable::is_empty") for l in b.origins(si["op"])) and si["true"] is not None:
                allowed.append((i_, si["true"]))
        inst.sites = [sp(b, h.bb)] + [sp(b, p_.bb) for p_ in pushes] + ["`buffer is empty` edges: %d" % len(allowed)]
        w = skipped_iteration(b, h, [p_.bb for p_ in pushes], allowed_edges=allowed)
        if w:
            bad.append(("snapshot-skips-non-empty-buffer", "PassiveBufferSet::non_empty can leave a buffer out of the read snapshot without having seen that it is empty (e.g. because its mutex is held by another reader): the rows of a rotation that is not yet on disk are invisible to that read", w))
        return bad
    ctx.run("C03.m", "K9 LOOP", "PassiveBufferSet::non_empty", "the read snapshot leaves a passive buffer out only when it is empty", m_)

    def n_(inst):
        # a segment that is still being flushed gets its column files one after another: its zones may be read only once
        # the file written last exists (until then the passive buffer serves the rows)
        h = F.fn("ZoneHydrator::hydrate")
        base = h.key.split("::{closure")[0]
        fam = [F.fn_exact(k) for k in F.keys() if k.startswith(base + "::{closure")]
        runner = F.fn("ZoneStepRunner::run") if F.find(r"ZoneStepRunner::run$") else None
        infl = [fb for fb in fam if fb.find_calls(r"QueryPlan::is_segment_inflight$")]
        inst.sites = ["hydrate and %d closures; in-flight test in %d" % (len(fam), len(infl))]
        ok = False
        for fb in infl:
            fam2 = [fb] + [F.fn_exact(k) for k in F.keys() if k.startswith(fb.key + "::{closure")]
            if any(x.find_calls(r"Path::exists$|Path::try_exists$|Path::is_file$|fs::metadata$") for x in fam2):
                ok = True
        if not ok:
            return [("inflight-zone-read-by-columns", "ZoneHydrator::hydrate loads the zones of a segment that is still being flushed without asking whether its last file is there: a column not yet written is an empty column, so rows come back torn (n: null, timestamp 0) or with invented ids during the flush", None)]
        return []
    ctx.run("C03.n", "K4 EFFECT", "ZoneHydrator::hydrate (in-flight segments)", "a zone of a segment in flight is hydrated only when it is complete on disk", n_)


    def i_(inst):
        ks = [k for k in F.find(r"^engine::core::read::flow::metrics::FlowMetrics::") if "__CALLSITE" not in k]
        if len(ks) < 5:
            raise AnchorMissing("FlowMetrics bodies")
        bad = []
        subs = 0
        for k in ks:
            b = F.fn_exact(k)
            for c in b.calls:
                if c.cleanup:
                    continue
                raw = (c.name or "") + " " + (c.ga or "")
                if re.search(r"(Atomic(U64|U32|Usize)|Atomic::<(u64|u32|usize|u16|u8)>)::fetch_sub", raw):
                    bad.append(("unsigned-counter-decremented:%s" % norm_path(k).split("::")[-1], "%s decrements an unsigned atomic counter (%s): a receive accounted before its send wraps it and the next checked increment panics inside the stream forwarder" % (k, c.nname), None))
                if re.search(r"(Atomic(I64|I32|Isize)|Atomic::<(i64|i32|isize)>)::fetch_sub", raw):
                    subs += 1
        inst.sites = ["signed decrements: %d" % subs]
        if subs == 0 and not bad:
            raise AnchorMissing("no pending-counter decrement found in FlowMetrics")
        return bad
    ctx.run("C03.i", "K4 EFFECT", "FlowMetrics", "stream accounting cannot panic a forwarder task", i_)

    def j_(inst):
        """While a memtable is being flushed its events are in the passive buffer AND (once written) in the in-flight / freshly published segment. Selections drop the
        second copy by event id in the response writer (C03.e); an aggregate has no such stage after the per-flow folds, so either the scan list must not contain a
        segment whose passive buffer is still scanned, or the memtable flow and the segment flow must fold into ONE de-duplicating aggregate."""
        cg = CallGraph(F)
        roots = [k for k in cg.nodes if norm_path(k).startswith("engine::query::scan::scan")]
        seen = cg.reachable(roots)
        infl = "engine::core::segment::inflight::InflightSegments::snapshot"
        merged = infl in cg.nodes and infl in seen
        ops = {}
        for fn in ("build_memtable_flow", "build_segment_stream", "build_segment_flow"):
            try:
                b = F.fn("shard_pipeline::" + fn)
            except AnchorMissing:
                continue
            n = len(b.find_calls(r"AggregateOp::new$"))
            if n:
                ops[fn] = n
        inst.sites.append("in-flight segments merged into the scan list: %s" % merged)
        inst.sites.append("per-flow AggregateOp constructions: %s" % ops)
        if not ops:
            raise AnchorMissing("AggregateOp::new in shard_pipeline")
        bad = []
        two_folds = len(ops) >= 2
        # publication precedes passive release (C03.c), so even without the in-flight merge there is a window with two copies; the merge widens it to the whole write
        if two_folds:
            bad.append(("aggregate-folds-two-copies", "the memtable flow and the segment flow each fold into their own AggregateOp (%s) whose partials are added: while a rotated memtable is still in its passive buffer and its segment is %s, COUNT / TOTAL see every event of it twice" % (sorted(ops), "already scanned as in-flight or published" if merged else "published"), None))
        return bad
    ctx.run("C03.j", "K11 SIB", "shard_pipeline: memtable flow vs segment flow (aggregates)", "an aggregate folds each event once although two sources hold it during a flush", j_)
