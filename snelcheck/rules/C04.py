"""C04 — REPLAY returns a context's events in append order: write-side order preservation + an order is requested."""
from .util import *
from ..callgraph import CallGraph

EXPLANATION = """
Decides (order-preservation effect analysis): a fixed list of order-disturbing operations (sort*, reverse, swap, rotate, swap_remove, Vec::insert, dedup, rayon par_iter/par_sort)
must not be applied to event sequences between the per-context bucket and the rows written.
a) MemTable::insert_internal appends to the context bucket with push only.
b) no order-disturbing operation on a slice/Vec of Event is reachable from Flusher::flush (positive control: Event::order_by contains such operations).
c) MemTable::iter / take expose the BTreeMap buckets unchanged (no re-ordering adapters).
e) the Query command that REPLAY is converted to requests ORDER BY event_id ascending (with order_by None the pipeline uses unordered fan-in mergers and concurrently produced flows arrive in completion order), is scoped to the context and carries no limit/offset/where/aggregate.
Noted, not armed: zone_merger::HeapItem::cmp compares context_id only, so equal contexts from different input segments are interleaved during compaction (reproduced: rows come back 1,5,2,6,…); since REPLAY orders by event id this no longer affects C04, and QUERY promises no order without ORDER BY.
Not decided: that a requested order equals append order for every history (value level); routing stability is C12.a.
"""
FLOOR = 6
REQUIRED = ["C04.a", "C04.b", "C04.c", "C04.e", "C04.f", "C04.g"]

ORDER_OPS = re.compile(r"(slice::(sort\w*|reverse|swap|rotate_\w+|select_nth\w*)|Vec::(swap_remove|insert|dedup\w*)|VecDeque::(push_front|swap_remove\w*)|rayon::.*par_\w+|ParallelIterator\w*|BinaryHeap::\w+)$")


def order_ops_on_events(body):
    out = []
    for c in body.calls:
        if c.cleanup or not ORDER_OPS.search(c.nname) or not c.args:
            continue
        pl = c.args[0].get("m") or c.args[0].get("c")
        ty = body.local_ty(pl[0]) if pl else ""
        if "event::Event" in ty:
            out.append(c)
    return out


def run(ctx):
    F = ctx.F

    def a(inst):
        b = F.fn("MemTable::insert_internal")
        pushes = calls(b, r"Vec::push$", 1, 1)
        inst.sites = [sp(b, pushes[0].bb)]
        bad = []
        L = b.origins(pushes[0].args[0])
        if not any(l[0] == "call" and ("or_default" in l[1] or "or_insert" in l[1]) for l in L):
            bad.append(("push-target", "push does not go to the context's bucket (%s)" % fmt_leaves(L), None))
        ent = one(b, r"BTreeMap::entry$|HashMap::entry$")
        Lk = b.origins(ent.args[1])
        if not has_origin(Lk, "param", "event", proj_contains=[".context_id"]):
            bad.append(("bucket-key", "bucket is not keyed by the event's context_id (%s)" % fmt_leaves(Lk), None))
        for c in b.calls:
            if c.cleanup:
                continue
            if re.search(r"Vec::(insert|swap_remove|dedup\w*|retain\w*|truncate|clear|remove)$|slice::(sort\w*|reverse|swap|rotate\w*)$", c.nname):
                bad.append(("bucket-op:%s" % c.nname.split("::")[-1], "insert_internal applies %s to the bucket (append order not preserved)" % c.nname, None))
        return bad
    ctx.run("C04.a", "K4 EFFECT", "MemTable::insert_internal", "events are appended to their context's bucket", a)

    def b_(inst):
        cg = CallGraph(F)
        root = "engine::core::write::flusher::Flusher::flush"
        roots = cg.closure_family(root)
        if root not in cg.nodes:
            raise AnchorMissing(root)
        seen = cg.reachable(roots)
        local = [k for k in seen if k in cg.nodes]
        bad = []
        n_calls = 0
        FRESH = re.compile(r"(slice::to_vec|Clone>::clone|ToOwned>::to_owned|Iterator::collect|Vec::with_capacity|Vec::new)$")
        ALLOWED_COPY_SORTERS = {"engine::core::event::event::Event::order_by"}   # sorts a private copy (`events.to_vec()`), machine-checked below
        for k in local:
            if not any(t and ORDER_OPS.search(norm_path(t)) for t in cg.edges[k]):
                continue
            body = F.fn_exact(k)
            for c in order_ops_on_events(body):
                n_calls += 1
                L = body.origins(c.args[0])
                fresh = all(l[0] == "call" and FRESH.search(norm_path(l[1])) for l in L)
                base = k.split("::{closure")[0]
                if fresh and base in ALLOWED_COPY_SORTERS:
                    inst.sites.append("%s: %s on a private copy (%s)" % (norm_path(base), c.nname.split("::")[-1], fmt_leaves(L)))
                    continue
                bad.append(("order-op:%s:%s" % (norm_path(base), c.nname.split("::")[-1]),
                            "%s applies %s to a sequence of events on the flush path (%s; receiver origin %s)" % (k, c.nname, c.sp, fmt_leaves(L)), cg.chain(seen, k)))
        # a sorted copy may only be inspected (first/last/len), never handed on, by its callers on the flush path
        for srt in ALLOWED_COPY_SORTERS:
            for k in cg.callers(srt):
                if k not in seen:
                    continue
                body = F.fn_exact(k)
                for c in body.find_calls(r"Event::order_by$"):
                    dl = c.dest[0]
                    for u in body.calls:
                        if u.cleanup or u is c:
                            continue
                        for a_ in u.args:
                            if dl in body._origin_locals(a_):
                                if not re.search(r"(slice::(first|last|len|is_empty|iter)|Deref>::deref|Vec::(len|is_empty)|Option::unwrap)$", u.nname):
                                    bad.append(("sorted-copy-escapes:%s:%s" % (norm_path(k.split("::{closure")[0]), u.nname.split("::")[-1]),
                                                "%s passes a re-ordered copy of the events to %s" % (k, u.nname), None))
                    inst.sites.append("%s uses order_by result only for inspection" % norm_path(k))
        # positive control: the detector sees the sorts in Event::order_by
        pc = F.fn("event::event::Event::order_by")
        if not order_ops_on_events(pc):
            raise AnchorMissing("positive control: order ops in Event::order_by not detected")
        inst.detail = "bodies reachable from Flusher::flush: %d (crate-local %d); positive control hits in Event::order_by: %d" % (len(seen), len(local), len(order_ops_on_events(pc)))
        # the flush path itself must still reach the planner and writer (otherwise the sweep is vacuous)
        for need in ("engine::core::zone::zone_plan::ZonePlan::build_all", "engine::core::zone::zone_writer::ZoneWriter::<'a>::write_all"):
            if need not in seen:
                raise AnchorMissing("flush no longer reaches %s" % need)
        return bad
    ctx.run("C04.b", "K4 EFFECT", "Flusher::flush (call-graph sweep)", "flush writes each context's events in bucket order", b_)

    def c(inst):
        bad = []
        for nm in ("MemTable::iter", "MemTable::take"):
            b = F.fn(nm)
            fam = [b] + [F.fn_exact(k) for k in F.find("^" + re.escape(b.key) + r"::\{closure")]
            for bb_ in fam:
                for c_ in bb_.calls:
                    if not c_.cleanup and re.search(r"Iterator::(rev|step_by|skip|take|filter\w*)$|slice::(sort\w*|reverse)$|par_", c_.nname):
                        bad.append(("iter-adapter:%s" % c_.nname.split("::")[-1], "%s re-orders or drops events (%s)" % (nm, c_.nname), None))
            inst.sites.append("%s: %s" % (nm, sorted({c_.nname.split("::")[-1] for c_ in b.calls if not c_.cleanup})))
        return bad
    ctx.run("C04.c", "K4 EFFECT", "MemTable::iter / take", "memtable iteration preserves bucket order", c)

    def e(inst):
        b = F.fn("Command::to_query_command")
        ag = b.aggregates("command::types::Command", "Query")
        if len(ag) != 1:
            raise AnchorMissing("Command::Query aggregate in to_query_command (%d)" % len(ag))
        bb, j, v, _ = ag[0]
        bad = []
        L = b.origins(v["o"][v["fields"].index("order_by")])
        inst.sites = ["order_by <- %s" % fmt_leaves(L)]
        if any(l[0] == "agg" and l[1].endswith("Option::None") for l in L) or not L:
            bad.append(("replay-unordered", "REPLAY is executed as a Query with order_by: None — flows from memtable, passive buffers and segments are merged in completion order", None))
        else:
            specs = b.aggregates("command::types::OrderSpec")
            if len(specs) != 1:
                bad.append(("replay-order-spec", "REPLAY's order is not a single OrderSpec literal", None))
            else:
                _, _, sv, _ = specs[0]
                fld = str_consts(b, sv["o"][sv["fields"].index("field")])
                desc = sv["o"][sv["fields"].index("desc")].get("k")
                inst.sites.append("OrderSpec { field: %s, desc: %s }" % (sorted(fld), desc))
                if fld != {"event_id"} or desc != "false":
                    bad.append(("replay-order-key", "REPLAY is ordered by %s desc=%s; append order within a context is ascending event_id" % (sorted(fld), desc), None))
        Lc = b.origins(v["o"][v["fields"].index("context_id")])
        if not any(l[0] == "agg" and l[1].endswith("Option::Some") for l in Lc):
            bad.append(("replay-unscoped", "REPLAY query is not scoped to the context (%s)" % fmt_leaves(Lc), None))
        for f in ("limit", "offset", "where_clause", "aggs", "group_by", "event_sequence"):
            Lf = b.origins(v["o"][v["fields"].index(f)])
            if not all(l[0] == "agg" and l[1].endswith("Option::None") for l in Lf):
                bad.append(("replay-narrowed:%s" % f, "REPLAY query carries %s (%s): rows could be dropped" % (f, fmt_leaves(Lf)), None))
        return bad
    ctx.run("C04.e", "K7 PROV", "Command::to_query_command", "REPLAY requests an order and is scoped to exactly the context", e)

    def f_(inst):
        """A shard answers an ordered read (REPLAY = ORDER BY event_id) from two flows, memtable and segments. `Everything on disk is
        older than everything in memory` is false after a failed flush (its rows stay in a passive buffer while later rows reach a
        segment). On the ordered arm of ShardFlowMerger::merge the output sender may therefore go to the heap merge
        (OrderedStreamMerger::spawn) only - never to a task that forwards the flows back to back."""
        bad = []
        b = F.fn("streaming::merger::ShardFlowMerger::merge")
        ob = one(b, r"QueryPlan::order_by_for_shard_level$")
        ch = one(b, r"FlowChannel::bounded$")
        sp_ = [c for c in b.calls if not c.cleanup and c.nname.endswith("ordered_merger::OrderedStreamMerger::spawn")]
        if not sp_:
            raise AnchorMissing("OrderedStreamMerger::spawn in ShardFlowMerger::merge")
        some = variant_edge(b, ob, "Some")
        region = set()
        for e in some:
            region |= edge_dominated(b, e)
        tx = {l for l, proj in b.flow_forward(ch.dest) if True}
        # the sender half: locals that reach a spawn argument
        sender = set()
        for c in sp_:
            for a_ in c.args:
                sender |= b._origin_locals(a_) & tx
        if not sender:
            raise AnchorMissing("the output sender handed to OrderedStreamMerger::spawn")
        inst.sites = [sp(b, ob.bb)] + [sp(b, c.bb) for c in sp_]
        for i_ in sorted(region):
            for st in b.blocks[i_]["s"]:
                v = st.get("v")
                if v and v.get("r") == "agg" and v.get("ak") in ("closure", "coroutine"):
                    if any((b._origin_locals(o) & sender) for o in v.get("o", [])):
                        bad.append(("ordered-flows-forwarded-unmerged", "on its ordered arm ShardFlowMerger::merge hands the output sender to a task of its own (%s) instead of the heap merge: the flows are forwarded one after the other, which is the requested order only if every row on disk sorts before every row in memory" % (v.get("def") or "closure").split("::")[-1], sp(b, i_)))
            t = b.blocks[i_]["t"]
            if t["t"] == "call":
                c = b.call_at(i_)
                if c is not None and not c.cleanup and c not in sp_ and not re.search(r"mem::drop$|Clone>::clone$", c.nname) and any(b._origin_locals(a_) & sender for a_ in c.args) and not c.mac:
                    bad.append(("ordered-flows-forwarded-unmerged", "on its ordered arm ShardFlowMerger::merge passes the output sender to %s instead of the heap merge" % c.nname.split("::")[-1], sp(b, i_)))
        seen, out = set(), []
        for x in bad:
            if x[0] not in seen:
                seen.add(x[0]); out.append(x)
        return out
    ctx.run("C04.f", "K7 PROV", "ShardFlowMerger::merge (ordered arm)", "memtable and segment flows of an ordered read are merged by key, never concatenated", f_)

    # noted only
    try:
        h = F.method("HeapItem", "Ord", "cmp")
        reads = set()
        for blk in h.blocks:
            for s in blk["s"]:
                if "v" in s and s["v"]["r"] in ("ref", "use", "cfd"):
                    pl = s["v"].get("p") or (s["v"].get("o") or {}).get("c") or (s["v"].get("o") or {}).get("m")
                    if pl:
                        reads |= {p for p in pl[1:] if isinstance(p, str) and p.startswith(".")}
        ctx.note("zone_merger::HeapItem::cmp reads fields %s (no tie-break after context_id => unstable merge of equal contexts; not armed)" % sorted(reads))
    except AnchorMissing:
        pass

    def g_(inst):
        # passive buffers are read oldest-first: the set's vector keeps insertion order
        bad, n = [], 0
        REORDER = re.compile(r"Vec::(swap_remove|insert|dedup\w*)$|slice::(swap|sort\w*|reverse|rotate_\w+|select_nth\w*)$|VecDeque::(push_front|swap_remove_\w+|rotate_\w+)$|Iterator::rev$|par_")
        for k in F.keys():
            if k.startswith("bin:") or "_test" in k or "::tests::" in k or "memory::passive_buffer_set::PassiveBufferSet::" not in k:
                continue
            b = F.fn_exact(k)
            n += 1
            for c_ in b.calls:
                if not c_.cleanup and REORDER.search(c_.nname):
                    short = k.split("PassiveBufferSet::")[-1].split("::{closure")[0]
                    bad.append(("passive-order:%s:%s" % (short, c_.nname.split("::")[-1]), "PassiveBufferSet::%s changes the order of the passive buffers with %s: readers take the buffers in vector order as oldest-first, so a context that spans several passive buffers is replayed out of append order" % (short, c_.nname), sp(b, c_.bb)))
        inst.sites.append("PassiveBufferSet bodies: %d" % n)
        if n < 4:
            raise AnchorMissing("PassiveBufferSet bodies (found %d)" % n)
        return bad
    ctx.run("C04.g", "K4 EFFECT", "PassiveBufferSet::*", "the passive buffers stay in rotation order (oldest first)", g_)
