"""C05 — compaction changes layout, never content: structural clauses."""
from .util import *
from ..callgraph import CallGraph

EXPLANATION = """
Decides structural clauses necessary for C05; does not decide multiset equality of content nor crash points inside a run.
a) CompactionWorker::process_batch: CompactionHandover::commit_batch only after MultiUidCompactor::run returned Ok.
b) commit_batch: the flush lock is acquired before SegmentIndex::load and held across SegmentIndex::save; save is preceded by the output-directory exists() check
   (error return otherwise) and by all retire_uid_from_labels / insert_entry calls; segment_ids update and cache invalidation only after save returned Ok.
   Sibling: SegmentIndexBuilder::add_segment_entry holds the same lock across load..save.
c) CompactionWorker::run: schedule_reclaim only after the batch loop, which is left early only by error return.
d) compactor and worker take the output id from batch.uid_plans[0].output_segment_id; compact_uid writes into the output dir passed down from run (shard_dir.join(dir_name(output id)));
   nothing reachable from ZoneCursorLoader::load_all mutates the file system.
e) who-may-delete: only move_to_reclaim removes segment directories (remove_dir_all); its only caller chain is schedule_reclaim <- CompactionWorker::run.
b3) the labels removed from the live segment list are exactly the labels reported as drained (returned to the caller for reclaim and used for cache invalidation): an input that still holds other
   event types stays live.
g) MultiUidCompactor::run: every uid plan of the batch either yields a result or fails the whole run (no iteration is skipped), because process_batch registers and retires every uid of the batch.
h) ZoneMerger::{next_row,next_zone}: a cursor that still has rows after being popped (peek_context_id is Some) is always pushed back onto the heap before the next pop or return.
f) the read path's decision "does segment s hold uid u" must consult the segment index's uid list rather than probe for leftover files.
i) labels are re-used (the compaction policy re-seeds its allocator from the labels that exist), so whatever a process-wide cache holds for a retired label must be dropped at hand-over: every cache type in
   read::cache that offers invalidate_segment(label) is reached from CompactionHandover::invalidate_caches, through an adapter wired in CompactionHandover::new or directly (a cache with the method that
   nobody calls keeps serving the retired segment's xor filters / enum bitmaps for the new segment of the same label).
j) each invalidate_segment selects keys by a test that can match its own key shape: a key holding the FILE path <shard>/<label>/<file> matches the label as a path component only through parent()
   (Path::ends_with(label) on a file path is never true - the invalidation is a no-op), a substring or a segment-id comparison matches either shape.
k) every MergePlan gets an output id of its own: the output_segment_id of each MergePlan built by KWayCountPolicy::plan is the result of a RangeAllocator::next_for_level call made for that plan
   (not a value remembered per chunk position or per level): plans over different input sets that share an output id write into one directory, replace each other's index entry and list the label twice.
l) ZoneCursorLoader::load_all (the compactor's reader) processes every planned input or fails: no iteration of the loop over the input segments returns to the loop header without having walked
   that segment's zones (a `continue` on a load error merges the readable inputs only, and the hand-over then retires - and reclaims - the unreadable one as well).
m) a read that planned with the old live list may still be running when the hand-over's reclaim removes the retired directories (nothing makes reclaim wait for readers); the loader must
   then FAIL the read, not answer it: ColumnLoader::read_column_for_zone may not turn a load error into an empty column (rows with NULL cells / half the COUNT are returned as a normal answer).
Not decided: content equality, behaviour after a crash inside a run, a read that re-loads a retired label between invalidation and reclaim.
"""
FLOOR = 19
REQUIRED = ["C05.a", "C05.b1", "C05.b2", "C05.b3", "C05.c", "C05.d", "C05.e", "C05.f", "C05.g", "C05.h", "C05.i", "C05.j", "C05.k", "C05.l", "C05.m", "C05.n", "C05.o", "C05.p", "C05.q"]


def run(ctx):
    F = ctx.F

    def a(inst):
        b = F.fn("CompactionWorker::process_batch")
        rn = one(b, r"MultiUidCompactor::run$")
        cm = one(b, r"CompactionHandover::commit_batch$")
        inst.sites = [sp(b, rn.bb), sp(b, cm.bb)]
        es = [e for (e, v) in ok_edges(b, rn) if v == "Continue"]
        if not es:
            return [("compactor-error-ignored", "the compactor's result is not propagated before the handover", None)]
        if not any(b.dominates_edge(e, cm.bb) for e in es):
            return [("commit-after-failed-compaction", "commit_batch reachable although MultiUidCompactor::run failed", None)]
        # new entry id = uid_plans[0].output_segment_id
        return []
    ctx.run("C05.a", "K1 DOM", "CompactionWorker::process_batch", "inputs are retired only after the compactor succeeded", a)

    def b1(inst):
        b = F.fn("CompactionHandover::commit_batch")
        lk = one(b, r"tokio::sync::Mutex::lock$")
        ld = one(b, r"SegmentIndex::load$")
        sv = one(b, r"SegmentIndex::save$")
        ex = calls(b, r"Path::exists$", 1)
        ret = calls(b, r"SegmentIndex::retire_uid_from_labels$", 1)
        ins = calls(b, r"SegmentIndex::insert_entry$", 1)
        wr = one(b, r"RwLock::write$")
        inv = one(b, r"CompactionHandover::invalidate_caches$")
        inst.sites = [sp(b, x.bb) for x in [lk, ld] + ex + ret + ins + [sv, wr, inv]]
        bad = []
        if not has_origin(b.origins(lk.args[0]), "param", "self", proj_contains=[".flush_lock"]) and not has_origin(b.origins(lk.args[0]), "upvar", "self"):
            L = b.origins(lk.args[0])
            if not has_origin(L, None, proj_contains=[".flush_lock"]):
                bad.append(("other-lock", "commit_batch locks something else than the flush lock (%s)" % fmt_leaves(L), None))
        bad += held_guard_violations(b, lk, [ld.bb, sv.bb] + [x.bb for x in ret + ins])
        sve = [e for (e, v) in ok_edges(b, sv) if v == "Continue"]
        if not sve:
            bad.append(("save-unchecked", "index save result is not propagated", None))
        # exists() false => error return: save must not be reachable from the false edge of exists
        for x in ex:
            fe = bool_result_edge(b, x, False)
            seen = b.reach(0, src_edges=fe)
            if sv.bb in seen:
                bad.append(("save-without-output-dir", "index is saved although an output segment directory does not exist", witness_path(b, seen, sv.bb)))
            if not b.can_reach(x.bb, sv.bb):
                bad.append(("exists-after-save", "output directory check does not precede the index save", None))
        for x in ret + ins:
            if b.can_reach(sv.bb, x.bb):
                bad.append(("mutation-after-save:%s" % x.nname.split("::")[-1], "index mutated after it was saved (two-step swap)", None))
            if not b.can_reach(x.bb, sv.bb):
                bad.append(("mutation-not-saved:%s" % x.nname.split("::")[-1], "index mutation never reaches save", None))
        nxs = loop_nexts(b, lambda L: has_origin(L, None, proj_contains=[".uid_plans"]))
        nxs = [n_ for n_ in nxs if any(b.can_reach(n_.bb, x.bb) and b.can_reach(x.bb, n_.bb) for x in ret)]
        if not nxs:
            raise AnchorMissing("loop over batch.uid_plans around retire_uid_from_labels")
        w_ = skipped_iteration(b, nxs[0], [x.bb for x in ret])
        if w_:
            bad.append(("uid-not-retired", "a uid of the batch can be left un-retired in its inputs while the output segment is registered for it (rows readable from both)", w_))
        for tgt, nm in ((wr, "segment_ids update"), (inv, "cache invalidation")):
            if not any(b.dominates_edge(e, tgt.bb) for e in sve):
                bad.append(("publish-before-save:%s" % nm, "%s not dominated by a successful index save" % nm, None))
        return bad
    ctx.run("C05.b1", "K5 HELD + K1", "CompactionHandover::commit_batch", "index swap is one load-modify-save under the flush lock, after outputs exist; publication after save", b1)

    def b2(inst):
        b = F.fn("SegmentIndexBuilder::add_segment_entry")
        lk = one(b, r"tokio::sync::Mutex::lock$")
        ld = one(b, r"SegmentIndex::load$")
        sv = one(b, r"SegmentIndex::save$")
        ins = one(b, r"SegmentIndex::insert_entry$")
        inst.sites = [sp(b, x.bb) for x in (lk, ld, ins, sv)]
        bad = held_guard_violations(b, lk, [ld.bb, ins.bb, sv.bb])
        L = b.origins(lk.args[0])
        if not has_origin(L, None, proj_contains=[".flush_coordination_lock"]):
            bad.append(("other-lock", "add_segment_entry locks something else than the flush coordination lock (%s)" % fmt_leaves(L), None))
        # Ok only after save succeeded
        okagg = [bb for (bb, j, v, _) in b.aggregates("result::Result", "Ok")]
        err = [e for i, si in result_switches(b, sv) for e in [(i, t) for t in edges_for_variant(si, "Err")]]
        for e in err:
            seen = b.reach(0, src_edges=[e])
            if any(o in seen for o in okagg):
                bad.append(("ok-after-failed-save", "add_segment_entry returns Ok although saving the index failed", None))
        return bad
    ctx.run("C05.b2", "K5 HELD", "SegmentIndexBuilder::add_segment_entry", "flush-side index update holds the same lock across load..save", b2)

    def b3(inst):
        b = F.fn("CompactionHandover::commit_batch")
        ret = one(b, r"Vec::retain$")
        inv = one(b, r"CompactionHandover::invalidate_caches$")
        oks = [(bb, v) for (bb, j, v, dst) in b.aggregates("result::Result", "Ok") if dst == [0]]
        if not oks:
            raise AnchorMissing("Ok(drained) return")
        bad = []
        # locals the returned value / invalidation argument derive from
        ret_locals = set()
        for bb, v in oks:
            ret_locals |= deep_locals(b, v["o"][0])
        inv_locals = deep_locals(b, inv.args[1])
        # the retain closure captures the set of retired labels: origin locals of the closure's captured operands
        cl = None
        for l in b.origins(ret.args[1]):
            if l[0] == "agg" and l[1].startswith("closure:"):
                for (bb, j, v, dst) in [(bb_, j_, v_, d_) for bb_ in b.live_blocks() for j_, s_ in enumerate(b.blocks[bb_]["s"]) if "v" in s_ for v_, d_ in [(s_["v"], s_["a"])] if v_["r"] == "agg" and v_.get("ak") == "closure" and ("closure:" + v_["def"]) == l[1]]:
                    cl = v
        if cl is None:
            raise AnchorMissing("retain closure")
        srcs = set()
        for o in cl["o"]:
            srcs |= deep_locals(b, o)
        names = {b.local_name(x) for x in srcs} - {None}
        inst.sites = [sp(b, ret.bb), "retained-out set derives from locals %s" % sorted(names)]
        common = (srcs & ret_locals)
        if not common:
            bad.append(("live-list-vs-drained", "the labels removed from the live segment list (%s) are not the drained labels returned for reclaim (%s): a partially drained input disappears for the event types it still holds"
                        % (sorted(names), sorted({b.local_name(x) for x in ret_locals} - {None})), None))
        if not (ret_locals & inv_locals):
            bad.append(("invalidate-vs-drained", "cache invalidation is applied to other labels than the drained ones", None))
        return bad
    ctx.run("C05.b3", "K7 PROV", "CompactionHandover::commit_batch", "only fully drained inputs leave the live list", b3)

    def g(inst):
        b = F.fn("MultiUidCompactor::run")
        cu = one(b, r"MultiUidCompactor::compact_uid$")
        ins = one(b, r"HashMap::insert$")
        nxs = [c for c in for_headers(b) if has_origin(b.origins(c.args[0], transparent=NEXT_TRANSPARENT), None, proj_contains=[".uid_plans"])]
        if not nxs:
            raise AnchorMissing("loop over batch.uid_plans")
        nx = nxs[0]
        inst.sites = [sp(b, nx.bb), sp(b, cu.bb), sp(b, ins.bb)]
        some = variant_edge(b, nx, "Some")
        seen = b.reach(0, src_edges=some, cut_blocks=[ins.bb])
        bad = []
        if nx.bb in seen:
            bad.append(("uid-skipped", "an event type of the batch can be skipped (no result, no error) while the hand-over retires it from the inputs: its rows end up nowhere", witness_path(b, seen, nx.bb)))
        okret = [bb for (bb, j, v, dst) in b.aggregates("result::Result", "Ok") if dst == [0]]
        none = variant_edge(b, nx, "None")
        for o in okret:
            L = b.origins(b.blocks[o]["s"][-1]["v"]["o"][0]) if False else None
        return bad
    ctx.run("C05.g", "K9 LOOP", "MultiUidCompactor::run", "every event type of a batch is compacted or the batch fails", g)

    def h(inst):
        bad = []
        for nm in ("ZoneMerger::next_row", "ZoneMerger::next_zone"):
            b = F.fn(nm)
            pops = b.find_calls(r"BinaryHeap::pop$")
            pushes = b.find_calls(r"BinaryHeap::push$")
            peeks = b.find_calls(r"ZoneCursor::peek_context_id$")
            if not pops or not pushes or not peeks:
                raise AnchorMissing("%s: pop/push/peek (%d/%d/%d)" % (nm, len(pops), len(pushes), len(peeks)))
            inst.sites += [sp(b, x.bb) for x in pops + peeks + pushes]
            tested = 0
            for pk in peeks:
                for i, si in result_switches(b, pk):
                    for t in edges_for_variant(si, "Some"):
                        tested += 1
                        seen = b.reach(0, src_edges=[(i, t)], cut_blocks=[p.bb for p in pushes])
                        tgt = [x for x in b.exits() if x in seen] + [p.bb for p in pops if p.bb in seen]
                        if tgt:
                            bad.append(("cursor-not-requeued:%s" % nm.split("::")[-1], "%s: a cursor that still has rows can be left off the heap: its remaining rows never reach the compacted segment" % nm, witness_path(b, seen, tgt[0])))
            if not tested:
                bad.append(("requeue-untested:%s" % nm.split("::")[-1], "%s never branches on `cursor has more rows` (peek_context_id) to re-queue it" % nm, None))
        return bad
    ctx.run("C05.h", "K9 LOOP", "ZoneMerger::next_row / next_zone", "the k-way merge never abandons a non-empty cursor", h)

    def c(inst):
        b = F.fn("CompactionWorker::run")
        pb = one(b, r"CompactionWorker::process_batch$")
        sr = one(b, r"CompactionHandover::schedule_reclaim$")
        inst.sites = [sp(b, pb.bb), sp(b, sr.bb)]
        bad = []
        if b.can_reach(sr.bb, pb.bb):
            bad.append(("reclaim-inside-loop", "schedule_reclaim is inside the batch loop: inputs of later batches may still be needed / index not final", None))
        # failure of a batch => error return without reclaim
        brk = [e for i, si in result_switches(b, pb) for e in [(i, t) for t in edges_for_variant(si, "Break")]]
        if not brk:
            bad.append(("batch-error-ignored", "process_batch errors are not propagated", None))
        for e in brk:
            if sr.bb in b.reach(0, src_edges=[e]):
                bad.append(("reclaim-after-failed-batch", "inputs are reclaimed although a batch failed", None))
        # the reclaimed list is what commit_batch reported drained
        L = b.origins(sr.args[1])
        inst.detail = "reclaim arg: %s" % fmt_leaves(L)
        return bad
    ctx.run("C05.c", "K1/K9", "CompactionWorker::run", "retired inputs are reclaimed only after all batches were committed", c)

    def d(inst):
        bad = []
        r = F.fn("MultiUidCompactor::run")
        p = F.fn("CompactionWorker::process_batch")
        for body, nm in ((r, "MultiUidCompactor::run"), (p, "process_batch")):
            ok = False
            for blk in body.live_blocks():
                for s in body.blocks[blk]["s"]:
                    if "a" in s and s["v"]["r"] == "use":
                        pl = s["v"]["o"].get("c") or s["v"]["o"].get("m")
                        if pl and ".output_segment_id" in pl:
                            L = body.origins(pl)
                            for l in L:
                                if l[0] == "call" and norm_path(l[1]).endswith("Index>::index"):
                                    ic = body.call_at(l[2])
                                    if has_origin(body.origins(ic.args[0]), None, proj_contains=[".uid_plans"]) and (ic.args[1].get("k") or "").startswith("0"):
                                        ok = True
                                        inst.sites.append("%s: output id <- batch.uid_plans[0].output_segment_id" % nm)
            if not ok:
                bad.append(("output-id-origin:%s" % nm, "%s does not take the output id from batch.uid_plans[..].output_segment_id" % nm, None))
        cu = one(r, r"MultiUidCompactor::compact_uid$")
        Lo = r.origins(cu.args[3])
        if not any(l[0] == "call" and norm_path(l[1]).endswith("Path::join") for l in Lo):
            bad.append(("output-dir-origin", "compact_uid is not given shard_dir.join(output label) (%s)" % fmt_leaves(Lo), None))
        mk = one(r, r"fs::create_dir_all$")
        if not (r._origin_locals(mk.args[0]) & r._origin_locals(cu.args[3])):
            bad.append(("mkdir-other-dir", "directory created is not the output dir handed to compact_uid", None))
        c = F.fn("MultiUidCompactor::compact_uid")
        zw = one(c, r"ZoneWriter::new$")
        Lw = c.origins(zw.args[1])
        if not (has_origin(Lw, "upvar", "output_dir") or has_origin(Lw, "param", "output_dir")):
            bad.append(("writer-dir", "ZoneWriter in compact_uid does not write into output_dir (%s)" % fmt_leaves(Lw), None))
        ld = one(c, r"ZoneCursorLoader::new$")
        Ll = c.origins(ld.args[3])
        if not has_origin(Ll, None, proj_contains=[".input_dir"]):
            bad.append(("loader-dir", "ZoneCursorLoader does not read from input_dir (%s)" % fmt_leaves(Ll), None))
        # loading inputs is write-free
        cg = CallGraph(F)
        roots = cg.closure_family("engine::core::zone::zone_cursor_loader::ZoneCursorLoader::load_all")
        if not roots:
            raise AnchorMissing("ZoneCursorLoader::load_all")
        seen = cg.reachable(roots)
        for k in seen:
            if k in cg.nodes:
                for leaf in fs_mut_leaves(cg, k):
                    bad.append(("input-mutation:%s:%s" % (norm_path(k.split("::{closure")[0]), norm_path(leaf)), "loading compaction inputs reaches %s in %s" % (leaf, k), cg.chain(seen, k)))
        # positive control for the leaf detector
        pc = cg.reachable(cg.closure_family("engine::core::write::flusher::Flusher::flush"))
        if not any(fs_mut_leaves(cg, k) for k in pc if k in cg.nodes):
            raise AnchorMissing("positive control: no fs mutation found under Flusher::flush")
        inst.detail = "bodies under load_all: %d" % len(seen)
        return bad
    ctx.run("C05.d", "K7 PROV + K4", "MultiUidCompactor", "compaction writes only into the fresh output directory; reading inputs is write-free", d)

    def e(inst):
        cg = CallGraph(F)
        bad = []
        rm = sorted(k for k in cg.nodes if any(norm_path(t).endswith("fs::remove_dir_all") for t in cg.edges[k]))
        inst.sites = ["remove_dir_all callers: %s" % [norm_path(k) for k in rm]]
        allowed = {"engine::core::compaction::handover::CompactionHandover::move_to_reclaim"}
        seg_rm = []
        for k in rm:
            base = k.split("::{closure")[0]
            if base in allowed:
                seg_rm.append(k)
                continue
            body = F.fn_exact(k)
            for c in body.find_calls(r"fs::remove_dir_all$"):
                L = body.origins(c.args[0])
                txt = fmt_leaves(L)
                if "shard_dir" in txt or "segment" in txt.lower() or "base_dir" in txt:
                    bad.append(("segment-delete:%s" % norm_path(base), "%s removes a directory tree derived from a shard/segment path (%s)" % (k, txt), None))
        if not seg_rm:
            raise AnchorMissing("move_to_reclaim no longer removes directories")
        callers = set()
        for k in cg.callers("engine::core::compaction::handover::CompactionHandover::move_to_reclaim"):
            callers.add(k.split("::{closure")[0])
        inst.sites.append("callers(move_to_reclaim) = %s" % sorted(callers))
        if callers - {"engine::core::compaction::handover::CompactionHandover::schedule_reclaim"}:
            bad.append(("reclaim-caller", "move_to_reclaim called from %s" % sorted(callers), None))
        c2 = {k.split("::{closure")[0] for k in cg.callers("engine::core::compaction::handover::CompactionHandover::schedule_reclaim")}
        inst.sites.append("callers(schedule_reclaim) = %s" % sorted(c2))
        if c2 - {"engine::core::compaction::compaction_worker::CompactionWorker::run"} or not c2:
            bad.append(("schedule-caller", "schedule_reclaim called from %s" % sorted(c2), None))
        return bad
    ctx.run("C05.e", "K4 REACH", "crate call graph", "only the reclaim step deletes segment directories, and only the compaction worker schedules it", e)

    def f(inst):
        b = F.fn("QueryPlan::segment_maybe_contains_uid")
        meta = b.find_calls(r"fs::metadata$|Path::exists$|Path::is_file$|fs::File::open$")
        idx = b.find_calls(r"SegmentIndex|SegmentEntry|uids")
        inst.sites = [sp(b, c.bb) for c in meta]
        if meta and not idx:
            return [("fs-probe", "segment membership of a uid is decided by probing for {uid}.zones on disk, not by the segment index: after a partial drain the retired input's files are still read", None)]
        if not meta and not idx:
            raise AnchorMissing("segment_maybe_contains_uid decides by neither index nor file probe")
        return []
    ctx.run("C05.f", "K4 REACH", "QueryPlan::segment_maybe_contains_uid", "retired (uid, segment) pairs stop being read", f)

    def cache_types():
        ks = [k for k in F.find(r"^engine::core::read::cache::.*::invalidate_segment$") if not k.startswith("bin:")]
        if len(ks) < 5:
            raise AnchorMissing("cache types with invalidate_segment in read::cache (%d, confirmed 7)" % len(ks))
        return ks

    def i_(inst):
        from ..callgraph import CallGraph
        cg = CallGraph(F)
        inv = F.fn("CompactionHandover::invalidate_caches")
        new = F.fn("CompactionHandover::new")
        reach = cg.reachable([inv.key])
        wired = {c_.nname.rsplit("::", 1)[0] for B in (inv, new) for c_ in B.calls if not c_.cleanup and c_.nname.endswith("::instance")}
        bad = []
        for k in sorted(cache_types()):
            ty = k.rsplit("::", 1)[0]
            short = ty.split("::")[-1]
            ok_reach = k in reach
            ok_wired = any(w.endswith(short) for w in wired)
            inst.sites.append("%s: reached=%s wired=%s" % (short, ok_reach, ok_wired))
            if not (ok_reach and ok_wired):
                bad.append(("cache-not-invalidated:%s" % short, "%s offers invalidate_segment but the compaction hand-over never calls it for the retired labels: after the label is re-used its entries are served for the new segment" % short, None))
        return bad
    ctx.run("C05.i", "K6 TABLE", "CompactionHandover::invalidate_caches vs read::cache::*::invalidate_segment", "every per-segment process-wide cache is invalidated at hand-over", i_)

    def j_(inst):
        bad = []
        n = 0
        for k in sorted(cache_types()):
            ty = k.rsplit("::", 1)[0]
            short = ty.split("::")[-1]
            fam = [F.fn_exact(k)] + [F.fn_exact(x) for x in F.find("^" + re.escape(k) + r"::\{closure")]
            # predicates factored out into helpers of the same module (`fn belongs_to_segment(key, label)`), two levels
            mod_ = k.rsplit("::", 2)[0]
            for _ in range(2):
                for B in list(fam):
                    for c_ in B.calls:
                        if not c_.cleanup and c_.callee and F.has(c_.callee) and c_.callee.startswith(mod_) and not any(f_.key == c_.callee for f_ in fam):
                            fam.append(F.fn_exact(c_.callee))
                            fam += [F.fn_exact(x) for x in F.find("^" + re.escape(c_.callee) + r"::\{closure")]
            pe = [(B, c_) for B in fam for c_ in B.calls if not c_.cleanup and re.search(r"path::Path::ends_with$", c_.nname)]
            if not pe:
                inst.sites.append("%s: no path-component test" % short)
                continue
            n += 1
            # key shape: what is joined last when the key's path is built (get_or_load)
            shape = None
            for gk in F.find("^" + re.escape(ty) + r"::(get_or_load|get|insert|load)\w*$"):
                G = F.fn_exact(gk)
                for c_ in G.find_calls(r"path::Path::join$|PathBuf::join$"):
                    # the last join: its result is not the receiver of another join
                    if any(c2.bb != c_.bb and c_.dest[0] in deep_locals(G, c2.args[0]) for c2 in G.find_calls(r"path::Path::join$|PathBuf::join$")):
                        continue
                    L = G.origins(c_.args[1])
                    if any(l[0] == "call" and re.search(r"fmt::format$|must_use$", norm_path(l[1])) for l in L) or any(l[0] == "const" and "." in l[1] for l in L):
                        shape = "file"
                    elif any(l[0] == "param" for l in L):
                        shape = shape or "dir"
            for B, c_ in pe:
                via_parent = any(x.nname.endswith("Path::parent") for x in B.calls if not x.cleanup and x.dest and x.dest[0] in wide_all(B, c_.args[0])) \
                    or any(l[0] == "call" and norm_path(l[1]).endswith("Path::parent") for l in deep_origins(F, B, c_.args[0]))
                inst.sites.append("%s: key=%s path, ends_with%s" % (short, shape, " on parent()" if via_parent else ""))
                if shape != "dir" and not via_parent and not any(x[0] == "predicate-never-matches:%s" % short for x in bad):
                    bad.append(("predicate-never-matches:%s" % short, "%s::invalidate_segment tests key.path.ends_with(label) but the key holds the %s path <label>/<file>: the test is never true and nothing is invalidated" % (short, shape or "?"), None))
        if n < 1:
            inst.sites.append("no cache selects keys by path component")
        return bad
    ctx.run("C05.j", "K11 SIB", "read::cache::*::invalidate_segment vs key construction", "the invalidation predicate can match the cache's own key shape", j_)
    def k_(inst):
        b = F.method("KWayCountPolicy", "CompactionPolicy", "plan")
        ags = b.aggregates("MergePlan")
        if len(ags) < 2:
            raise AnchorMissing("MergePlan aggregates in KWayCountPolicy::plan (%d, confirmed 2)" % len(ags))
        bad = []
        for (bb, j, v, dst) in ags:
            op = v["o"][v["fields"].index("output_segment_id")]
            L = deep_origins(F, b, op, same_module=True)
            inst.sites.append("%s: output_segment_id <- %s" % (sp(b, bb), fmt_leaves(L)))
            fresh = [l for l in L if l[0] == "call" and norm_path(l[1]).endswith("RangeAllocator::next_for_level")]
            other = [l for l in L if l not in fresh]
            if not fresh or other:
                bad.append(("shared-output-id", "a MergePlan's output id comes from %s rather than from a next_for_level call made for this plan: plans over different inputs can share one output segment" % fmt_leaves(other or L), None))
                continue
            # the allocation happens in the iteration that builds the plan: no loop header between the call and the aggregate other than via the call's own block
            for l in fresh:
                if l[2] < b.n and norm_path(l[1]).endswith("next_for_level"):
                    c_ = b.call_at(l[2])
                    if c_ is not None and c_.nname.endswith("next_for_level"):
                        hs = [h.bb for h in for_headers(b)]
                        seen = b.reach(c_.bb, cut_blocks=hs)
                        if bb not in seen:
                            bad.append(("stale-output-id", "the output id of a MergePlan (%s) is allocated in an earlier loop iteration than the one that builds the plan" % sp(b, bb), None))
        return bad
    ctx.run("C05.k", "K7 PROV", "KWayCountPolicy::plan", "every merge plan writes into a freshly allocated output segment", k_)

    def n_(inst):
        """`Fresh` means fresh on disk, not only fresh in segments.idx: a directory that exists without being indexed (crash between
        writing a segment and publishing it, or a retired segment not reclaimed yet) must not get its id handed out again, or the
        compactor writes a new segment into the old directory. The allocator of the planner is therefore seeded from the index
        labels AND from the directory listing."""
        b = F.method("KWayCountPolicy", "CompactionPolicy", "plan")
        al = one(b, r"RangeAllocator::from_existing_ids$")
        names = set()
        todo = [al.args[0]]
        seen_bb = set()
        locs = wide_all(b, al.args[0])
        for c in b.calls:
            if c.cleanup or not c.dest:
                continue
            if c.dest[0] in locs or (c.args and re.search(r"Extend>::extend$|Vec::push$|Vec::append$|extend_from_slice$", c.nname) and (b._origin_locals(c.args[0]) & locs)):
                names.add(c.nname)
                if re.search(r"Extend>::extend$|Vec::append$|extend_from_slice$", c.nname) and len(c.args) > 1:
                    for l_ in wide_all(b, c.args[1]):
                        for c2 in b.calls:
                            if not c2.cleanup and c2.dest and c2.dest[0] == l_:
                                names.add(c2.nname)
        idx = any(n_.endswith("SegmentIndex::all_labels") for n_ in names)
        disk = any(re.search(r"SegmentIdLoader::load$|fs::read_dir$", n_) for n_ in names)
        inst.sites += [sp(b, al.bb), "allocator seeded from index labels: %s, from the directory listing: %s" % (idx, disk)]
        bad = []
        if not idx:
            bad.append(("allocator-ignores-index", "the planner's id allocator is not seeded from the index labels", sp(b, al.bb)))
        if not disk:
            bad.append(("allocator-ignores-directories", "the planner's id allocator is seeded from segments.idx only: the id of a directory that is on disk but not indexed (crash leftover, retired segment) is handed out again and the compactor writes into it", sp(b, al.bb)))
        return bad
    ctx.run("C05.n", "K7 PROV", "KWayCountPolicy::plan / RangeAllocator::from_existing_ids", "output ids are fresh with respect to the directories on disk", n_)

    def o_(inst):
        """ZoneWriter::write_all appends to the column files but writes the per-uid metadata (.zones, .zfc, .idx, filters, calendars)
        from scratch from the plans it is given. The compactor must therefore hand it ALL merged zones of a uid in ONE call: the call
        is not in a loop, it is the only one, the vector it gets is the one every ZonePlan::from_rows result was pushed into, and
        nothing empties that vector in between."""
        bad = []
        m = F.fn("MultiUidCompactor::compact_uid")
        was = [c for c in m.calls if not c.cleanup and c.nname.endswith("ZoneWriter::write_all")]
        if not was:
            raise AnchorMissing("ZoneWriter::write_all in compact_uid")
        fr = one(m, r"ZonePlan::from_rows$")
        inst.sites = [sp(m, c.bb) for c in was] + [sp(m, fr.bb)]
        if len(was) > 1:
            bad.append(("zones-written-in-pieces", "compact_uid calls ZoneWriter::write_all at %d sites: every call rewrites the uid's zone metadata from scratch, only the last piece survives" % len(was), sp(m, was[1].bb)))
        for w in was:
            if m.can_reach(w.to, w.bb):
                bad.append(("zones-written-in-pieces", "compact_uid calls ZoneWriter::write_all inside a loop: every call rewrites the uid's zone metadata from scratch, only the last piece survives", sp(m, w.bb)))
                break
        w = was[0]
        plans = m._origin_locals(w.args[1])
        pushes = [c for c in m.calls if not c.cleanup and c.nname.endswith("Vec::push") and (m._origin_locals(c.args[0]) & plans)]
        planv = {l for l, _ in m.flow_forward(fr.dest)}
        if not any(wide_all(m, c.args[1]) & planv or m._origin_locals(c.args[1]) & planv for c in pushes):
            bad.append(("plans-not-collected", "the vector handed to write_all is not the one the merged ZonePlans are pushed into", sp(m, w.bb)))
        for c in m.calls:
            if not c.cleanup and re.search(r"Vec::(clear|truncate|drain|pop|split_off|swap_remove|remove)$|mem::take$", c.nname) and c.args and (m._origin_locals(c.args[0]) & plans) and m.can_reach(c.bb, w.bb):
                bad.append(("plans-dropped-before-write:%s" % c.nname.split("::")[-1], "compact_uid removes merged zone plans from the vector (%s) before it is written" % c.nname.split("::")[-1], sp(m, c.bb)))
        return bad
    ctx.run("C05.o", "K9 LOOP + K7", "MultiUidCompactor::compact_uid", "all merged zones of a uid reach the zone writer in one call", o_)

    def p_(inst):
        """A zone in which no event carried an optional field has no block for that column: the cursor holds an empty vector for it.
        ZoneCursor::next_row must not index the payload vectors with the row position unchecked - that panic kills the shard's
        compactor task and the segment is never compacted."""
        bad = []
        b = F.fn("ZoneCursor::next_row")
        fam = [b] + [F.fn_exact(k) for k in F.keys() if k.startswith(b.key.split("::{closure")[0] + "::{closure")]
        n_get = 0
        for f_ in fam:
            pay = any(l[0] in ("param", "upvar") and len(l) > 2 and ".payload_fields" in l[2] for c in f_.calls if not c.cleanup for a_ in c.args for l in f_.origins(a_)) or f_ is not b
            for i_ in sorted(f_.live_blocks()):
                t = f_.blocks[i_]["t"]
                if t["t"] == "assert" and "BoundsCheck" in str(t.get("msg", "")) and f_ is not b:
                    # a closure of next_row: its parameter is an entry of payload_fields
                    bad.append(("payload-vector-indexed-unchecked", "a closure of ZoneCursor::next_row indexes a payload column vector with the row position: a zone without that column (empty vector) panics the compactor", sp(f_, i_)))
            for c in f_.calls:
                if c.cleanup:
                    continue
                if re.search(r"ops::Index.*::index$|SliceIndex.*::index$", c.nname) and f_ is not b:
                    bad.append(("payload-vector-indexed-unchecked", "a closure of ZoneCursor::next_row indexes a payload column vector with the row position: a zone without that column (empty vector) panics the compactor", sp(f_, c.bb)))
                if f_ is not b and re.search(r"slice::.*::get$|Vec.*::get$|slice::get$", c.nname):
                    n_get += 1
        inst.sites.append("%d closure(s) of next_row, %d checked payload reads" % (len(fam) - 1, n_get))
        # de-duplicate
        seen, out = set(), []
        for x in bad:
            if x[0] not in seen:
                seen.add(x[0]); out.append(x)
        return out
    ctx.run("C05.p", "K4 EFFECT", "ZoneCursor::next_row", "a zone without a column of an optional field does not panic the compactor", p_)

    def q_(inst):
        """Segment labels are written by SegmentId::dir_name (zero-padded to AT LEAST five digits: level 10 and above have six) and read
        back by SegmentId::from_str wherever a hand-over retires labels or an allocator is seeded. The reader must accept everything the
        writer produces: from_str puts no condition on the length of the label (a label it refuses is silently never retired, and its
        inputs stay live next to their outputs: aggregates multiply)."""
        bad = []
        b = F.fn("segment::segment_id::SegmentId::from_str")
        fam = [b] + [F.fn_exact(k) for k in F.keys() if k.startswith(b.key + "::{closure")]
        hit = None
        for f_ in fam:
            for i_ in sorted(f_.live_blocks()):
                for st in f_.blocks[i_]["s"]:
                    v = st.get("v") or {}
                    if v.get("r") == "bin" and v.get("op") in ("Eq", "Ne", "Lt", "Le", "Gt", "Ge"):
                        for side in ("a", "b"):
                            if any(l[0] == "call" and re.search(r"str::len$|String::len$|slice::len$", norm_path(l[1])) for l in f_.origins(v[side])):
                                hit = (f_, i_, v.get("op"))
        inst.sites.append("%s: length test on the label: %s" % (sp(b, 0), bool(hit)))
        if hit:
            bad.append(("label-length-restricted", "SegmentId::from_str compares the length of the label (%s): dir_name pads to at least five digits, so the six-digit labels of level 10 and above no longer parse - they are never retired and their rows are counted once per level" % hit[2], sp(hit[0], hit[1])))
        return bad
    ctx.run("C05.q", "K11 SIB", "SegmentId::dir_name / SegmentId::from_str", "every label dir_name writes is a label from_str reads", q_)

    def l_(inst):
        b = F.fn("ZoneCursorLoader::load_all")
        hs = for_headers(b)
        zl = one(b, r"ZoneMeta::load$")
        # the loop over the planned inputs: the for-loop whose body contains the zone-meta load
        seg = [h for h in hs if b.can_reach(h.bb, zl.bb) and b.can_reach(zl.bb, h.bb) and zl.bb not in b.reach(0, cut_blocks=[h.bb])]
        if len(seg) > 1:
            # nested: keep the innermost loop that contains the load (the one every other candidate dominates)
            seg = [h for h in seg if all(h.bb not in b.reach(0, cut_blocks=[o.bb]) for o in seg if o is not h)]
        if len(seg) != 1:
            raise AnchorMissing("the loop over the input segments around ZoneMeta::load in load_all (%d)" % len(seg))
        h = seg[0]
        some = variant_edge(b, h, "Some")
        body_blocks = b.reach(0, src_edges=some, cut_blocks=[h.bb])
        after = b.reach(zl.bb, cut_blocks=[h.bb])
        inner = [x for x in hs if x.bb != h.bb and x.bb in body_blocks and x.bb in after and zl.dest and zl.dest[0] in wide_all(b, x.args[0], partial=False)]
        inner = sorted(inner, key=lambda x: x.bb)[:1]
        if not inner:
            raise AnchorMissing("the loop over the segment's zones in load_all")
        inst.sites = [sp(b, h.bb), sp(b, zl.bb), sp(b, inner[0].bb)]
        bad = []
        w = skipped_iteration(b, h, [x.bb for x in inner])
        if w:
            bad.append(("input-skipped", "load_all can move on to the next planned input without walking this segment's zones (e.g. on a load error): the merged output silently lacks that input, which the hand-over still retires", w))
        return bad
    ctx.run("C05.l", "K9 LOOP", "ZoneCursorLoader::load_all", "the compactor reads every planned input segment or fails", l_)

    def m_(inst):
        b = F.fn("ColumnLoader::read_column_for_zone")
        ld = one(b, r"ColumnReader::load_for_zone_with_cache$")
        inst.sites = [sp(b, ld.bb)]
        # what happens to the Err of the load?
        sw = [c_ for c_ in b.calls if not c_.cleanup and re.search(r"Result::(unwrap_or_else|unwrap_or|unwrap_or_default|ok)$|Result::map_or", c_.nname) and ld.dest and ld.dest[0] in wide_all(b, c_.args[0], partial=False)]
        ret_is_result = "Result" in b.local_ty(0)
        inst.sites.append("load result consumed by %s; function returns %s" % ([c_.nname.split("::")[-1] for c_ in sw] or "?/match", b.local_ty(0)[:60]))
        if sw and not ret_is_result:
            return [("load-error-becomes-values", "ColumnLoader::read_column_for_zone turns a failed column load (%s) into an empty column: a read that overlaps the reclaim of a retired segment answers with NULL cells / missing rows instead of failing" % sw[0].nname.split("::")[-1], None)]
        return []
    ctx.run("C05.m", "K4 EFFECT", "ColumnLoader::read_column_for_zone", "a column that cannot be loaded fails the read instead of becoming values", m_)
