"""C06 — STORE accepts exactly schema-conforming payloads: structural clauses."""
from .util import *
from ..callgraph import CallGraph

EXPLANATION = """
Decides structural clauses necessary for C06; does not decide which JSON values each serde_json predicate accepts nor time-string parseability.
a) store handler: the mailbox send of ShardMessage::Store is dominated by the non-empty tests of event_type and context_id, the Some edge of registry.get(event_type),
   the Ok edge of validate_payload and the Ok edge of PayloadTimeNormalizer::normalize; the stored payload is the normalised copy.
b) ShardMessage::Store is constructed only in the store handler (crate-wide aggregate sweep).
c) type_allows_value has an explicit arm for every FieldType variant (no wildcard); validate_payload returns Ok only after the extra-key check and rejects a type mismatch / missing required field.
d) SchemaRegistry::define and define_async: the AlreadyDefined/EmptySchema returns guard both store.append and register_record; register_record only after append succeeded;
   the define handler answers OK only on the Ok edge; the handler holds the registry's write lock across every call that can reach SchemaStore::append, so the already-defined check and the
   durable append cannot be separated by a concurrent DEFINE (d3).
e) what DEFINE persists, the next start can read back: the schema store's writer refuses a record the reader would refuse - the length limit the reader compares against (a `> CONST` test in
   read_single_record) is also tested in write_record, on the same constant, before the first write.
f) a conforming payload reaches validation: the rule that cuts the JSON payload out of a STORE command skips JSON string literals (the generated __parse_balanced_braces reaches __parse_json_string),
   so braces inside string values do not unbalance it.
"""
FLOOR = 11
REQUIRED = ["C06.a", "C06.b", "C06.c", "C06.d1", "C06.d2", "C06.d3", "C06.e", "C06.f", "C06.g", "C06.h", "C06.i"]


def run(ctx):
    F = ctx.F

    def a(inst):
        b = F.fn("handlers::store::handle")
        if not b.find_calls(r"mpsc::(bounded::)?Sender::send$") and b.find_calls(r"tokio::(task::)?spawn(::spawn)?$"):
            # the hand-over moved into a spawned task: the handler's timeout no longer bounds it
            base = b.key.split("::{closure")[0]
            for k in F.find("^" + re.escape(base) + r"::\{closure#0\}::\{closure#\d+\}"):
                if F.fn_exact(k).find_calls(r"mpsc::(bounded::)?Sender::send$"):
                    return [("send-detached", "the event is handed to the shard from a task detached with tokio::spawn (%s): when the handler's timeout fires the client is told the STORE failed, and the event is stored afterwards all the same" % k.split("::")[-1], None)]
        send = one(b, r"mpsc::(bounded::)?Sender::send$")
        bad = []
        empt = calls(b, r"str::is_empty$", 2)
        get = one(b, r"SchemaRegistry::get$")
        val = one(b, r"handlers::store::validate_payload$")
        nrm = one(b, r"PayloadTimeNormalizer::normalize$")
        inst.sites = [sp(b, x.bb) for x in empt + [get, val, nrm, send]]
        who = {}
        for e in empt:
            L = b.origins(e.args[0], transparent=re.compile(TRANSPARENT.pattern[:-2] + r"|(std|core)::str::<impl str>::trim)$"))
            txt = fmt_leaves(L)
            for f in ("event_type", "context_id"):
                if f in txt:
                    who[f] = e
            fe = bool_result_edge(b, e, False)
            if not any(b.dominates_edge(x, send.bb) for x in fe):
                bad.append(("empty-not-rejected", "an is_empty() test does not guard the send (%s)" % txt, None))
        for f in ("event_type", "context_id"):
            if f not in who:
                bad.append(("no-empty-test:%s" % f, "%s is not tested for emptiness before the send" % f, None))
        for c, v, nm in ((get, "Some", "schema lookup"), (val, "Ok", "validate_payload"), (nrm, "Ok", "time normalisation")):
            es = []
            for i, si in result_switches(b, c):
                for t in edges_for_variant(si, v):
                    es.append((i, t))
            if not es or not any(b.dominates_edge(e, send.bb) for e in es):
                bad.append(("send-without:%s" % nm, "the event is sent to the shard without a successful %s" % nm, None))
        # validate_payload gets the command's payload and the looked-up schema
        Lp = b.origins(val.args[0])
        Ls = b.origins(val.args[1])
        if not any(l[0] == "call" and "SchemaRegistry" in l[1] and l[1].endswith("::get") for l in Ls):
            bad.append(("validate-other-schema", "validate_payload is not given the schema looked up for event_type (%s)" % fmt_leaves(Ls), None))
        Lg = b.origins(get.args[1])
        if "event_type" not in fmt_leaves(Lg):
            bad.append(("lookup-other-type", "schema looked up for something else than the command's event_type (%s)" % fmt_leaves(Lg), None))
        # payload stored = normalised copy
        sp_ = one(b, r"Event::set_payload_json$")
        nl = b._origin_locals(nrm.args[1])
        if not (b._origin_locals(sp_.args[1]) & nl):
            bad.append(("payload-not-normalised", "the stored payload is not the normalised copy", None))
        if not b.dominates_edge((sp_.bb, sp_.to), send.bb):
            bad.append(("send-before-payload", "send not dominated by set_payload_json", None))
        return bad
    ctx.run("C06.a", "K1 DOM + K7", "handlers::store::handle", "every gate precedes the hand-over to the shard", a)

    def b_(inst):
        n = 0
        makers = set()
        for k in F.cg:
            if k.startswith("bin:"):
                continue
            # cheap prefilter on the raw record would need the body; use info: only bodies in command/engine/frontend
            pass
        import json as _json
        # sweep all lib bodies for the aggregate (string prefilter on the raw line keeps it fast)
        fh = open(F.dir + "/bodies.jsonl", "rb")
        for k, (off, ln) in F.idx.items():
            if k.startswith("bin:"):
                continue
            fh.seek(off)
            raw = fh.read(ln)
            if b'ShardMessage","var":"Store"' not in raw:
                continue
            n += 1
            makers.add(k.split("::{closure")[0])
        inst.sites = ["constructors of ShardMessage::Store: %s" % sorted(makers)]
        bad = []
        if "command::handlers::store::handle" not in makers:
            raise AnchorMissing("store handler no longer builds ShardMessage::Store")
        for m in makers - {"command::handlers::store::handle"}:
            bad.append(("second-constructor:%s" % norm_path(m), "%s builds ShardMessage::Store, bypassing validation in the store handler" % m, None))
        return bad
    ctx.run("C06.b", "K4 REACH", "crate-wide aggregate sweep", "events enter a shard only through the validating handler", b_)

    def c(inst):
        b = F.fn("handlers::store::type_allows_value")
        sw = param_enum_switches(b, r"schema::types::FieldType$", "ft")
        if not sw:
            raise AnchorMissing("match on ft")
        i, si = sw[0]
        allv = set(si["vars"].values())
        adt = F.adts.get("engine::schema::types::FieldType")
        if not adt:
            raise AnchorMissing("FieldType ADT")
        declared = {v["n"] for v in adt["variants"]}
        bad = []
        explicit = set(k for k in si["edges"] if k != "else")
        inst.sites = ["FieldType variants %s; explicit arms %s; wildcard gets %s" % (sorted(declared), sorted(explicit), si.get("else_variants"))]
        elsev = set(si.get("else_variants") or [])
        # an `else` edge that is the unreachable block is fine; otherwise it's a wildcard
        if elsev:
            tgt = si["edges"]["else"]
            if b.blocks[tgt]["t"]["t"] != "unreach":
                bad.append(("wildcard-arm", "type_allows_value has a wildcard arm receiving %s" % sorted(elsev), None))
        if declared - explicit - elsev:
            bad.append(("missing-arm", "no arm for %s" % sorted(declared - explicit), None))
        a = arms(b, i)
        for v in explicit:
            if not [c_ for c_ in b.calls if c_.bb in a[v] and not c_.cleanup]:
                bad.append(("arm-without-test:%s" % v, "FieldType::%s is accepted without testing the value" % v, None))
        vp = F.fn("handlers::store::validate_payload")
        okagg = [bb for (bb, j, v, _) in vp.aggregates("result::Result", "Ok") if not v["o"] or True]
        okagg = [bb for (bb, j, v, _d) in vp.aggregates("result::Result", "Ok") if _d == [0]]
        tav = one(vp, r"type_allows_value$")
        fe = bool_result_edge(vp, tav, False)
        for e in fe:
            seen = vp.reach(0, src_edges=[e])
            if any(o in seen for o in okagg):
                bad.append(("mismatch-accepted", "a type mismatch can still reach Ok(())", None))
        diff = one(vp, r"HashSet::difference$")
        emp = [c_ for c_ in vp.find_calls(r"Vec::is_empty$") if vp.can_reach(diff.bb, c_.bb)]
        if not emp:
            raise AnchorMissing("extra-key emptiness test")
        te = bool_result_edge(vp, emp[0], True)
        if not okagg:
            raise AnchorMissing("Ok(()) in validate_payload")
        for o in okagg:
            if not any(vp.dominates_edge(e, o) for e in te):
                bad.append(("extra-keys-unchecked", "validate_payload can return Ok without the extra-key check", None))
        # missing required field: the None arm of obj.get(field) must reach an Err unless the type is Optional
        return bad
    ctx.run("C06.c", "K6 TABLE + K1", "type_allows_value / validate_payload", "every field type has its own acceptance test; extra keys are rejected", c)

    def define(name):
        def f(inst):
            b = F.fn(name)
            app = one(b, r"SchemaStore::append$|store::SchemaStore::append$") if b.find_calls(r"SchemaStore::append$") else None
            regs = b.find_calls(r"SchemaRegistry::register_record$")
            reg_in = None
            if not regs:
                # registration delegated to a helper: the helper's call site is where the schema becomes visible
                for c_ in b.calls:
                    if not c_.cleanup and c_.callee and F.has(c_.callee) and F.fn_exact(c_.callee).find_calls(r"SchemaRegistry::register_record$"):
                        regs, reg_in = [c_], F.fn_exact(c_.callee)
                        break
            if len(regs) != 1:
                raise AnchorMissing("one site where %s registers the record (register_record, directly or through a helper), found %d" % (name, len(regs)))
            reg = regs[0]
            bad = []
            same_helper = False
            # the existence test: in the function itself, or in a validation helper whose every
            # Ok return is dominated by the "not yet defined" edge (then the helper's `?` is the gate)
            cks = b.find_calls(r"HashMap::contains_key$")
            if len(cks) == 1:
                ck, hb = cks[0], b
                fe = bool_result_edge(b, ck, False)
            elif not cks:
                fe, ck, hb = [], None, None
                for c_ in b.calls:
                    if c_.cleanup or not c_.callee or not F.has(c_.callee):
                        continue
                    h = F.fn_exact(c_.callee)
                    hk = h.find_calls(r"HashMap::contains_key$")
                    if len(hk) != 1:
                        continue
                    hfe = bool_result_edge(h, hk[0], False)
                    oks = [bb for (bb, j, v, d_) in h.aggregates("result::Result", "Ok") if d_ == [0]]
                    if not oks or not all(any(h.dominates_edge(e, o) for e in hfe) for o in oks):
                        bad.append(("helper-accepts-existing", "%s can return Ok for an event type that already exists" % c_.nname, None))
                    ck, hb = hk[0], h
                    fe = [e for (e, v) in ok_edges(b, c_) if v == "Continue"]
                    if reg_in is not None and reg_in.key == h.key:
                        # test and registration sit in the same helper: order them there
                        hr = one(h, r"SchemaRegistry::register_record$")
                        if not any(h.dominates_edge(e, hr.bb) for e in hfe):
                            bad.append(("redefine", "register_record reachable for an event type that already exists (in %s)" % c_.nname, None))
                        same_helper = True
                    break
                if ck is None:
                    raise AnchorMissing("existence test (HashMap::contains_key) in %s or a helper it calls" % name)
            else:
                raise AnchorMissing("one existence test in %s, found %d" % (name, len(cks)))
            L = hb.origins(ck.args[0])
            if not has_origin(L, None, proj_contains=[".schemas"]):
                bad.append(("exists-test-other-map", "existence test is not on self.schemas (%s)" % fmt_leaves(L), None))
            if not same_helper and not any(b.dominates_edge(e, reg.bb) for e in fe):
                bad.append(("redefine", "register_record reachable for an event type that already exists", None))
            if app is not None:
                inst.sites = [sp(hb, ck.bb), sp(b, app.bb), sp(b, reg.bb)]
                if not any(b.dominates_edge(e, app.bb) for e in fe):
                    bad.append(("append-on-redefine", "schema store append reachable for an existing event type", None))
                es = [e for (e, v) in ok_edges(b, app) if v == "Continue"]
                if not es or not any(b.dominates_edge(e, reg.bb) for e in es):
                    bad.append(("visible-before-durable", "register_record not dominated by a successful store.append", None))
            else:
                # define_async: append runs inside spawn_blocking closure; the double `?` on the join result guards register
                sb = one(b, r"tokio::task::spawn_blocking$|tokio::task::blocking::spawn_blocking$")
                inst.sites = [sp(hb, ck.bb), sp(b, sb.bb), sp(b, reg.bb)]
                if not any(b.dominates_edge(e, sb.bb) for e in fe):
                    bad.append(("append-on-redefine", "schema store append reachable for an existing event type", None))
                es = [e for (e, v) in ok_edges(b, sb) if v == "Continue"]
                dom = [e for e in es if b.dominates_edge(e, reg.bb)]
                if len(dom) < 2:
                    bad.append(("visible-before-durable", "register_record not dominated by both `?` on the spawn_blocking(append) result (%d)" % len(dom), None))
                cl = [k for k in F.find("^" + re.escape(b.key.split("::{closure")[0]) + r"::\{closure#0\}::\{closure#\d+\}$")]
                if not any(F.fn_exact(k).find_calls(r"SchemaStore::append$") for k in cl):
                    raise AnchorMissing("append inside spawn_blocking closure")
            return bad
        return f
    ctx.run("C06.d1", "K11 SIB + K1", "SchemaRegistry::define", "a rejected DEFINE leaves the schema untouched; visible only after durable", define("SchemaRegistry::define"))
    ctx.run("C06.d1", "K11 SIB + K1", "SchemaRegistry::define_async", "a rejected DEFINE leaves the schema untouched; visible only after durable", define("SchemaRegistry::define_async"))

    def d2(inst):
        b = F.fn("handlers::define::handle")
        df = one(b, r"define::run::define_schema$")
        ds = F.fn("define::run::define_schema")
        inner = one(ds, r"SchemaRegistry::define(_async)?$")
        # define_schema returns the registry's verdict unchanged
        if not any(l[0] == "call" and "SchemaRegistry" in l[1] for l in ds.origins([0], transparent=NEXT_TRANSPARENT)):
            L0 = ds.origins([0])
            aw = ds.await_of(inner)
            if aw is None or not (ds._origin_locals({"c": [0]}) & {aw[0].dest[0]}):
                raise AnchorMissing("define_schema does not return the result of SchemaRegistry::define_async (%s)" % fmt_leaves(L0))
        oks = b.find_calls(r"Response::ok\w*$")
        if not oks:
            raise AnchorMissing("OK response in define handler")
        es = []
        for i, si in result_switches(b, df):
            for t in edges_for_variant(si, "Ok"):
                es.append((i, t))
        inst.sites = [sp(b, df.bb)] + [sp(b, o.bb) for o in oks]
        bad = []
        for o in oks:
            if not any(b.dominates_edge(e, o.bb) for e in es):
                bad.append(("ok-without-define", "define handler can answer OK without the registry having accepted the schema", None))
        return bad
    ctx.run("C06.d2", "K1 DOM", "handlers::define::handle", "OK only when the definition succeeded", d2)


    def d3(inst):
        cg = CallGraph(F)
        b = F.fn("handlers::define::handle")
        APPEND = "engine::schema::store::store::SchemaStore::append"
        if APPEND not in cg.nodes:
            raise AnchorMissing(APPEND)
        reach_cache = {}

        def reaches_append(callee):
            if callee not in reach_cache:
                reach_cache[callee] = APPEND in cg.reachable([callee])
            return reach_cache[callee]
        sinks = [c for c in b.calls if not c.cleanup and c.callee and c.callee in cg.nodes and reaches_append(c.callee)]
        if not sinks:
            raise AnchorMissing("no call in the define handler reaches SchemaStore::append")
        wl = b.find_calls(r"tokio::sync::RwLock::write$")
        inst.sites = [sp(b, c.bb) + " " + c.nname.split("::")[-1] for c in sinks] + [sp(b, w.bb) for w in wl]
        if not wl:
            return [("define-without-lock", "the define handler reaches the durable schema append without taking the registry write lock: two concurrent DEFINEs of one type can both be persisted", None)]
        bad = []
        for w in wl:
            bad += held_guard_violations(b, w, [c.bb for c in sinks], guard_ty=r"RwLockWriteGuard")
        # de-duplicate keys
        seen, out = set(), []
        for k_, d_, w_ in bad:
            if k_ not in seen:
                seen.add(k_)
                out.append(("define-lock:" + k_, "define handler: %s (between the already-defined check and the durable append)" % d_, w_))
        return out
    ctx.run("C06.d3", "K5 HELD (interprocedural)", "handlers::define::handle", "check-then-append of a schema is atomic with respect to other DEFINEs", d3)

    def e_(inst):
        rd = F.fn("schema::store::reader::read_single_record")
        wr = F.fn("schema::store::writer::write_record")

        def limit_consts(b_):
            out = {}
            for i in sorted(b_.live_blocks()):
                for st in b_.blocks[i]["s"]:
                    v = st.get("v")
                    if v and v.get("r") == "bin" and v.get("op") in ("Gt", "Ge", "Lt", "Le"):
                        for o_ in (v["a"], v["b"]):
                            for l in b_.origins(o_):
                                if l[0] == "constitem":
                                    out.setdefault(l[1], []).append(i)
            return out
        rc, wc = limit_consts(rd), limit_consts(wr)
        inst.sites = ["reader limits: %s" % sorted(rc), "writer limits: %s" % sorted(wc)]
        if not rc:
            raise AnchorMissing("a length limit (comparison with a constant item) in read_single_record")
        bad = []
        writes = wr.find_calls(r"Write::write_all$")
        if not writes:
            raise AnchorMissing("write_all in write_record")
        for c_name in rc:
            if c_name not in wc:
                bad.append(("writer-ignores-reader-limit:%s" % c_name.split("::")[-1], "write_record does not test %s, the limit at which the reader stops reading the file: a larger DEFINE is acknowledged and, after a restart, it and every later schema are gone" % c_name.split("::")[-1], None))
                continue
            # the test comes before the first write
            first = min(writes, key=lambda c_: c_.bb)
            if not any(wr.can_reach(i, first.bb) and not wr.can_reach(first.bb, i) for i in wc[c_name]):
                bad.append(("limit-after-write:%s" % c_name.split("::")[-1], "write_record tests %s only after it has started writing the record" % c_name.split("::")[-1], None))
        return bad
    ctx.run("C06.e", "K11 SIB", "schema store: write_record vs read_single_record", "the writer refuses what the reader would not read back", e_)

    def f_(inst):
        pre = "command::parser::commands::store::sneldb_store::"
        if not F.has(pre + "__parse_balanced_braces"):
            raise AnchorMissing(pre + "__parse_balanced_braces")
        b = F.fn_exact(pre + "__parse_balanced_braces")
        callees = sorted({c_.nname[len(pre):] for c_ in b.calls if not c_.cleanup and c_.nname.startswith(pre)})
        inst.sites = ["balanced_braces -> %s" % callees]
        strs = [x for x in callees if re.search(r"string|str_lit|quoted", x)]
        if not strs:
            return [("braces-in-strings-counted", "the brace-matching rule of the STORE grammar does not skip JSON string literals: a payload whose string value contains '{' or '}' is refused although it conforms to the schema", None)]
        # the string rule honours escapes: it matches a backslash literal
        sb = F.fn_exact(pre + strs[0])
        lits = {l[1].strip('"') for c_ in sb.find_calls(r"parse_string_literal$") for l in sb.origins(c_.args[2]) if l[0] == "const"}
        inst.sites.append("%s literals: %s" % (strs[0], sorted(lits)))
        if not any("\\" in x for x in lits):
            return [("string-escapes-ignored", "the string rule used by balanced_braces does not handle backslash escapes: \\\" inside a value ends the string early", None)]
        return []
    ctx.run("C06.f", "K4 REACH", "STORE grammar: balanced_braces", "braces inside JSON string values do not count", f_)

    def g_(inst):
        # the command text a front end parses is the text the client sent: no lossy re-encoding before the parser
        bad, n = [], 0
        for k in F.keys():
            if k.startswith("bin:") or "_test" in k or "::tests::" in k or not norm_path(k).startswith("frontend::"):
                continue
            b = F.fn_exact(k)
            for pc in b.find_calls(r"command::parser::command::parse_command$|parser::command::parse_command$|::parse_command$"):
                n += 1
                L = b.origins(pc.args[0])
                inst.sites.append(sp(b, pc.bb) + " parse_command <- " + fmt_leaves(L)[:80])
                back = wide_all(b, pc.args[0], depth=80)
                lossy = [c2 for c2 in b.find_calls(r"from_utf8_lossy$") if c2.dest and c2.dest[0] in back]
                if lossy or any(l[0] == "call" and norm_path(l[1]).endswith("from_utf8_lossy") for l in L):
                    bad.append(("lossy-command-text:%s" % norm_path(k).split("::{closure")[0].split("::")[-1], "%s parses a command obtained with String::from_utf8_lossy: bytes that are not UTF-8 become U+FFFD and the altered payload / context id is stored with a 200" % norm_path(k).split("::{closure")[0], sp(b, pc.bb)))
        if n < 4:
            raise AnchorMissing("parse_command call sites in frontend:: (%d, 5 counted)" % n)
        return bad
    ctx.run("C06.g", "K7 PROV", "front ends -> parse_command", "the parsed command text is the client's bytes, not a lossy conversion", g_)

    def h_(inst):
        # the pre-parse brace guard of STORE must read strings the way the grammar does: a brace inside a string is no nesting
        k = [x for x in F.find(r"command::parser::commands::store::raw_brace_depth_exceeds$")]
        pp = F.fn("command::parser::commands::store::parse_peg")
        guards = [c_ for c_ in pp.calls if not c_.cleanup and c_.callee and F.has(c_.callee) and re.search(r"brace|nesting|depth", c_.nname) and not c_.nname.endswith("nesting_error")]
        inst.sites = [sp(pp, c_.bb) + " " + c_.nname.split("::")[-1] for c_ in guards]
        bad = []
        for c_ in guards:
            g = F.fn_exact(c_.callee)
            sw = [(i_, g.switch_info(i_)) for i_ in sorted(g.live_blocks()) if g.blocks[i_]["t"]["t"] == "switch"]
            braces = [(i_, si) for i_, si in sw if si and si["kind"] == "int" and "123" in si["edges"]]
            if not braces:
                continue
            quote_aware = any("34" in si["edges"] for _, si in braces) or any(si and si["kind"] == "bool" and si.get("def", {}).get("r") == "bin" and str(si["def"].get("b", {}).get("k", "")).startswith("34_") for _, si in sw)
            if not quote_aware:
                bad.append(("guard-counts-string-braces:%s" % c_.nname.split("::")[-1], "%s counts every '{' byte and never looks for '\"': 64 braces inside a string value are refused as nesting although the JSON depth is 1" % c_.nname.split("::")[-1], sp(pp, c_.bb)))
        return bad
    ctx.run("C06.h", "K6 TABLE", "STORE pre-parse guards (parse_peg)", "a brace-counting guard skips string literals", h_)

    def i_(inst):
        # core fields and payload fields share one namespace on every read and write path (the core value wins):
        # DEFINE must not accept a payload field named like a core field
        CORE = {"timestamp", "event_id", "context_id", "event_type"}
        bodies = [F.fn("handlers::define::handle"), F.fn("SchemaRegistry::define"), F.fn("SchemaRegistry::define_async")]
        base = set()
        for b in list(bodies):
            for k in F.keys():
                if k.startswith(b.key.split("::{closure")[0] + "::{closure") and k != b.key:
                    bodies.append(F.fn_exact(k))
            for c_ in b.calls:
                if not c_.cleanup and c_.callee and F.has(c_.callee) and re.search(r"validate|reserved|check", c_.nname):
                    bodies.append(F.fn_exact(c_.callee))
        seen_consts = set()
        for b in bodies:
            for c_ in b.calls:
                if c_.cleanup:
                    continue
                for a_ in c_.args:
                    if isinstance(a_, dict) and a_.get("k"):
                        seen_consts.add(str(a_["k"]).strip('"'))
                    for l in b.origins(a_):
                        if l[0] == "const":
                            seen_consts.add(str(l[1]).strip('"'))
        named = CORE & seen_consts
        inst.sites = ["%d DEFINE-path bodies; core names they mention: %s" % (len(bodies), sorted(named))]
        if len(named) < len(CORE):
            return [("core-field-names-accepted", "neither the DEFINE handler nor SchemaRegistry::define(_async) compares a field name with the core names %s: such a payload field is accepted, STORE takes its value and every read returns the core value instead (the payload value is lost)" % sorted(CORE - named), None)]
        return []
    ctx.run("C06.i", "K10 READS", "handlers::define::handle / SchemaRegistry::define", "a schema cannot declare a payload field that a core field shadows", i_)
