"""C07 — stored values come back unchanged: table agreement / projection clauses only."""
from .util import *

EXPLANATION = """
Claimed narrowly: decides table-agreement clauses; does NOT decide round-trip equality of values through JSON -> scalar -> WAL -> column -> mmap -> JSON (value level).
a) PhysicalType: for every arm `d => V` of From<u8>, d is the declared discriminant of V and every variant except the documented fallback has an arm;
   ColumnBlockHeader::write_to and read_from agree on the byte layout (field order/widths vs constant offsets, total = LEN).
b) the typed column readers (values_to_strings / values_to_scalar / values_to_arrow_array, ConditionEvaluator row builder, CountField::update, ColumnGroupBuilder::finish) all dispatch explicitly on the
   same numeric physical types {I64,U64,F64,Bool}; decoder_for has an arm for every physical type the writer constructs.
c) compute_return_projection carries the constant core set {context_id,event_type,timestamp,event_id} with or without RETURN; the no-RETURN path is the identity.
e) the compaction reader's conversion of column values to scalars (ColumnBlockSnapshot::values_to_scalar) contains no wrapping integer cast between u64 and i64: values above i64::MAX are
   converted with a checked TryFrom and kept as text otherwise (noted: values_to_arrow_array casts u64 to i64 for Arrow Int64 columns; Arrow path, not armed).
d) ScalarValue::to_json / Serialize have an explicit arm per variant; From<serde_json::Value> has an explicit arm per JSON kind.
(f) fixed-width (I64 / U64 / F64) blocks are laid out `header | [null bitmap] | pad | payload` and the reader finds the payload by aligning header + aux up to 8: in the writer
(ColumnGroupBuilder::finish and same-file helpers) the aux length handed to every ColumnBlockHeader::new of a block that may carry a bitmap includes the bitmap length, and the alignment pad
(`% 8`) is computed over a sum that includes it - a pad computed from the header length alone misplaces the payload of every zone that contains a NULL (the column then reads back as all NULL).
(g) the kind of a value that comes back is decided by the field's declared type, never by what the stored text looks like: a function that turns a stored / carried string cell into one of several
value kinds by *parsing the text* (str::parse, serde_json::from_str, comparison with "true" / "false" / "null") without receiving the field's type returns `"123"` of a string field as the number 123.
Armed for the two conversion points on the read path: EventBuilder::add_payload_field (rows rebuilt from segment columns) and ScalarValue::to_json (every response).
(h) bit addressing: every null / value bitmap access in the column layer has the shape `bytes[a / 8] (&|) (1 << (b % 8))`; the byte index and the bit index must be taken from the same row index
(a and b are copies of one variable) - all writers and readers in engine::core::{column, write} are compared; `bytes[(i - start) / 8] & (1 << (i % 8))` reads another row's bit.
"""
FLOOR = 13
REQUIRED = ["C07.a1", "C07.a2", "C07.b", "C07.c", "C07.d", "C07.e", "C07.f", "C07.g", "C07.h", "C07.i", "C07.j", "C07.k", "C07.l"]

NUM = {"I64", "U64", "F64", "Bool"}


def topo(body, bbs):
    bbs = list(bbs)
    return sorted(bbs, key=lambda x: sum(1 for y in bbs if y != x and body.can_reach(y, x)))


def run(ctx):
    F = ctx.F

    def a1(inst):
        b = F.method("PhysicalType", "From<u8>", "from") if False else None
        ks = [k for k in F.idx if norm_path(k) == "<engine::core::column::format::PhysicalType as std::convert::From>::from"]
        if len(ks) != 1:
            raise AnchorMissing("impl From<u8> for PhysicalType (%d)" % len(ks))
        b = F.fn_exact(ks[0])
        adt = F.adts["engine::core::column::format::PhysicalType"]
        decl = {v["n"]: v["d"] for v in adt["variants"]}
        sw = [i for i in b.live_blocks() if b.blocks[i]["t"]["t"] == "switch"]
        if len(sw) != 1:
            raise AnchorMissing("single switch on the byte")
        si = b.switch_info(sw[0])
        bad = []
        seen = {}
        for val, tgt in list(si["edges"].items()) + [("else", si["else"])]:
            blocks = edge_dominated(b, (sw[0], tgt))
            vs = unit_variants_in(b, blocks, "PhysicalType")
            if len(vs) != 1:
                raise AnchorMissing("arm %s builds %s" % (val, vs))
            seen[val] = vs[0]
            if val != "else" and decl.get(vs[0]) != val:
                bad.append(("tag-mismatch:%s" % val, "byte %s decodes to PhysicalType::%s whose tag is %s" % (val, vs[0], decl.get(vs[0])), None))
        inst.sites = ["%s -> %s" % kv for kv in sorted(seen.items())]
        fallback = seen.get("else")
        for v, d in decl.items():
            if v != fallback and seen.get(d) != v:
                bad.append(("tag-unmapped:%s" % v, "PhysicalType::%s (tag %s) has no decoding arm" % (v, d), None))
        if fallback and decl.get(fallback) in seen and seen[decl[fallback]] != fallback:
            bad.append(("fallback-shadowed", "fallback variant's own tag decodes to another variant", None))
        return bad
    ctx.run("C07.a1", "K6 TABLE", "impl From<u8> for PhysicalType", "tag decode table is the inverse of the declared discriminants", a1)

    def a2(inst):
        w = F.fn("ColumnBlockHeader::write_to")
        r = F.fn("ColumnBlockHeader::read_from")
        # write side: sequence of (field, width)
        seq = []
        for c in sorted([c for c in w.calls if not c.cleanup and re.search(r"Vec::(push|extend_from_slice)$", c.nname)], key=lambda c: sum(1 for d in w.calls if d.bb != c.bb and w.can_reach(d.bb, c.bb))):
            L = w.origins(c.args[1], transparent=re.compile(TRANSPARENT.pattern[:-2] + r"|.*::to_le_bytes)$"))
            fld = None
            for l in L:
                if l[0] == "param" and l[2]:
                    fld = l[2][-1].lstrip(".")
            width = 1
            if c.nname.endswith("extend_from_slice"):
                tl = [d for d in w.calls if re.search(r"::to_le_bytes$", d.nname) and d.dest[0] in w._origin_locals(c.args[1])]
                if not tl:
                    raise AnchorMissing("to_le_bytes feeding extend_from_slice")
                m = re.search(r"num::<impl (u|i)(\d+)>", tl[0].name) or re.search(r"(u|i)(\d+)", tl[0].ga or "")
                width = int(m.group(2)) // 8 if m else None
            seq.append((fld, width))
        inst.sites.append("write_to: %s" % seq)
        offs, o = {}, 0
        for f, wd in seq:
            if f is None or wd is None:
                raise AnchorMissing("could not resolve write_to sequence %s" % seq)
            offs[f] = (o, o + wd)
            o += wd
        total = o
        # read side: constant indices and ranges, paired with the named local they decode into
        bad = []
        ag = r.aggregates("ColumnBlockHeader")
        if len(ag) != 1:
            raise AnchorMissing("ColumnBlockHeader aggregate in read_from")
        _, _, v, _ = ag[0]
        rd = {}
        # single-byte fields: local = slice[const]
        consts = {}
        rd_local = {}
        for blk in r.live_blocks():
            for s in r.blocks[blk]["s"]:
                if "a" in s and len(s["a"]) == 1 and s["v"]["r"] == "use" and "k" in s["v"]["o"] and s["v"]["o"]["k"].endswith("_usize"):
                    consts[s["a"][0]] = int(s["v"]["o"]["k"].split("_")[0])
        for blk in r.live_blocks():
            for s in r.blocks[blk]["s"]:
                if "a" in s and s["v"]["r"] == "use":
                    pl = s["v"]["o"].get("c") or s["v"]["o"].get("m")
                    if pl and any(isinstance(p, str) and p.startswith("[_") for p in pl[1:]):
                        ix = [int(p[2:-1]) for p in pl[1:] if isinstance(p, str) and p.startswith("[_")][0]
                        if ix in consts:
                            rd_local[s["a"][0]] = (consts[ix], consts[ix] + 1)
        ranges = []
        for (bb, j, av, dst) in r.aggregates("ops::Range"):
            try:
                st, en = [int(o_["k"].split("_")[0]) for o_ in av["o"]]
                ranges.append((bb, st, en))
            except Exception:
                pass
        ranges = [(bb, st, en) for (bb, st, en) in ranges]
        order = topo(r, [x[0] for x in ranges])
        ranges.sort(key=lambda x: order.index(x[0]))
        dec = [c for c in r.calls if not c.cleanup and re.search(r"::from_le_bytes$", c.nname)]
        dec.sort(key=lambda c: sum(1 for d in dec if d.bb != c.bb and r.can_reach(d.bb, c.bb)))
        if len(dec) != len(ranges):
            raise AnchorMissing("read_from: %d ranges vs %d from_le_bytes" % (len(ranges), len(dec)))
        for (bb, st, en), c in zip(ranges, dec):
            if not (r.can_reach(bb, c.bb)):
                raise AnchorMissing("range/from_le_bytes pairing")
            rd_local[c.dest[0]] = (st, en)
        # each aggregate field is filled (through moves only) from exactly one decoded local
        for f, o_ in zip(v["fields"], v["o"]):
            src = [x for x in r._origin_locals(o_) if x in rd_local]
            if len(src) != 1:
                bad.append(("header-field-source:%s" % f, "ColumnBlockHeader.%s is not filled from exactly one decoded value" % f, None))
            else:
                rd[f] = rd_local[src[0]]
        inst.sites.append("read_from: %s" % sorted(rd.items(), key=lambda kv: kv[1]))
        for f, rng in offs.items():
            if rd.get(f) != rng:
                bad.append(("layout:%s" % f, "header field %s is written at bytes %s but read from %s" % (f, rng, rd.get(f)), None))
        # LEN guard
        def _allops(v_):
            if v_["r"] in ("use", "cast", "un", "repeat"):
                return [v_["o"]]
            if v_["r"] == "bin":
                return [v_["a"], v_["b"]]
            return v_.get("o", []) if v_["r"] == "agg" else []
        ln = [s for blk in r.live_blocks() for s in r.blocks[blk]["s"] if "a" in s for o2 in _allops(s["v"]) if (o2.get("item") or "").endswith("ColumnBlockHeader::LEN")]
        if not ln:
            bad.append(("no-len-guard", "read_from does not compare the slice length with LEN", None))
        inst.detail = "total written bytes %d" % total
        return bad
    ctx.run("C07.a2", "K6 TABLE", "ColumnBlockHeader::write_to / read_from", "header writer and reader agree on offsets and widths", a2)

    def b_(inst):
        sib = ["ColumnBlockSnapshot::values_to_strings", "ColumnBlockSnapshot::values_to_scalar", "ColumnBlockSnapshot::values_to_arrow_array",
               "ConditionEvaluator::evaluate_zones_with_limit", "aggregate::ops::CountField::update", "ColumnGroupBuilder::finish"]
        bad = []
        for nm in sib:
            b = F.fn(nm)
            sws = [(i, b.switch_info(i)) for i in sorted(b.live_blocks()) if b.blocks[i]["t"]["t"] == "switch"]
            sws = [(i, si) for i, si in sws if si and si["kind"] == "enum" and (si.get("adt") or "").endswith("format::PhysicalType")]
            if not sws:
                raise AnchorMissing("match on PhysicalType in %s" % nm)
            for i, si in sws:
                explicit = {k for k in si["edges"] if k != "else"}
                inst.sites.append("%s: explicit %s" % (nm.split("::")[-1], sorted(explicit)))
                if not NUM <= explicit:
                    bad.append(("typed-arm-missing:%s:%s" % (nm, ",".join(sorted(NUM - explicit))), "%s treats %s like variable-length bytes while its siblings decode it as a number/bool" % (nm, sorted(NUM - explicit)), None))
        # writer-constructed physical types all have a decoder
        built = set()
        for nm in ("ColumnGroupBuilder::finish", "ColumnWriter::write_all"):
            try:
                b = F.fn(nm)
            except AnchorMissing:
                continue
            fam = [b] + [F.fn_exact(k) for k in F.find("^" + re.escape(b.key.split("::{closure")[0]) + r"::\{closure")]
            for bb_ in fam:
                built |= {v["var"] for (_, _, v, _) in bb_.aggregates("format::PhysicalType")}
        if not built:
            raise AnchorMissing("writer constructs no PhysicalType")
        d = F.fn("reader::decoders::decoder_for")
        sw = [(i, d.switch_info(i)) for i in d.live_blocks() if d.blocks[i]["t"]["t"] == "switch"]
        sw = [(i, si) for i, si in sw if si and si["kind"] == "enum"]
        explicit = {k for k in sw[0][1]["edges"] if k != "else"} if sw else set()
        inst.sites.append("writer builds %s; decoder_for explicit %s" % (sorted(built), sorted(explicit)))
        if built - explicit:
            bad.append(("no-decoder:%s" % ",".join(sorted(built - explicit)), "the writer emits %s but decoder_for has no arm for it" % sorted(built - explicit), None))
        return bad
    ctx.run("C07.b", "K11 SIB", "typed column readers", "every reader decodes the numeric physical types the same way; every written type has a decoder", b_)

    def c(inst):
        b = F.fn("shard_pipeline::compute_return_projection")
        consts = set()
        for blk in b.live_blocks():
            for s in b.blocks[blk]["s"]:
                if "v" in s and s["v"]["r"] == "use" and "k" in s["v"]["o"] and s["v"]["o"]["k"].startswith('"'):
                    consts.add(s["v"]["o"]["k"].strip('"'))
        for c_ in b.calls:
            for a_ in c_.args:
                if "k" in a_ and a_["k"].startswith('"'):
                    consts.add(a_["k"].strip('"'))
        core = {"context_id", "event_type", "timestamp", "event_id"}
        inst.sites = ["string constants: %s" % sorted(consts)]
        bad = []
        if core - consts:
            bad.append(("core-field-missing:%s" % ",".join(sorted(core - consts)), "RETURN projection no longer carries core field(s) %s" % sorted(core - consts), None))
        # identity path: when return_fields is None the input schema is returned
        cl = one(b, r"BatchSchema as .*Clone>::clone$|BatchSchema::clone$")
        L = b.origins(cl.args[0])
        if not has_origin(L, "param", "input_schema"):
            bad.append(("identity-path", "no-RETURN path does not return the input schema", None))
        # the core loop pushes every found core column: both push calls inside the loop over core_fields
        pushes = [p for p in b.find_calls(r"Vec::push$")]
        if len(pushes) < 4:
            bad.append(("projection-pushes", "expected core and RETURN loops to push columns and indices (found %d pushes)" % len(pushes), None))
        return bad
    ctx.run("C07.c", "K7 PROV", "compute_return_projection", "RETURN never drops the core fields", c)

    def d(inst):
        bad = []
        for nm, key in (("to_json", "engine::types::ScalarValue::to_json"),
                        ("Serialize", None)):
            if key is None:
                ks = [k for k in F.idx if re.match(r"^<engine::types::ScalarValue as .*Serialize>::serialize$", norm_path(k))]
                if len(ks) != 1:
                    raise AnchorMissing("ScalarValue Serialize impl")
                key = ks[0]
            b = F.fn_exact(key)
            sws = [(i, b.switch_info(i)) for i in sorted(b.live_blocks()) if b.blocks[i]["t"]["t"] == "switch"]
            sws = [(i, si) for i, si in sws if si and si["kind"] == "enum" and (si.get("adt") or "").endswith("types::ScalarValue")]
            if not sws:
                raise AnchorMissing("match on ScalarValue in %s" % nm)
            i, si = sws[0]
            elsev = si.get("else_variants") or []
            tgt = si["edges"]["else"]
            inst.sites.append("%s: explicit %s wildcard %s" % (nm, sorted(k for k in si["edges"] if k != "else"), elsev))
            if elsev and b.blocks[tgt]["t"]["t"] != "unreach":
                bad.append(("wildcard:%s" % nm, "ScalarValue::%s has a wildcard arm receiving %s" % (nm, elsev), None))
        ks = [k for k in F.idx if norm_path(k) == "<engine::types::ScalarValue as std::convert::From>::from"]
        if len(ks) != 1:
            raise AnchorMissing("From<serde_json::Value> for ScalarValue")
        b = F.fn_exact(ks[0])
        sws = [(i, b.switch_info(i)) for i in sorted(b.live_blocks()) if b.blocks[i]["t"]["t"] == "switch"]
        sws = [(i, si) for i, si in sws if si and si["kind"] == "enum" and (si.get("adt") or "").endswith("serde_json::Value")]
        if not sws:
            raise AnchorMissing("match on serde_json::Value")
        i, si = sws[0]
        elsev = si.get("else_variants") or []
        inst.sites.append("From<Value>: explicit %s wildcard %s" % (sorted(k for k in si["edges"] if k != "else"), elsev))
        if elsev and b.blocks[si["edges"]["else"]]["t"]["t"] != "unreach":
            bad.append(("wildcard:from-json", "From<serde_json::Value> has a wildcard arm receiving %s" % elsev, None))
        return bad
    ctx.run("C07.d", "K6 TABLE", "ScalarValue conversions", "every scalar variant / JSON kind has its own conversion arm", d)


    def e(inst):
        b = F.fn("ColumnBlockSnapshot::values_to_scalar")
        fam = [b] + [F.fn_exact(k) for k in F.find("^" + re.escape(b.key.split("::{closure")[0]) + r"::\{closure") if k != b.key]
        bad = []
        ncast = 0
        for bb_ in fam:
            for blk in bb_.live_blocks():
                for s_ in bb_.blocks[blk]["s"]:
                    v = s_.get("v")
                    if v and v["r"] == "cast" and v["ck"] == "IntToInt":
                        ncast += 1
                        pl = v["o"].get("m") or v["o"].get("c")
                        sty = bb_.local_ty(pl[0]) if pl and len(pl) == 1 else (v["o"].get("ty") or "?")
                        if {sty, v["ty"]} == {"u64", "i64"}:
                            bad.append(("wrapping-cast:%s->%s" % (sty, v["ty"]), "values_to_scalar converts %s to %s with a wrapping cast: u64 values above i64::MAX change value when a segment is compacted" % (sty, v["ty"]), None))
        chk = [c for bb_ in fam for c in bb_.calls if not c.cleanup and re.search(r"::try_from$|::try_into$", c.nname)]
        inst.sites = ["IntToInt casts: %d; checked conversions: %d" % (ncast, len(chk))]
        if not chk:
            bad.append(("no-checked-conversion", "values_to_scalar no longer converts u64 column values with a checked conversion", None))
        return bad
    ctx.run("C07.e", "K4 EFFECT", "ColumnBlockSnapshot::values_to_scalar", "u64 values survive compaction over their full range", e)

    def f_(inst):
        fin = F.fn("ColumnGroupBuilder::finish")
        fam = [fin]
        for c_ in fin.calls:
            if not c_.cleanup and c_.local and F.has(c_.nname) and F.info[c_.nname]["file"] == F.info[fin.key]["file"] and c_.nname != fin.key:
                B = F.fn_exact(c_.nname)
                if B not in fam:
                    fam.append(B)
        bad, n = [], 0
        for b in fam:
            for hn in b.find_calls(r"ColumnBlockHeader::new$"):
                if len(hn.args) < 4:
                    continue
                aux = hn.args[3]
                sl = wide_all(b, aux, partial=False)
                if all((a_.get("k") is not None) for a_ in [aux]):
                    continue  # constant aux (no bitmap, no padding): variable-width blocks
                rems = []
                for i in sorted(b.live_blocks()):
                    for st in b.blocks[i]["s"]:
                        v = st.get("v")
                        if v and v.get("r") == "bin" and v.get("op") == "Rem" and st["a"][0] in sl:
                            rems.append((i, v))
                lens = [c_ for c_ in b.calls if not c_.cleanup and c_.dest and c_.dest[0] in sl and re.search(r"Vec::len$|slice::len$", c_.nname)]
                if not rems and not lens:
                    continue
                n += 1
                pad_sees_bitmap = False
                for (i, v) in rems:
                    rs = wide_all(b, v["a"], partial=False)
                    if any(c_.dest and c_.dest[0] in rs for c_ in lens):
                        pad_sees_bitmap = True
                inst.sites.append("%s @ %s: aux_len <- %d len() call(s), %d `%% 8` pad computation(s), pad covers bitmap=%s" % (b.key.split("::")[-1], sp(b, hn.bb), len(lens), len(rems), pad_sees_bitmap))
                if not lens:
                    bad.append(("aux-without-bitmap:%s" % b.key.split("::")[-1], "%s: the aux length of a padded block does not include the null bitmap length" % sp(b, hn.bb), None))
                elif rems and not pad_sees_bitmap:
                    bad.append(("pad-ignores-bitmap:%s" % b.key.split("::")[-1], "%s: the alignment pad is computed without the null bitmap length: the payload of a zone containing a NULL starts where the reader does not look" % sp(b, hn.bb), None))
        if n < 3:
            raise AnchorMissing("padded fixed-width block headers in ColumnGroupBuilder::finish (found %d, confirmed 3: I64, U64, F64)" % n)
        return bad
    ctx.run("C07.f", "K7 PROV", "ColumnGroupBuilder::finish (fixed-width blocks)", "the alignment pad accounts for the null bitmap", f_)

    def g_(inst):
        bad = []
        TY = re.compile(r"FieldType|LogicalType|PhysicalType|schema::types")
        for nm, what in (("EventBuilder::add_payload_field", "a payload cell read back from a segment"), ("ScalarValue::to_json", "a Utf8 value on its way into a response")):
            b = F.fn(nm)
            sees_type = any(TY.search(b.local_ty(l)) for l in range(1, b.argc + 1)) or any(TY.search(c_.nname) for c_ in b.calls if not c_.cleanup)
            probes = sorted({c_.nname.split("::")[-1] if "from_str" not in c_.nname else "serde_json::from_str" for c_ in b.calls if not c_.cleanup and re.search(r"str::parse$|FromStr>::from_str$|serde_json::from_str$|sonic_rs::from_str$", c_.nname)})
            consts = sorted({l[1].strip('"') for blk in b.live_blocks() for st in [b.blocks[blk]["t"]] if st.get("t") == "call" for a_ in st.get("args", []) for l in b.origins(a_) if l[0] == "const" and l[1].strip('"') in ("true", "false", "null")})
            kinds = set()
            for (bb, j, v, dst) in b.aggregates("ScalarValue"):
                kinds.add(v["var"])
            for (bb, j, v, dst) in b.aggregates("Value"):
                if "serde_json" in str(v.get("adt")):
                    kinds.add("Json" + v["var"])
            for c_ in b.calls:
                m_ = re.search(r"ScalarValue::(Int64|Float64|Boolean|Utf8|Timestamp)$", c_.nname)
                if m_ and not c_.cleanup:
                    kinds.add(m_.group(1))
            inst.sites.append("%s: receives the declared type=%s, probes the text with %s, produces %s" % (nm, sees_type, probes or consts, sorted(kinds)))
            if not sees_type and probes:
                bad.append(("content-typed:%s" % nm, "%s chooses the kind of %s by parsing its text (%s) without knowing the field's declared type: a string that looks like a number / boolean / null / JSON comes back as that" % (nm, what, ", ".join(probes)), None))
        return bad
    ctx.run("C07.g", "K10 READS", "EventBuilder::add_payload_field / ScalarValue::to_json", "the kind of a returned value comes from the schema, not from the stored text", g_)

    def h_(inst):
        bad, n = [], 0
        keys = [k for k in F.keys() if re.match(r"^engine::core::(column|write)::", k) and not k.startswith("bin:")]

        def root(b, opnd, depth=8):
            if isinstance(opnd, dict) and "k" in opnd:
                return ("const", opnd["k"])
            pl = opnd.get("m") or opnd.get("c") if isinstance(opnd, dict) else opnd
            while pl and depth > 0:
                l = pl[0]
                if b.local_name(l) and len([p_ for p_ in pl[1:] if p_ != "*"]) == 0:
                    return ("local", l)
                ds = [d_ for d_ in b.defs().get(l, []) if d_[1] != -1 and len(d_[2]) == 1]
                if len(ds) != 1:
                    return ("local", l)
                rv = ds[0][3]
                if rv.get("r") == "use":
                    o2 = rv["o"]
                    if "k" in o2:
                        return ("const", o2["k"])
                    pl = o2.get("m") or o2.get("c")
                    depth -= 1
                    continue
                if rv.get("r") == "bin":
                    return ("expr", rv["op"], root(b, rv["a"], depth - 1), root(b, rv["b"], depth - 1))
                return ("local", l)
            return ("?",)
        for k in keys:
            b = F.fn_exact(k)
            shl = {}
            div = {}
            for i in b.live_blocks():
                for st in b.blocks[i]["s"]:
                    v = st.get("v")
                    if not v or v.get("r") != "bin" or not st.get("a") or len(st["a"]) != 1:
                        continue
                    if v["op"] == "Shl" and (v["a"].get("k") or "").startswith("1_"):
                        # rhs = Rem(x, 8)
                        pl = v["b"].get("m") or v["b"].get("c")
                        for d_ in b.defs().get(pl[0], []) if pl else []:
                            rv = d_[3]
                            if d_[1] != -1 and rv.get("r") == "bin" and rv["op"] == "Rem" and (rv["b"].get("k") or "").startswith("8_"):
                                shl[st["a"][0]] = (i, rv["a"])
                    if v["op"] == "Div" and (v["b"].get("k") or "").startswith("8_"):
                        div[st["a"][0]] = (i, v["a"])
            if not shl:
                continue
            # pair: a BitAnd/BitOr whose one operand is the shifted mask and whose other operand / destination is indexed by a Div-by-8 local
            for i in b.live_blocks():
                for st in b.blocks[i]["s"]:
                    v = st.get("v")
                    if not v or v.get("r") != "bin" or v["op"] not in ("BitAnd", "BitOr"):
                        continue
                    ops = [v["a"], v["b"]]
                    masks = []
                    for o_ in ops:
                        pl = o_.get("m") or o_.get("c")
                        if pl and pl[0] in shl and len(pl) == 1:
                            masks.append(shl[pl[0]])
                    if not masks:
                        continue
                    idx_locals = set()
                    for o_ in ops + [{"m": st.get("a")}]:
                        pl = o_.get("m") or o_.get("c") or []
                        for p_ in pl[1:]:
                            m_ = re.match(r"^\[_(\d+)\]$", str(p_))
                            if m_:
                                idx_locals.add(int(m_.group(1)))
                        # Vec<u8> bitmaps are indexed through Index::index / IndexMut::index_mut(vec, _d)
                        if pl:
                            for d_ in b.defs().get(pl[0], []):
                                if d_[1] == -1 and re.search(r"::index(_mut)?$", (d_[3]["f"].get("p") or d_[3]["f"].get("u") or "")):
                                    a1 = (d_[3].get("args") or [None, None])[1]
                                    p1 = (a1.get("m") or a1.get("c")) if isinstance(a1, dict) else None
                                    if p1 and len(p1) == 1:
                                        idx_locals.add(p1[0])
                        # the byte may have been copied out first: `_x = bytes[_d]; BitAnd(_x, mask)`
                        if pl and len(pl) == 1:
                            for d_ in b.defs().get(pl[0], []):
                                rv = d_[3]
                                if d_[1] != -1 and rv.get("r") == "use":
                                    p2 = rv["o"].get("m") or rv["o"].get("c") or []
                                    for p_ in p2[1:]:
                                        m_ = re.match(r"^\[_(\d+)\]$", str(p_))
                                        if m_:
                                            idx_locals.add(int(m_.group(1)))
                    for dl in idx_locals:
                        if dl not in div:
                            continue
                        n += 1
                        ra, rb = root(b, div[dl][1]), root(b, masks[0][1])
                        if ra != rb:
                            bad.append(("byte-bit-index-differ:%s" % norm_path(k).split("::{closure")[0], "%s (%s): the bitmap byte is addressed by %s / 8 but the bit by %s %% 8" % (norm_path(k).split("::")[-1], sp(b, i), ra, rb), None))
        inst.sites.append("bitmap bit accesses compared: %d" % n)
        if n < 10:
            raise AnchorMissing("bitmap accesses of the shape bytes[a/8] op (1 << (b%%8)) (found %d, counted 15)" % n)
        return bad
    ctx.run("C07.h", "K11 SIB", "null / value bitmap accesses in engine::core::{column, write}", "byte index and bit index of a bitmap access come from the same row index", h_)

    def i_(inst):
        """The projection is computed more than once per query (for the schema frame and again inside the memtable source); values
        sit under their own column names only if every computation yields the same order. ProjectionColumns keeps insertion order,
        so nothing it is fed may come out of a hash collection (whose iteration order differs per instance) unless it is sorted."""
        bad = []
        n = 0
        HASH_IT = re.compile(r"hash::(set|map)::|HashSet|HashMap")
        for k in sorted(F.keys()):
            if k.startswith("bin:") or not re.search(r"engine::core::read::projection::(strategies|context)::", k):
                continue
            b = F.fn_exact(k)
            sorts = [c for c in b.calls if not c.cleanup and re.search(r"slice::sort\w*$", c.nname)]
            for c in b.calls:
                if c.cleanup or not re.search(r"ProjectionColumns::(add_many|union)$", c.nname):
                    continue
                n += 1
                if c.ga and HASH_IT.search(str(c.ga)):
                    bad.append(("projection-order-from-hash:%s" % k.split("::{closure")[0].split("::")[-1], "%s feeds ProjectionColumns from a hash collection (%s): the column order differs between the two computations of one query and values come back under the wrong column names" % (
                        k.split("::{closure")[0].split("::")[-1], str(c.ga).split("::<", 1)[-1][:60]), sp(b, c.bb)))
                    continue
                # a Vec collected from a hash iteration without a sort in between
                for a_ in c.args[1:]:
                    src = a_
                    chain = []
                    for _ in range(8):
                        L = [l for l in b.origins(src) if l[0] == "call"]
                        if not L:
                            break
                        cc = b.call_at(L[0][2])
                        chain.append(cc)
                        if not cc.args:
                            break
                        src = cc.args[0]
                    if any(HASH_IT.search(x.name) and re.search(r"(into_iter|iter|drain|keys|values|into_keys|into_values)$", x.nname) for x in chain):
                        vl = b._origin_locals(a_)
                        if not any((b._origin_locals(s_.args[0]) & vl) and b.dominates_edge((s_.bb, s_.to), c.bb) for s_ in sorts):
                            bad.append(("projection-order-from-hash:%s" % k.split("::{closure")[0].split("::")[-1], "%s feeds ProjectionColumns a list collected from a hash iteration without sorting it" % k.split("::{closure")[0].split("::")[-1], sp(b, c.bb)))
        # payload_fields: every list it returns that was collected from a hash set is sorted first
        pf = F.fn("ProjectionContext::payload_fields")
        srt = [c for c in pf.calls if not c.cleanup and re.search(r"slice::sort\w*$", c.nname)]
        col = [c for c in pf.calls if not c.cleanup and c.nname.endswith("Iterator::collect")]
        inst.sites.append("%d add_many/union call(s) in projection::strategies; payload_fields: %d collect, %d sort" % (n, len(col), len(srt)))
        if n < 4:
            raise AnchorMissing("ProjectionColumns::add_many calls in projection::strategies (%d, confirmed 6)" % n)
        for c in col:
            chain = []
            src = c.args[0]
            for _ in range(8):
                L = [l for l in pf.origins(src) if l[0] == "call"]
                if not L:
                    break
                cc = pf.call_at(L[0][2])
                chain.append(cc)
                if not cc.args:
                    break
                src = cc.args[0]
            if any(HASH_IT.search(x.name) for x in chain):
                vl = {l for l, _ in pf.flow_forward(c.dest)}
                if not any(pf._origin_locals(s_.args[0]) & vl for s_ in srt):
                    bad.append(("payload-fields-unsorted", "ProjectionContext::payload_fields returns the fields of a hash set in iteration order", sp(pf, c.bb)))
        return bad
    ctx.run("C07.i", "K7 PROV", "engine::core::read::projection::{strategies,context}", "the column order of a projection never comes from a hash collection", i_)

    def j_(inst):
        """A zone's column set is the union of the payload keys of ITS OWN events (plus the core fields): a value of an optional field
        is written only if its zone has a column for it. WriteJob::build must therefore collect the keys from the events of the zone
        it is about to write, in that zone's iteration of the loop - not from another zone of the same type, not once per type."""
        bad = []
        b = F.fn("WriteJob::build")
        fe = one(b, r"WriteJob::from_event_with_fields$")
        outer = [h for h in for_headers(b) if any(l[0] == "param" and l[1] == "zone_plans" for l in b.origins(h.args[0], transparent=NEXT_TRANSPARENT))]
        if len(outer) != 1:
            raise AnchorMissing("the loop over zone_plans in WriteJob::build (%d)" % len(outer))
        oh = outer[0]
        fields_l = b._origin_locals(fe.args[1])
        # key-collecting inserts: HashSet::insert into the set handed to from_event_with_fields, with a key that comes from iterating payload keys
        keyins = []
        for c in b.calls:
            if c.cleanup or not re.search(r"Hash(Set|Map).*::insert$|BTreeSet.*::insert$", c.nname) or not (b._origin_locals(c.args[0]) & fields_l):
                continue
            L = b.origins(c.args[1])
            if any(l[0] == "call" and re.search(r"Keys.*::next$|::next$", l[1]) for l in L):
                keyins.append(c)
        inst.sites = [sp(b, oh.bb), sp(b, fe.bb)] + [sp(b, c.bb) for c in keyins]
        if not keyins:
            bad.append(("zone-fields-not-from-this-zone", "WriteJob::build hands from_event_with_fields a field set that is not collected from payload keys in the body of the zone loop (memoised or computed elsewhere): a zone is written with another zone's column set and optional fields that first appear in a later zone are dropped", sp(b, fe.bb)))
            return bad
        # the keys iterated are those of the events of the CURRENT zone plan (the outer loop's element)
        cur = {l for l, _ in b.flow_forward(oh.dest)}
        for c in keyins:
            hs = [h for h in for_headers(b) if any(l[0] == "call" and l[2] == h.bb for l in b.origins(c.args[1]))]
            ok = False
            for h in hs:
                src = h
                for _ in range(4):
                    L = set(b.origins(src.args[0])) | set(b.origins(src.args[0], transparent=NEXT_TRANSPARENT))
                    if any(l[0] == "call" and l[2] == oh.bb for l in L):
                        ok = True
                        break
                    nxt = [l for l in L if l[0] == "call" and l[2] != src.bb]
                    if not nxt:
                        break
                    src = b.call_at(nxt[0][2])
                    if not src.args:
                        break
            if not ok:
                bad.append(("zone-fields-not-from-this-zone", "the payload keys WriteJob::build collects do not come from the events of the zone plan being written", sp(b, c.bb)))
        return bad
    ctx.run("C07.j", "K9 LOOP + K7", "WriteJob::build", "a zone's column set is collected from its own events", j_)

    def k_(inst):
        """`nulls in optional fields ... returned equal to what was stored`. A column block is built from the string each cell was turned
        into. For the typed lanes an unparsable (empty) cell becomes a bit in the null bitmap; the VarBytes lane has no bitmap (its aux
        area is exactly one length per row). ColumnGroupBuilder::add turns ScalarValue::Null into the empty string, so in a string
        column a null and an empty string are the same cell."""
        bad = []
        b = F.fn("ColumnGroupBuilder::add")
        sw = enum_switches_on(b, lambda L: has_origin(L, "param", "job", proj_contains=[".value"]), r"ScalarValue$")
        if not sw:
            raise AnchorMissing("match on job.value in ColumnGroupBuilder::add")
        a = arms(b, sw[0][0])
        null_calls = sorted({c.nname.split("::")[-2] + "::" + c.nname.split("::")[-1] for c in b.calls if not c.cleanup and c.bb in a.get("Null", set())})
        fin = F.fn("ColumnGroupBuilder::finish")
        swp = [(i_, si) for i_, si in enum_switches_on(fin, lambda L: True, r"PhysicalType$")]
        var_has_bitmap = None
        if swp:
            ar = arms(fin, swp[0][0])
            vb = ar.get("VarBytes", set())
            others = set().union(*[v for k_, v in ar.items() if k_ not in ("VarBytes", "else")]) if ar else set()
            # does the VarBytes arm build a null bitmap like the typed arms (a byte vector sized (rows + 7) / 8)?
            def has_bitmap(blocks):
                for x in blocks:
                    for st in fin.blocks[x]["s"]:
                        v = st.get("v")
                        if v and v.get("r") == "bin" and v.get("op") in ("Div", "Shr") and "k" in v.get("b", {}) and re.match(r"^(8|3)_", str(v["b"]["k"])):
                            return True
                return False
            var_has_bitmap = has_bitmap(vb - others)
        inst.sites.append("Null arm of add: %s; VarBytes block has a null bitmap: %s" % (null_calls, var_has_bitmap))
        if any(x.endswith("String::new") for x in null_calls) and not var_has_bitmap:
            bad.append(("null-string-written-as-empty", "ColumnGroupBuilder::add writes ScalarValue::Null as the empty string and the VarBytes block has no null bitmap: a null in an optional string field comes back as \"\" after FLUSH", sp(b, sw[0][0])))
        return bad
    ctx.run("C07.k", "K10 READS", "ColumnGroupBuilder::add / finish (VarBytes lane)", "a null string cell is distinguishable from an empty string on disk", k_)

    def l_(inst):
        """A sequence result is rebuilt from text zones: SequenceStreamMerger::batches_to_zones writes every cell as text and
        EventBuilder::add_payload_field reads it back, recognising NULL by a marker text. Writer and reader must agree on the marker:
        every cell-to-text function batches_to_zones uses prints Null as a text add_payload_field turns back into null."""
        bad = []
        eb = F.fn("EventBuilder::add_payload_field")
        markers = {x for c in eb.calls if not c.cleanup for a_ in c.args if "k" in a_ and str(a_["k"]).startswith('"') for x in [a_["k"].strip('"')]}
        for i_ in sorted(eb.live_blocks()):
            t = eb.blocks[i_]["t"]
            if t["t"] == "switch":
                pass
        # string constants add_payload_field compares the cell text with
        for c in eb.calls:
            if not c.cleanup and re.search(r"::eq$|str::eq|traits::eq", c.nname):
                for a_ in c.args:
                    for l in eb.origins(a_):
                        if l[0] == "const":
                            markers.add(l[1].strip('"'))
        if "null" not in markers and "" not in markers:
            raise AnchorMissing("the NULL marker text EventBuilder::add_payload_field recognises (found %s)" % sorted(markers)[:6])
        bz = F.fn("SequenceStreamMerger::batches_to_zones")
        fam = [bz] + [F.fn_exact(k) for k in F.keys() if k.startswith(bz.key.split("::{closure")[0] + "::{closure")]
        renderers = {}
        for f_ in fam:
            for c in f_.calls:
                if c.cleanup or not c.callee or not F.has(c.callee):
                    continue
                cal = F.fn_exact(c.callee)
                sw = enum_switches_on(cal, lambda L: True, r"ScalarValue$")
                if not sw or not re.search(r"String$", str(cal.locals[0].get("t", ""))):
                    continue
                a = arms(cal, sw[0][0])
                nb = a.get("Null", set())
                mk = set()
                for i_ in nb:
                    for st in cal.blocks[i_]["s"]:
                        v = st.get("v") or {}
                        if v.get("r") == "use" and str((v.get("o") or {}).get("k", "")).startswith('"'):
                            mk.add(v["o"]["k"].strip('"'))
                for x in cal.calls:
                    if not x.cleanup and x.bb in nb:
                        if x.nname.endswith("String::new"):
                            mk.add("")
                        for a_ in x.args:
                            if "k" in a_ and str(a_["k"]).startswith('"'):
                                mk.add(a_["k"].strip('"'))
                renderers[c.nname] = (mk, sp(f_, c.bb))
        if not renderers:
            raise AnchorMissing("the cell-to-text function(s) of batches_to_zones")
        inst.sites.append("reader recognises %s as NULL; writers: %s" % (sorted(m for m in markers if m in ("null", "")), {k.split("::")[-1]: sorted(v[0]) for k, v in renderers.items()}))
        for nm, (mk, where) in sorted(renderers.items()):
            if not mk or not (mk <= {"null"}):
                bad.append(("null-marker-disagrees:%s" % nm.split("::")[-1], "batches_to_zones writes cells with %s, which prints NULL as %s; EventBuilder::add_payload_field turns only \"null\" back into null: a null in an optional field of a sequence result comes back as that text" % (nm.split("::")[-1], sorted(mk) or "?"), where))
        return bad
    ctx.run("C07.l", "K11 SIB", "SequenceStreamMerger::batches_to_zones / EventBuilder::add_payload_field", "the text a sequence result writes for NULL is the text its reader turns back into null", l_)
