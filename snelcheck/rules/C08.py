"""C08 — pruning structures never rule out a matching zone: builder/probe agreement and guard shape only."""
from .util import *
from .util import _closure_defs as util_closure_defs
import json

EXPLANATION = """
Claimed narrowly. Decides agreement between the code that builds a pruning structure and the code that probes it; does NOT decide no-false-negative of SuRF / binary-fuse / calendar
structures over all value multisets, nor order preservation of the byte encodings.
a1) SuRF: the builder (ZoneSurfFilter::build_all_filtered) and the probe (RangePruner::apply_surf_only) obtain key bytes only from surf_encoding::encode_value.
a2) per-zone xor index: build_for_field, contains_in_zone and zones_maybe_containing hash with the same single function (shared::hash::stable_hash64); probes stringify with value_to_string.
a3) per-field xor filter: FieldXorFilter::new and contains hash with the same single function.
a4) RangePruner: Gt/Gte probe zones_overlapping_ge(exclusive/inclusive), Lt/Lte probe zones_overlapping_le(exclusive/inclusive).
b) TemporalPruner: per-zone overlap guards are Gt -> max_ts > ts, Gte -> max_ts >= ts, Lt -> min_ts < ts, Lte -> min_ts <= ts (op x field table); the Eq path keeps a zone only via contains_ts.
c1) context index completeness: ZoneWriter::write_all inserts (event type, context id, zone id) into the ZoneIndex for every event of every zone plan — no iteration of the two loops skips the insert.
c2) calendar completeness: TemporalCalendarIndex::add_zone_range registers a zone in every hour bucket and every day bucket its range covers — the bucket inserts are guarded only by the
   running-timestamp <= range-end loop conditions (no size- or constant-based exemption; the equality lookup trusts an hour bucket when one exists).
c3) SuRF probe completeness: ZoneSurfFilter::zones_overlapping_{ge,le} probe every zone entry — the loop over self.entries has no early exit.
Noted, not armed: index-build errors in ZoneWriter::write_all are logged while the catalog is written from the plan; temporal pruner skips a zone whose temporal index fails to load.
c4) the SuRF bound searches (find_first_key_geq / find_last_key_leq) resume, at a dead end, from a fork remembered while following equal edges. Whatever holds those forks (a stack, or one slot for
    the deepest fork) is never CLEARED on the way down: inside the descent loop it is changed only by adding to it (push / overwrite with Some(..)) - an assignment that can store None when the
    current node has no sibling forgets the earlier fork, and the search then reports "no key >= bound" for a zone that holds one (the zone is ruled out).
    The remembered forks are found structurally: they are what the branch guarding the `stats.backtracks += 1` site tests.
c5) producer / consumer agreement on the backtrack frames: if a frame (node, s, e, chosen, path_len) is pushed only under a condition ("skip frames that could never be used"), that condition,
    written over the frame's own fields, must be the condition under which the dead-end code uses a popped frame (geq: chosen + 1 < e; leq: chosen > s). A push guarded by the mirror function's
    condition drops exactly the frames the search needs.
d) the SuRF of a zone covers every field any of its events carries: ZoneSurfFilter::build_all_filtered enumerates payload keys inside a loop over the zone's events (not from one chosen event) - the pruner
   rules out a zone that has no entry for the field.
e) lanes: every query literal is encoded in the sign-flipped i64 lane (or, when fractional, moved to an integer bound - f), so a filter is only built for fields whose values encode in that lane:
   is_field_numeric_consistent cannot return true for the kind of values kept above i64::MAX (raw u64 lane).
f) fractional numbers never reach the f64 lane on either side: the builder indexes a fractional value through floor AND ceil into the integer lane; the probe moves a fractional bound with ceil for > / >=
   and floor for < / <= (the other way round, or a truncation, rules out zones that hold matches).
g) time values before 1970: (1) every zone that holds values of a time field gets a calendar entry - in TemporalIndexBuilder::build_for_zone_plans no sign test on the zone's min / max decides whether
   add_zone_range is called for a payload field (the pruner takes its candidates from the calendar only, so a zone without an entry is ruled out for every predicate); (2) TemporalPruner compares the
   zone temporal index (contains_ts, min_ts / max_ts) with the literal as given, not with the literal clamped to 0 (`at < -5` must not become `at < 0`); only calendar look-ups may use the clamped value.
"""
FLOOR = 18
REQUIRED = ["C08.a1", "C08.a2", "C08.a3", "C08.a4", "C08.b", "C08.c1", "C08.c2", "C08.c3", "C08.c4", "C08.c5", "C08.d", "C08.e", "C08.f", "C08.g", "C08.h", "C08.i", "C08.j", "C08.k"]


def family(F, b):
    base = b.key.split("::{closure")[0]
    return [b] + [F.fn_exact(k) for k in F.find("^" + re.escape(base) + r"::\{closure") if k != b.key]


def callees_matching(F, b, rx):
    out = set()
    for bb_ in family(F, b):
        for c in bb_.calls:
            if not c.cleanup and re.search(rx, c.nname):
                out.add(c.nname)
    return out


def run(ctx):
    F = ctx.F

    def a1(inst):
        bld = F.fn("ZoneSurfFilter::build_all_filtered")
        prb = F.fn("RangePruner::apply_surf_only")
        bad = []
        for nm, b in (("builder", bld), ("probe", prb)):
            enc = callees_matching(F, b, r"surf_encoding::\w+$")
            inst.sites.append("%s encoders: %s" % (nm, sorted(enc)))
            # encode_value is the one dispatcher; the only lane encoder that may be used directly is the integer lane it itself uses for integral values
            # (the builder indexes a fractional value by its integer neighbours, C08.f)
            ev = F.fn("surf_encoding::encode_value")
            int_lane = {c_.nname for c_ in ev.calls if not c_.cleanup and c_.nname.endswith("surf_encoding::encode_i64")}
            allowed = {"engine::core::filter::surf_encoding::encode_value"} | int_lane
            if "engine::core::filter::surf_encoding::encode_value" not in enc or not enc <= allowed:
                bad.append(("surf-encoder:%s" % nm, "SuRF %s derives key bytes from %s (must be encode_value, or the integer lane it dispatches to, on both sides)" % (nm, sorted(enc)), None))
            other = callees_matching(F, b, r"(to_be_bytes|to_le_bytes|to_ne_bytes|to_bits)$")
            if other:
                bad.append(("surf-raw-bytes:%s" % nm, "SuRF %s builds key bytes by hand (%s)" % (nm, sorted(other)), None))
        # probe: the bytes handed to zones_overlapping_* come from encode_value
        for c in prb.find_calls(r"ZoneSurfFilter::zones_overlapping_(ge|le)$"):
            L = prb.origins(c.args[1], transparent=re.compile(TRANSPARENT.pattern[:-2] + r"|.*Option::<T>::as_deref)$"))
            if not all(l[0] == "call" and norm_path(l[1]).endswith("surf_encoding::encode_value") for l in L):
                bad.append(("probe-bytes-origin", "bytes probed against the SuRF do not come from encode_value (%s)" % fmt_leaves(L), None))
            inst.sites.append(sp(prb, c.bb))
        return bad
    ctx.run("C08.a1", "K11 SIB", "ZoneSurfFilter builder / RangePruner probe", "one key encoder on both sides", a1)

    HASH = r"(shared::hash::\w+|Hasher>::finish|hash::Hash>::hash|BuildHasher\w*::hash_one|crc32\w*|xxh\w*|ahash::\w+)$"

    def a2(inst):
        bad = []
        sets = {}
        for nm in ("ZoneXorFilterIndex::build_for_field", "ZoneXorFilterIndex::contains_in_zone", "ZoneXorFilterIndex::zones_maybe_containing"):
            b = F.fn(nm)
            sets[nm] = callees_matching(F, b, HASH)
            inst.sites.append("%s: %s" % (nm.split("::")[-1], sorted(sets[nm])))
        vals = list(sets.values())
        if not all(v == vals[0] for v in vals) or len(vals[0]) != 1:
            bad.append(("zxf-hash-disagree", "zone xor index builder and probes hash differently: %s" % {k: sorted(v) for k, v in sets.items()}, None))
        for nm in ("ZoneXorFilterIndex::contains_in_zone", "ZoneXorFilterIndex::zones_maybe_containing"):
            b = F.fn(nm)
            if not b.find_calls(r"zone_xor_index::value_to_string$"):
                bad.append(("zxf-stringify:%s" % nm.split("::")[-1], "%s does not stringify the probe with value_to_string" % nm, None))
        return bad
    ctx.run("C08.a2", "K11 SIB", "ZoneXorFilterIndex", "builder and probes share one hash function", a2)

    def a3(inst):
        bad = []
        sets = {}
        for nm in ("FieldXorFilter::new", "FieldXorFilter::contains"):
            b = F.fn(nm)
            sets[nm] = callees_matching(F, b, HASH)
            inst.sites.append("%s: %s" % (nm.split("::")[-1], sorted(sets[nm])))
        vals = list(sets.values())
        if not all(v == vals[0] for v in vals) or len(vals[0]) != 1:
            bad.append(("xf-hash-disagree", "field xor filter builder and probe hash differently: %s" % {k: sorted(v) for k, v in sets.items()}, None))
        cv = F.fn("FieldXorFilter::contains_value")
        if not cv.find_calls(r"FieldXorFilter::value_to_string$") or not cv.find_calls(r"FieldXorFilter::contains$"):
            bad.append(("xf-probe-path", "contains_value does not go through value_to_string + contains", None))
        return bad
    ctx.run("C08.a3", "K11 SIB", "FieldXorFilter", "builder and probe share one hash function", a3)

    def b_(inst):
        b = F.fn("TemporalPruner::apply_temporal_only")
        want = {"Gt": ("Gt", ".max_ts"), "Gte": ("Ge", ".max_ts"), "Lt": ("Lt", ".min_ts"), "Lte": ("Le", ".min_ts")}
        flip = {"Gt": "Lt", "Ge": "Le", "Lt": "Gt", "Le": "Ge"}
        found = None
        bad = []
        for i in sorted(b.live_blocks()):
            if b.blocks[i]["t"]["t"] != "switch":
                continue
            si = b.switch_info(i)
            if not si or si["kind"] != "enum" or not (si.get("adt") or "").endswith("CompareOp"):
                continue
            a = arms(b, i)
            table = {}
            for v, blocks in a.items():
                for blk in blocks:
                    for s in b.blocks[blk]["s"]:
                        if "a" in s and s["v"]["r"] == "bin" and s["v"]["op"] in ("Gt", "Ge", "Lt", "Le"):
                            A = [p for l in b.origins(s["v"]["a"]) if isinstance(l[-1], tuple) for p in l[-1]]
                            B = [p for l in b.origins(s["v"]["b"]) if isinstance(l[-1], tuple) for p in l[-1]]
                            for fld in (".max_ts", ".min_ts"):
                                if fld in A:
                                    table.setdefault(v, set()).add((s["v"]["op"], fld))
                                elif fld in B:
                                    table.setdefault(v, set()).add((flip[s["v"]["op"]], fld))
            if set(table) >= set(want):
                found = (i, table)
        if not found:
            raise AnchorMissing("op x {min_ts,max_ts} guard table in apply_temporal_only")
        i, table = found
        for v, w in want.items():
            inst.sites.append("%s -> %s" % (v, sorted(table.get(v, []))))
            if table.get(v) != {w}:
                bad.append(("overlap-guard:%s" % v, "CompareOp::%s keeps a zone under %s (sound guard: %s %s ts)" % (v, sorted(table.get(v, [])), w[1], w[0]), None))
        # Eq path: push only under contains_ts == true
        ct = one(b, r"contains_ts$")
        te = bool_result_edge(b, ct, True)
        news = [c for c in b.find_calls(r"CandidateZone::new$")]
        eq_push = [c for c in news if any(b.dominates_edge(e, c.bb) for e in te)]
        if not eq_push:
            bad.append(("eq-guard", "Eq path does not keep zones via contains_ts", None))
        return bad
    ctx.run("C08.b", "K8 GUARD", "TemporalPruner::apply_temporal_only", "range probes compare against the correct end of the zone's time interval", b_)

    def a4(inst):
        b = F.fn("RangePruner::apply_surf_only")
        want = {"Gt": ("zones_overlapping_ge", "false"), "Gte": ("zones_overlapping_ge", "true"), "Lt": ("zones_overlapping_le", "false"), "Lte": ("zones_overlapping_le", "true")}
        bad = []
        found = False
        for i in sorted(b.live_blocks()):
            if b.blocks[i]["t"]["t"] != "switch":
                continue
            si = b.switch_info(i)
            if not si or si["kind"] != "enum" or not (si.get("adt") or "").endswith("CompareOp"):
                continue
            a = arms(b, i)
            tbl = {}
            for v, blocks in a.items():
                for c in calls_in(b, blocks, r"ZoneSurfFilter::zones_overlapping_(ge|le)$"):
                    tbl.setdefault(v, set()).add((c.nname.split("::")[-1], c.args[2].get("k")))
            if not tbl:
                continue
            found = True
            for v, w in want.items():
                inst.sites.append("%s -> %s" % (v, sorted(tbl.get(v, []))))
                if tbl.get(v) != {w}:
                    bad.append(("surf-probe:%s" % v, "CompareOp::%s probes the SuRF with %s (sound: %s inclusive=%s)" % (v, sorted(tbl.get(v, [])), w[0], w[1]), None))
        if not found:
            raise AnchorMissing("op -> zones_overlapping_* table")
        return bad
    ctx.run("C08.a4", "K6 TABLE", "RangePruner::apply_surf_only", "range operators probe the correct side with the correct inclusiveness", a4)

    def c1(inst):
        b = F.fn("ZoneWriter::write_all")
        ins = one(b, r"ZoneIndex::insert$")
        loops = [c for c in for_headers(b) if b.can_reach(c.bb, ins.bb) and b.can_reach(ins.bb, c.bb)]
        if len(loops) < 2:
            raise AnchorMissing("two nested loops around ZoneIndex::insert (found %d)" % len(loops))
        inst.sites = [sp(b, ins.bb)] + [sp(b, c.bb) for c in loops]
        bad = []
        # innermost loop: the one whose Some-body is smallest
        def body_of(nx):
            return set(b.reach(0, src_edges=variant_edge(b, nx, "Some"), cut_blocks=[nx.bb]))
        inner = min(loops, key=lambda c: len(body_of(c)))
        some = variant_edge(b, inner, "Some")
        seen = b.reach(0, src_edges=some, cut_blocks=[ins.bb])
        if inner.bb in seen:
            bad.append(("zone-index-skips-event", "an event of a zone plan can be skipped when the context index is built: a context whose rows continue into a further zone is not listed for that zone", witness_path(b, seen, inner.bb)))
        # inserted triple: the context comes from the inner loop's event, the zone id from the outer loop's plan
        outer = max(loops, key=lambda c: len(body_of(c)))
        if inner.dest[0] not in wide_all(b, ins.args[2], depth=30):
            bad.append(("zone-index-key", "the context recorded in the zone index does not come from the iterated event", None))
        if outer.dest[0] not in wide_all(b, ins.args[3], depth=30):
            bad.append(("zone-index-zone", "the zone id recorded in the zone index does not come from the iterated zone plan", None))
        return bad
    ctx.run("C08.c1", "K9 LOOP", "ZoneWriter::write_all (context index)", "every (context, zone) pair that holds a row is listed in the zone index", c1)

    def c2(inst):
        b = F.fn("TemporalCalendarIndex::add_zone_range")
        ins = [c for c in b.find_calls(r"^roaring::.*::insert$")]
        if len(ins) < 2:
            raise AnchorMissing("hour and day bucket inserts (%d)" % len(ins))
        bad = []
        which = {}
        for c in ins:
            L = fmt_leaves(b.origins(c.args[0], transparent=re.compile(TRANSPARENT.pattern[:-2] + r"|.*Entry.*::or_default|.*HashMap.*::entry)$")))
            gran = "hour" if ".hour" in L else ("day" if ".day" in L else "?")
            which[gran] = c
            # every comparison on whose outcome the insert depends
            guards = []
            for i in b.live_blocks():
                if b.blocks[i]["t"]["t"] != "switch":
                    continue
                si = b.switch_info(i)
                d = si.get("def") if si and si["kind"] == "bool" else None
                if not d or d.get("r") != "bin" or d["op"] not in ("Le", "Lt", "Ge", "Gt", "Eq", "Ne"):
                    continue
                for truth, tgt in ((True, si["true"]), (False, si["false"])):
                    if tgt is not None and b.dominates_edge((i, tgt), c.bb):
                        A, B_ = b.origins(d["a"]), b.origins(d["b"])
                        consts = [l for l in (A | B_) if l[0] in ("const", "constitem")]
                        both_bucket = all(any(l[0] == "call" and "naive_bucket_of" in l[1] or l[0] == "binop" for l in S) for S in (A, B_))
                        guards.append((d["op"], truth, bool(consts), both_bucket))
            inst.sites.append("%s bucket insert guarded by %s" % (gran, [(g[0], g[1]) for g in guards]))
            for g in guards:
                if g[2] or not g[3]:
                    bad.append(("calendar-bucket-exemption:%s" % gran, "the %s-bucket registration of a zone depends on a comparison that is not the range loop's `t <= end` (constant or size based): zones exempted from a bucket are ruled out by the equality lookup, which trusts an existing bucket" % gran, None))
            if not guards:
                bad.append(("calendar-loop-missing:%s" % gran, "no range loop guards the %s bucket insert" % gran, None))
        if set(which) != {"hour", "day"}:
            raise AnchorMissing("bucket inserts found for %s" % sorted(which))
        return bad
    ctx.run("C08.c2", "K8 GUARD", "TemporalCalendarIndex::add_zone_range", "a zone is registered in every calendar bucket it covers", c2)

    def c3(inst):
        bad = []
        for nm in ("ZoneSurfFilter::zones_overlapping_ge", "ZoneSurfFilter::zones_overlapping_le"):
            b = F.fn(nm)
            nxs = loop_nexts(b, lambda L: has_origin(L, "param", "self", proj_contains=[".entries"]))
            if not nxs:
                raise AnchorMissing("loop over self.entries in %s" % nm)
            probe = b.find_calls(r"SurfQuery::may_overlap_(ge|le)_with_stats$")
            if not probe:
                raise AnchorMissing("probe call in %s" % nm)
            inst.sites.append("%s: %s" % (nm.split("::")[-1], sp(b, nxs[0].bb)))
            w = early_exit(b, nxs[0])
            if w:
                bad.append(("probe-loop-early-exit:%s" % nm.split("::")[-1], "%s can stop before all zone entries were probed: unprobed zones are ruled out" % nm, w))
            w2 = skipped_iteration(b, nxs[0], [p.bb for p in probe])
            if w2:
                bad.append(("probe-skipped:%s" % nm.split("::")[-1], "%s can skip the probe of a zone entry" % nm, w2))
        return bad
    ctx.run("C08.c3", "K9 LOOP", "ZoneSurfFilter::zones_overlapping_{ge,le}", "every zone's filter is probed", c3)

    ctx.note("ZoneWriter::write_all logs index-build errors and writes the catalog from the plan (listed-but-missing index); not armed: needs a build fault to manifest")
    ctx.note("TemporalPruner drops a zone whose per-zone temporal index fails to load, and returns Some(empty) when the timestamp calendar is missing; not armed (fault clause)")

    def c4(inst):
        bad = []
        for fn in ("find_first_key_geq_with_stats", "find_last_key_leq_with_stats"):
            b = F.fn("SurfQuery::" + fn)
            # backtrack sites: stores into the `.backtracks` counter
            sites = [i for i in sorted(b.live_blocks()) for st in b.blocks[i]["s"] if st.get("a") and st["a"][-1:] == [".backtracks"]]
            if not sites:
                raise AnchorMissing("stats.backtracks += 1 in %s" % fn)
            # the memory: locals the guarding switches of those sites test (through pop / take / discriminant)
            mem = set()
            for i in sorted(b.live_blocks()):
                if b.blocks[i]["t"]["t"] != "switch":
                    continue
                si = b.switch_info(i)
                if not si or si["kind"] != "enum":
                    continue
                tgt = [t for v_, t in si["edges"].items() if v_ in ("Some",) and t is not None]
                if not any(b.dominates_edge((i, t), x) for t in tgt for x in sites):
                    continue
                pl = si.get("place")
                if pl:
                    for l in wide_all(b, pl, depth=6, partial=False):
                        if re.search(r"Vec<|Option<|SmallVec|VecDeque", b.local_ty(l)) and b.local_name(l):
                            mem.add(l)
            if not mem:
                raise AnchorMissing("the remembered forks tested before a backtrack in %s" % fn)
            # loop blocks: those that can reach themselves
            def cyc(bb_):
                return bb_ in b.live_blocks() and any(bb_ in b.reach(s2[0]) for s2 in b.succ(bb_))
            # memory lives across iterations: it is initialised before the loop (a per-iteration scratch Option is not a memory)
            mem = {l for l in mem if any(not cyc(bb_) for (bb_, j_, dpl_, rv_) in b.defs().get(l, []))}
            if not mem:
                raise AnchorMissing("a fork memory initialised before the descent loop in %s" % fn)
            for l in sorted(mem):
                for (bb, j, dpl, rv) in b.defs().get(l, []):
                    if j == -1 or len(dpl) != 1:
                        continue
                    in_cycle = cyc(bb)
                    if not in_cycle:
                        continue
                    L = b.origins(rv["o"]) if rv.get("r") == "use" else ({("agg", "%s::%s" % (rv.get("adt"), rv.get("var")), bb, ())} if rv.get("r") == "agg" else {("unknown", rv.get("r"), ())})
                    self_dep = l in (wide_all(b, rv["o"], partial=False) if rv.get("r") == "use" else set())
                    only_some = all(x[0] == "agg" and str(x[1]).endswith("Option::Some") for x in L)
                    inst.sites.append("%s: `%s` re-assigned in the descent loop @ %s from %s" % (fn, b.local_name(l), sp(b, bb), fmt_leaves(L)))
                    if not self_dep and not only_some:
                        bad.append(("fork-memory-cleared:%s" % fn, "%s overwrites the remembered fork `%s` inside the descent loop with a value that can be empty (%s): an earlier fork is forgotten and the bound search misses keys" % (fn, b.local_name(l), fmt_leaves(L)), None))
            inst.sites.append("%s: backtrack memory %s" % (fn, sorted(b.local_name(l) + ": " + b.local_ty(l)[:40] for l in mem)))
        return bad
    ctx.run("C08.c4", "K8 GUARD", "SurfQuery::find_first_key_geq / find_last_key_leq", "forks remembered for backtracking are never cleared on the way down", c4)

    def c5(inst):
        bad = []
        FLIP = {"Lt": "Gt", "Gt": "Lt", "Le": "Ge", "Ge": "Le"}

        def norm(op, l, r):
            # canonical orientation: smaller repr on the left
            if repr(l) > repr(r):
                return (FLIP[op], r, l)
            return (op, l, r)
        for fn in ("find_first_key_geq_with_stats", "find_last_key_leq_with_stats"):
            b = F.fn("SurfQuery::" + fn)
            sites = [i for i in sorted(b.live_blocks()) for st in b.blocks[i]["s"] if st.get("a") and st["a"][-1:] == [".backtracks"]]
            if not sites:
                raise AnchorMissing("stats.backtracks += 1 in %s" % fn)
            pops = [c_ for c_ in b.find_calls(r"Vec::pop$") if any(b.can_reach(c_.bb, x) for x in sites)]
            if not pops:
                inst.sites.append("%s: no frame stack (single slot or other design): nothing to compare" % fn)
                continue
            pop = pops[0]
            stack_locals = b._origin_locals(pop.args[0], depth=6)
            pushes = [c_ for c_ in b.find_calls(r"Vec::push$") if b._origin_locals(c_.args[0], depth=6) & stack_locals]
            if not pushes:
                raise AnchorMissing("push onto the frame stack in %s" % fn)
            # ---- use-site guards: comparisons over fields of the popped frame that dominate the backtrack site

            def field_of_pop(opnd):
                out = set()
                for l in b.origins(opnd):
                    if l[0] == "call" and l[2] == pop.bb:
                        idx = [p_ for p_ in l[3] if re.match(r"^\.\d+$", p_)]
                        if len(idx) >= 2:
                            out.add(int(idx[-1][1:]))
                return out

            def expr(opnd, field_fn, depth=4):
                if isinstance(opnd, dict) and "k" in opnd:
                    m_ = re.match(r"^(-?\d+)_", opnd["k"])
                    return ("c", int(m_.group(1)) if m_ else opnd["k"])
                pl = opnd.get("m") or opnd.get("c")
                f_ = field_fn(opnd)
                if f_:
                    return ("f", tuple(sorted(f_)))
                if depth > 0 and pl:
                    for (bb_, j_, dpl_, rv_) in b.defs().get(pl[0], []):
                        if j_ != -1 and rv_.get("r") == "bin" and re.match(r"(Add|Sub)", rv_.get("op", "")):
                            return (rv_["op"][:3], expr(rv_["a"], field_fn, depth - 1), expr(rv_["b"], field_fn, depth - 1))
                        if j_ != -1 and rv_.get("r") == "use":
                            return expr(rv_["o"], field_fn, depth - 1)
                return ("?", fmt_leaves(b.origins(opnd)))
            use_guards = set()
            for i in sorted(b.live_blocks()):
                if b.blocks[i]["t"]["t"] != "switch":
                    continue
                si = b.switch_info(i)
                d = si.get("def") if si and si["kind"] == "bool" else None
                if not d or d.get("r") != "bin" or d.get("op") not in FLIP:
                    continue
                if si["true"] is None or not any(b.dominates_edge((i, si["true"]), x) for x in sites):
                    continue
                l_, r_ = expr(d["a"], field_of_pop), expr(d["b"], field_of_pop)
                if "f" in (l_[0], r_[0]) or any(isinstance(x, tuple) and x and x[0] == "f" for x in (l_[1:] + r_[1:]) if isinstance(x, tuple)):
                    use_guards.add(norm(d["op"], l_, r_))
            # ---- push-side guards
            for pu in pushes:
                tup = None
                for l in b._origin_locals(pu.args[1], depth=4):
                    for (bb_, j_, dpl_, rv_) in b.defs().get(l, []):
                        if j_ != -1 and rv_.get("r") == "agg" and rv_.get("ak") == "tuple":
                            tup = rv_
                if tup is None:
                    continue
                def root(opnd, depth=6):
                    """the user variable (named local) an operand is a plain copy of"""
                    if isinstance(opnd, dict) and "k" in opnd:
                        return None
                    pl = opnd.get("m") or opnd.get("c") if isinstance(opnd, dict) else opnd
                    while pl and depth > 0:
                        l = pl[0]
                        if b.local_name(l) and len(pl) == 1:
                            return l
                        ds = [d_ for d_ in b.defs().get(l, []) if d_[1] != -1 and len(d_[2]) == 1]
                        if len(ds) != 1 or ds[0][3].get("r") != "use":
                            return l if len(pl) == 1 else None
                        o2 = ds[0][3]["o"]
                        pl = o2.get("m") or o2.get("c")
                        depth -= 1
                    return None
                fld_roots = [root(o_) for o_ in tup["o"]]

                def field_of_push(opnd):
                    r0 = root(opnd)
                    return {k_ for k_, fr in enumerate(fld_roots) if fr is not None and fr == r0}
                guards = []
                for i in sorted(b.live_blocks()):
                    if b.blocks[i]["t"]["t"] != "switch":
                        continue
                    si = b.switch_info(i)
                    d = si.get("def") if si and si["kind"] == "bool" else None
                    if not d or d.get("r") != "bin" or d.get("op") not in FLIP or si["true"] is None or si["false"] is None:
                        continue
                    if not b.dominates_edge((i, si["true"]), pu.bb):
                        continue
                    # specific to the push: the other outcome re-joins the same iteration after the push
                    # specific to the push: the arm of the true edge holds nothing but the construction of the frame and the push itself
                    arm = edge_dominated(b, (i, si["true"]))
                    others = [c_ for c_ in calls_in(b, arm, r".") if c_.bb != pu.bb and not re.search(r"Vec::len$|slice::len$", c_.nname) and not TRANSPARENT.match(c_.nname)]
                    if others:
                        continue
                    guards.append(norm(d["op"], expr(d["a"], field_of_push), expr(d["b"], field_of_push)))
                inst.sites.append("%s: push @ %s guarded by %s; frames used under %s" % (fn, sp(b, pu.bb), guards or "nothing", sorted(use_guards)))
                for g in guards:
                    if g not in use_guards:
                        bad.append(("push-guard-differs-from-use:%s" % fn, "%s pushes a backtrack frame only under %s but uses a popped frame under %s: frames the dead-end code needs are never recorded" % (fn, g, sorted(use_guards)), None))
        return bad
    ctx.run("C08.c5", "K11 SIB", "SurfQuery bound searches: frame push vs frame use", "a conditional push of a backtrack frame uses the condition the frame is later used under", c5)

    def d_(inst):
        b = F.fn("ZoneSurfFilter::build_all_filtered")
        ks = b.find_calls(r"BTreeMap::keys$|HashMap.*::keys$|Map.*::keys$")
        if not ks:
            raise AnchorMissing("payload.keys() in build_all_filtered")
        hs = for_headers(b)
        bad = []
        for k_ in ks:
            # the map whose keys are taken: item of a for-loop over `.events`, not `events.get(0)` / first()
            L = b.origins(k_.args[0], transparent=NEXT_TRANSPARENT, depth=16)
            from_loop = [h for h in hs if h.dest and (h.dest[0] in wide_all(b, k_.args[0], partial=False))]
            one_event = [l for l in L if l[0] == "call" and re.search(r"slice::get$|slice::first$|slice::last$|Vec::get$|Index.*::index$", norm_path(l[1]))]
            over_events = any(".events" in json.dumps(st.get("v", {})) for h in from_loop for blk in b.blocks for st in blk["s"] if st.get("a") and st["a"][0] in wide_all(b, h.args[0], partial=False, depth=8))
            inst.sites.append("%s: keys() of %s; loop over events=%s" % (sp(b, k_.bb), fmt_leaves(L), bool(from_loop and over_events)))
            if one_event or not (from_loop and over_events):
                bad.append(("keys-from-one-event", "build_all_filtered takes a zone's fields from one event (%s): a zone whose chosen event lacks an optional field has no SuRF entry for it and is ruled out" % (fmt_leaves(set(one_event)) if one_event else "no loop over the zone's events"), None))
        return bad
    ctx.run("C08.d", "K9 LOOP", "ZoneSurfFilter::build_all_filtered", "the SuRF of a zone is built from the fields of all its events", d_)

    def e_(inst):
        b = F.fn("zone_surf_filter::is_field_numeric_consistent")
        # Kind::U aggregates that are compared with `kind` where the result decides the return value
        us = [(bb, v) for (bb, j, v, dst) in b.aggregates("Kind", "U")]
        cmpU = []
        for c_ in b.find_calls(r"PartialEq::ne$|PartialEq::eq$"):
            # one side is the literal Kind::U (a fresh aggregate and nothing else), not a variable that may hold it
            if any((lambda L: len(L) == 1 and all(l[0] == "agg" and str(l[1]).endswith("Kind::U") for l in L))(b.origins(a_)) for a_ in c_.args):
                cmpU.append(c_)
        inst.sites = ["Kind::U built at %s" % [sp(b, x[0]) for x in us], "compared with the result kind at %s" % [sp(b, c_.bb) for c_ in cmpU]]
        def rejects(c_):
            """the comparison's outcome is the return value, or its 'is U' outcome returns false"""
            if c_.dest == [0]:
                return True
            is_ne = c_.nname.endswith("::ne")
            try:
                es = bool_result_edge(b, c_, not is_ne)   # edge on which kind == U
            except Exception:
                return False
            for (i_, t_) in es:
                for st in b.blocks[t_]["s"]:
                    if st.get("a") == [0] and st["v"].get("r") == "use" and st["v"]["o"].get("k") == "false":
                        return True
            return False
        if not [c_ for c_ in cmpU if rejects(c_)]:
            return [("u64-lane-filter-built", "is_field_numeric_consistent accepts a field whose values are kept above i64::MAX (raw u64 lane): a SuRF is built whose keys do not order against any query literal", None)]
        return []
    ctx.run("C08.e", "K8 GUARD", "is_field_numeric_consistent", "no SuRF for values that live outside the literal lane", e_)

    def f_(inst):
        bad = []
        bld = F.fn("ZoneSurfFilter::build_all_filtered")
        fl = bld.find_calls(r"f64::floor$|f64>::floor$|::floor$")
        ce = bld.find_calls(r"f64::ceil$|::ceil$")
        ei = bld.find_calls(r"surf_encoding::encode_i64$")

        def feeds(c_, encs):
            return any(c_.dest and c_.dest[0] in wide_all(bld, e_.args[0], partial=False) for e_ in encs)
        ok_b = any(feeds(c_, ei) for c_ in fl) and any(feeds(c_, ei) for c_ in ce)
        inst.sites.append("builder: floor->encode_i64=%s ceil->encode_i64=%s" % (any(feeds(c_, ei) for c_ in fl), any(feeds(c_, ei) for c_ in ce)))
        if not ok_b:
            bad.append(("fractional-value-lane", "build_all_filtered does not index a fractional value through both floor and ceil into the integer lane: it falls into the f64 lane, which no integer bound can reach", None))
        prb = F.fn("RangePruner::apply_surf_only")
        pfl = prb.find_calls(r"::floor$")
        pce = prb.find_calls(r"::ceil$")
        if not pfl or not pce:
            bad.append(("fractional-bound-lane", "apply_surf_only does not move a fractional bound to an integer (no floor / ceil): it is looked up in the f64 lane", None))
            return bad
        # direction table: which CompareOp variants lead to ceil, which to floor. `matches!(op, A | B)` compiles to an enum switch whose arms set a bool
        # that a second switch tests; resolve variant -> bool value -> side.
        side = {}
        for bi in sorted(prb.live_blocks()):
            if prb.blocks[bi]["t"]["t"] != "switch":
                continue
            bs = prb.switch_info(bi)
            if not bs or bs["kind"] != "bool" or bs["true"] is None or bs["false"] is None:
                continue
            t_ceil = any(prb.dominates_edge((bi, bs["true"]), c_.bb) for c_ in pce)
            t_floor = any(prb.dominates_edge((bi, bs["true"]), c_.bb) for c_ in pfl)
            f_ceil = any(prb.dominates_edge((bi, bs["false"]), c_.bb) for c_ in pce)
            f_floor = any(prb.dominates_edge((bi, bs["false"]), c_.bb) for c_ in pfl)
            if not ((t_ceil and f_floor) or (t_floor and f_ceil)):
                continue
            pl = bs["op"].get("m") or bs["op"].get("c")
            tb = [bb for (bb, j, dpl, rv) in prb.defs().get(pl[0], []) if j != -1 and rv.get("r") == "use" and (rv["o"].get("k") == "true")]
            fb = [bb for (bb, j, dpl, rv) in prb.defs().get(pl[0], []) if j != -1 and rv.get("r") == "use" and (rv["o"].get("k") == "false")]
            for ei in sorted(prb.live_blocks()):
                if prb.blocks[ei]["t"]["t"] != "switch":
                    continue
                es = prb.switch_info(ei)
                if not es or es["kind"] != "enum" or not str(es.get("adt") or "").endswith("CompareOp"):
                    continue
                for var, tgt in es["edges"].items():
                    if tgt is None:
                        continue
                    rt = prb.reach(tgt, cut_blocks=fb + [bi])
                    rf = prb.reach(tgt, cut_blocks=tb + [bi])
                    to_true = any(x in rt or x == tgt for x in tb)
                    to_false = any(x in rf or x == tgt for x in fb)
                    if to_true == to_false:
                        continue
                    names = [var] if var != "else" else list(es.get("else_variants") or [])
                    for n_ in names:
                        if to_true:
                            side[n_] = "ceil" if t_ceil else "floor"
                        else:
                            side[n_] = "ceil" if f_ceil else "floor"
        inst.sites.append("probe: fractional bound rounding by operator: %s" % {k_: side[k_] for k_ in sorted(side) if k_ in ("Gt", "Gte", "Lt", "Lte")})
        want = {"Gt": "ceil", "Gte": "ceil", "Lt": "floor", "Lte": "floor"}
        if not any(k_ in side for k_ in want):
            raise AnchorMissing("the operator -> ceil / floor decision in apply_surf_only")
        for var, w in want.items():
            if side.get(var) and side[var] != w:
                bad.append(("fractional-bound-direction:%s" % var, "apply_surf_only rounds a fractional bound of %s with %s (needs %s): zones holding matches are ruled out" % (var, side[var], w), None))
        return bad
    ctx.run("C08.f", "K6 TABLE + K7", "ZoneSurfFilter::build_all_filtered / RangePruner::apply_surf_only", "fractional values and bounds are mapped into the integer lane with the sound rounding", f_)

    def g_(inst):
        bad = []
        bb_ = [k for k in F.find(r"^engine::core::time::temporal_builder::TemporalIndexBuilder.*::build_for_zone_plans(::\{closure#0\})?$")]
        b = None
        for k in bb_:
            B = F.fn_exact(k)
            if B.find_calls(r"TemporalCalendarIndex::add_zone_range$"):
                b = B
        if b is None:
            raise AnchorMissing("build_for_zone_plans with add_zone_range calls")
        for c_ in b.find_calls(r"TemporalCalendarIndex::add_zone_range$"):
            if "timestamp" in str_consts(b, c_.args[0], depth=6):
                continue   # core timestamp: unsigned clock values

            def acc(op, A, B_, truth):
                # a sign test: something compared with the constant 0
                za = any(l[0] == "const" and re.match(r"^-?0_", str(l[1])) for l in A)
                zb = any(l[0] == "const" and re.match(r"^-?0_", str(l[1])) for l in B_)
                return (za or zb) and op in ("Ge", "Gt", "Lt", "Le")
            g = cmp_guard(b, c_.bb, acc)
            inst.sites.append("add_zone_range @ %s: behind a sign test=%s" % (sp(b, c_.bb), bool(g)))
            if g:
                bad.append(("calendar-entry-behind-sign-test", "build_for_zone_plans registers a zone in a payload field's calendar only if a sign test on its values passes (%s): a zone holding a pre-1970 value has no entry and every time predicate rules it out" % sp(b, c_.bb), None))
        p = F.fn("TemporalPruner::apply_temporal_only")
        clamps = [c_ for c_ in p.find_calls(r"Ord::max$|cmp::max$|i64::max$")]
        cl_locals = set()
        for c_ in clamps:
            cl_locals |= {l for l, _ in p.flow_forward(c_.dest)} | set(c_.dest)
        for c_ in p.find_calls(r"ZoneTemporalIndex::contains_ts$"):
            dep = wide_all(p, c_.args[1], partial=False, depth=8)
            inst.sites.append("contains_ts @ %s: literal clamped=%s" % (sp(p, c_.bb), bool(dep & cl_locals)))
            if dep & cl_locals:
                bad.append(("zone-index-compared-with-clamped-literal", "apply_temporal_only checks a zone's temporal index against the literal clamped to 0 (%s): `at = -10` / `at < -5` are evaluated as 0" % sp(p, c_.bb), None))
        for i in sorted(p.live_blocks()):
            for st in p.blocks[i]["s"]:
                v = st.get("v")
                if v and v.get("r") == "bin" and v.get("op") in ("Gt", "Ge", "Lt", "Le"):
                    fa, fb = fmt_leaves(p.origins(v["a"])), fmt_leaves(p.origins(v["b"]))
                    if re.search(r"\.(min_ts|max_ts)", fa + fb):
                        dep = wide_all(p, v["a"], partial=False, depth=8) | wide_all(p, v["b"], partial=False, depth=8)
                        if dep & cl_locals:
                            bad.append(("zone-range-compared-with-clamped-literal", "apply_temporal_only compares a zone's min_ts / max_ts with the literal clamped to 0 (%s)" % sp(p, i), None))
        return bad
    ctx.run("C08.g", "K8 GUARD + K7", "TemporalIndexBuilder::build_for_zone_plans / TemporalPruner::apply_temporal_only", "a value before 1970 neither hides its zone nor changes the predicate", g_)

    def h_(inst):
        """The calendar answers `which zones may hold a value in this hour / day bucket`. A zone must therefore be entered for the
        bucket of EVERY value it holds: either as one range from its minimum to its maximum, or value by value. Value by value
        means: a loop over the very list of values the minimum and maximum were taken from, no iteration skipped, and the bucket
        position computed from the element itself (clamp / cast only - a coarser position such as the day start is found only
        while no other zone registered the hour)."""
        bad = []
        b = F.fn("TemporalIndexBuilder::build_for_zone_plans")
        calls_ = [c for c in b.calls if not c.cleanup and c.nname.endswith("TemporalCalendarIndex::add_zone_range")]
        if len(calls_) < 2:
            raise AnchorMissing("add_zone_range calls in build_for_zone_plans (%d, confirmed 3)" % len(calls_))
        mins = [c for c in b.calls if not c.cleanup and c.nname.endswith("Iterator::min")]
        maxs = [c for c in b.calls if not c.cleanup and c.nname.endswith("Iterator::max")]

        def flow(c):
            return {l for l, _ in b.flow_forward(c.dest)}

        def vals_of(c):
            """locals of the collection whose iterator feeds a min()/max() call"""
            out = set()
            for l in b.origins(c.args[0], transparent=NEXT_TRANSPARENT):
                if l[0] == "call":
                    cc = b.call_at(l[2])
                    if cc.args:
                        out |= b._origin_locals(cc.args[0])
            return out | b._origin_locals(c.args[0])
        hdrs = for_headers(b)
        n = 0
        for c in calls_:
            lo, hi = c.args[2], c.args[3]
            wl, wh = wide_all(b, lo) | b._origin_locals(lo), wide_all(b, hi) | b._origin_locals(hi)
            # the server-clock calendar of the core timestamp is fed from the events directly: same shape rules apply
            # lower end from the minimum only, upper end from the maximum only (a point entry built from either end is not a range)
            rng = [(mn, mx) for mn in mins for mx in maxs if (flow(mn) & wl) and (flow(mx) & wh) and not (flow(mx) & wl) and not (flow(mn) & wh) and (vals_of(mn) & vals_of(mx))]
            if rng:
                n += 1
                inst.sites.append("%s: whole range [min, max] of the zone's values" % sp(b, c.bb))
                continue
            # value by value
            ok = False
            why = "neither the [min, max] range of the zone's values nor one entry per value"
            for h in hdrs:
                try:
                    some = variant_edge(b, h, "Some")
                except AnchorMissing:
                    continue
                body_ = set(b.reach(0, src_edges=some, cut_blocks=[h.bb]))
                if c.bb not in body_ or not b.can_reach(c.bb, h.bb):
                    continue
                elem = {l for l, _ in b.flow_forward(h.dest)}
                if not (elem & wl and elem & wh):
                    continue
                coll = set()
                for l in b.origins(h.args[0], transparent=NEXT_TRANSPARENT):
                    if l[0] == "call":
                        cc = b.call_at(l[2])
                        if cc.args:
                            coll |= b._origin_locals(cc.args[0])
                coll |= b._origin_locals(h.args[0])
                src_ok = any(vals_of(m) & coll for m in mins + maxs)
                if not src_ok:
                    why = "the per-value loop does not run over the list of values the zone's minimum / maximum are taken from"
                    continue
                if skipped_iteration(b, h, [c.bb]):
                    why = "an iteration of the per-value loop can skip add_zone_range"
                    continue
                # bucket position = the element itself: no arithmetic between the loop element and the argument
                coarse = []
                for l_ in (wl | wh):
                    for (bb_, j_, dpl, rv) in b.defs().get(l_, []):
                        if rv.get("r") == "bin" and rv.get("op") in ("Div", "Rem", "Mul", "Shr", "Shl", "BitAnd", "Sub", "SubWithOverflow", "MulWithOverflow") and bb_ in body_:
                            coarse.append(rv.get("op"))
                if coarse:
                    why = "the bucket position is computed from the value with %s: a coarser position than the value's own bucket" % sorted(set(coarse))
                    continue
                ok = True
                n += 1
                inst.sites.append("%s: one entry per value (loop @ %s)" % (sp(b, c.bb), sp(b, h.bb)))
            if not ok:
                bad.append(("calendar-misses-values", "build_for_zone_plans enters a zone into the calendar with %s: an equality probe on a value whose bucket is not entered prunes the zone" % why, sp(b, c.bb)))
        if n + len(bad) < 2:
            raise AnchorMissing("classified add_zone_range calls (%d)" % n)
        return bad
    ctx.run("C08.h", "K9 LOOP + K7", "TemporalIndexBuilder::build_for_zone_plans", "a zone is entered into the calendar for the bucket of every value it holds", h_)

    def i_(inst):
        """SuRF keys are byte strings in one order-preserving lane (sign-flipped i64). encode_value leaves that lane for a value
        without an i64 view (raw u64 above i64::MAX, float beyond the i64 range). Two sides must stay in the lane or give up:
        (1) RangePruner::apply_surf_only encodes the bound only behind a test that it has an i64 view or is an in-range float,
        (2) ZoneSurfFilter::build_all_filtered hands a stored value to encode_value only behind the same kind of range test,
        (3) TemporalPruner never looks up a made-up instant: the timestamp it probes with has no constant origin."""
        bad = []
        b = F.fn("RangePruner::apply_surf_only")
        ev = one(b, r"surf_encoding::encode_value$")
        isn = [c for c in b.calls if not c.cleanup and c.nname.endswith("Option::is_none") and any(l[0] == "call" and norm_path(l[1]).endswith("ScalarValue::as_i64") for l in b.origins(c.args[0]))]
        isa = [c for c in b.calls if not c.cleanup and c.nname.endswith("Option::is_some_and") and any(l[0] == "call" and norm_path(l[1]).endswith("ScalarValue::as_f64") for l in b.origins(c.args[0]))]
        cut = []
        for c in isn + isa:
            try:
                cut += bool_result_edge(b, c, False)
            except AnchorMissing:
                pass
        inst.sites += [sp(b, ev.bb)] + [sp(b, c.bb) for c in isn + isa]
        if not isn or not cut or ev.bb in set(b.reach(0, cut_edges=cut)):
            bad.append(("bound-lane-unchecked", "RangePruner::apply_surf_only encodes the bound without having established that it has an i64 view (or is a float inside the i64 range): a bound in the raw u64 / f64 lane is compared with sign-flipped i64 keys and zones holding matching rows are pruned", sp(b, ev.bb)))
        z = F.fn("ZoneSurfFilter::build_all_filtered")
        zev = [c for c in z.calls if not c.cleanup and c.nname.endswith("surf_encoding::encode_value")]
        if not zev:
            raise AnchorMissing("encode_value in ZoneSurfFilter::build_all_filtered")
        fl = [c for c in z.calls if not c.cleanup and c.nname.endswith("Option::filter") and any(l[0] == "call" and norm_path(l[1]).endswith("ScalarValue::as_f64") for l in z.origins(c.args[0]))]
        ranged = []
        for c in fl:
            for k_ in (util_closure_defs(z, c.args[1]) if len(c.args) > 1 else []):
                if F.has(k_) and re.search(r"9223372036854775807|e18_f64|i64>::M(AX|IN)|i64::M(AX|IN)", json.dumps(F.fn_exact(k_).rec.get("blocks"))):
                    ranged.append(c)
        zcut = []
        for c in ranged:
            try:
                zcut += variant_edge(z, c, "None", all_=True)
            except AnchorMissing:
                pass
        inst.sites += [sp(z, c.bb) for c in zev] + ["range tests in front of encode_value (stored side): %d" % len(ranged)]
        for c in zev:
            if not zcut or not any(z.dominates_edge(e, c.bb) for e in zcut):
                bad.append(("stored-value-leaves-lane", "ZoneSurfFilter::build_all_filtered hands a value to encode_value without a range test: a float beyond the i64 range (or a u64 above i64::MAX) is stored in another lane than every bound it is compared with", sp(z, c.bb)))
        t = F.fn("TemporalPruner::apply_temporal_only")
        mx = [c for c in t.calls if not c.cleanup and c.nname.endswith("Ord::max")]
        probes = [c for c in t.calls if not c.cleanup and re.search(r"contains_ts$|zones_intersecting$", c.nname)]
        if not probes:
            raise AnchorMissing("calendar / zone-index probes in TemporalPruner::apply_temporal_only")
        consts = set()
        for c in probes:
            for a_ in c.args[1:]:
                for l in t.origins(a_, transparent=re.compile(r"Ord::max$")):
                    if l[0] == "const" and re.match(r"^-?\d+_i64$", str(l[1])):
                        consts.add(l[1])
                for m_ in mx:
                    if t._origin_locals(a_) & {x for x, _ in t.flow_forward(m_.dest)}:
                        for l in t.origins(m_.args[0]):
                            if l[0] == "const" and re.match(r"^-?\d+_i64$", str(l[1])):
                                consts.add(l[1])
        inst.sites.append("TemporalPruner: constant instants probed: %s" % sorted(consts))
        if consts:
            bad.append(("probe-with-made-up-instant", "TemporalPruner::apply_temporal_only probes the calendar with the constant %s for a literal it cannot read as a time: the zones of second 0 are returned instead of `cannot prune`" % sorted(consts), None))
        return bad
    ctx.run("C08.i", "K8 GUARD + K7", "RangePruner / ZoneSurfFilter::build_all_filtered / TemporalPruner", "a bound or value that cannot be ordered in the key lane makes the pruner give up", i_)

    def j_(inst):
        """`no structure` must mean `cannot prune`: (1) TemporalPruner answers Some(zones) only behind the Ok edge of a calendar load,
        (2) ZoneXorFilterIndex::build_for_field does not leave a zone out of the index it returns: when a zone's filter cannot be
        built, the field gets no index at all."""
        bad = []
        t = F.fn("TemporalPruner::apply_temporal_only")
        loads = [c for c in t.calls if not c.cleanup and c.nname.endswith("load_field_calendar")]
        if len(loads) < 2:
            raise AnchorMissing("load_field_calendar calls in apply_temporal_only (%d)" % len(loads))
        cut = []
        for c in loads:
            cut += variant_edge(t, c, "Ok", all_=True)
        somes = [bb for (bb, jx, v, dst) in t.aggregates("option::Option", "Some") if dst == [0]]
        inst.sites += [sp(t, c.bb) for c in loads] + ["%d Some(..) returns" % len(somes)]
        seen = set(t.reach(0, cut_edges=cut))
        for sb in somes:
            if sb in seen:
                bad.append(("answer-without-calendar", "TemporalPruner::apply_temporal_only can answer Some(zones) on a path on which no calendar was loaded: a missing / unreadable calendar prunes every zone", sp(t, sb)))
                break
        x = F.fn("ZoneXorFilterIndex::build_for_field")
        tf = one(x, r"BinaryFuse8::try_from\w*$")
        put = one(x, r"ZoneXorFilterIndex::put_zone_filter$")
        err = variant_edge(x, tf, "Err", all_=True)
        xsomes = [bb for (bb, jx, v, dst) in x.aggregates("option::Option", "Some") if dst == [0]]
        inst.sites += [sp(x, tf.bb), sp(x, put.bb)]
        reach_err = set(x.reach(0, src_edges=err))
        if any(sb in reach_err for sb in xsomes):
            bad.append(("zone-left-out-of-xor-index", "ZoneXorFilterIndex::build_for_field goes on after a zone's filter could not be built and returns an index without that zone: zones_maybe_containing never reports it, i.e. it is pruned for every equality probe", sp(x, tf.bb)))
        return bad
    ctx.run("C08.j", "K2 CUT", "TemporalPruner::apply_temporal_only / ZoneXorFilterIndex::build_for_field", "a missing pruning structure means `cannot prune`", j_)

    def k_(inst):
        """Calendar bucket ids are 32 bits wide and compared by order (zones_for_ge / le / range). The map from a bucket start (u64
        seconds) to its id must therefore be monotone: the narrowing cast in bucket_id takes a saturated value (Ord::min with the
        largest id), never a masked / wrapped one - a wrapped id of a time after 2106 sorts among 1970..2106 and range lookups lose
        the zone."""
        bad = []
        b = F.fn("TemporalCalendarIndex::bucket_id")
        casts = []
        for i_ in sorted(b.live_blocks()):
            for st in b.blocks[i_]["s"]:
                v = st.get("v") or {}
                if v.get("r") == "cast" and len(st.get("a", [])) == 1 and b.local_ty(st["a"][0]) == "u32":
                    pl = v["o"].get("m") or v["o"].get("c")
                    if pl and b.local_ty(pl[0]) in ("u64", "i64", "usize"):
                        casts.append((i_, v))
                if v.get("r") == "bin" and v.get("op") in ("BitAnd", "Rem", "Shl", "Shr"):
                    bad.append(("bucket-id-wraps", "TemporalCalendarIndex::bucket_id computes the id with %s: ids of buckets after 2106-02-07 wrap around and no longer order like time" % v.get("op"), sp(b, i_)))
        ret_cast = [(i_, v) for i_, v in casts]
        if not ret_cast:
            raise AnchorMissing("the u64 -> u32 cast in TemporalCalendarIndex::bucket_id")
        for i_, v in ret_cast:
            L = b.origins(v["o"])
            sat = any(l[0] == "call" and re.search(r"Ord::min$|::min$|saturating|try_from|clamp$", norm_path(l[1])) for l in L)
            inst.sites.append("%s: cast operand <- %s" % (sp(b, i_), fmt_leaves(L)))
            if not sat and not any(x[0] == "bucket-id-wraps" for x in bad):
                bad.append(("bucket-id-wraps", "TemporalCalendarIndex::bucket_id narrows the bucket start to 32 bits without saturating it: ids of buckets after 2106-02-07 wrap around and no longer order like time", sp(b, i_)))
        return bad
    ctx.run("C08.k", "K7 PROV", "TemporalCalendarIndex::bucket_id", "calendar bucket ids order like the bucket starts", k_)
