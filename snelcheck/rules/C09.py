"""C09 — aggregates equal a fold over the selection: merge tables and row-filter parity only."""
from .util import *
from .util import _closure_defs as util_closure_defs
import json

EXPLANATION = """
Claimed narrowly. Decides table/diagonal clauses and row-filter parity; does NOT decide numeric equality of metrics or bucket alignment.
a1) AggState::merge has a diagonal arm (V, V) with an effect for every AggState variant.
a3) AggState::merge never discards what it has: an accumulator field of `self` is overwritten with a plain copy of `other`'s field only on an edge where that accumulator is known to be empty (None).
a2) snapshot_aggregator maps every AggregatorImpl variant to the like-named AggState (CountField -> CountAll is the one documented exception); no wildcard.
b) AggPartial::merge visits every incoming group: insert-or-merge inside the loop over other.groups, no early exit from the loop.
c) row-filter parity: ConditionEvaluatorBuilder::build_from_plan must add the event-type / FOR-context / SINCE conditions (add_special_fields) in aggregation mode as in selection mode.
(d) chunked (SIMD) column folds take the values and the validity flags of a chunk at the SAME offset: in Sum/Avg::update_column_simd both operands of every lane-wise Simd operation
depend on the same loop-carried index (a mask built from the whole validity vector, or from another offset, silently applies chunk 0's NULL pattern to every chunk - the fold then differs from the
row-at-a-time fold whenever NULLs are not aligned with the chunking).
(e) the per-sink group-key cache is probed with a hash that sees the row's CALENDAR bucket: whatever AggregateSink::compute_group_key hands to GroupKeyCache::get_or_insert as the probe is computed
through the same bucketing as the key (GroupKey::from_row_with_indices, or time_bucketing::bucket_of directly) - a probe built from a cheaper stand-in for the bucket (UTC hour / day slots) lets a row
inherit the key, and so the bucket, of an earlier row whenever the configured calendar does not coincide with UTC.
Borrowed: C07.h (bitmap byte / bit index agreement: the SIMD TOTAL / AVG path reads validity through get_i64_slice_with_validity).
(f) LIMIT on an aggregate caps groups, never input events: MemTableSource::determine_limit and SegmentQueryRunner::determine_eval_limit (the per-source row limits, upstream of the AggregateOp) hand out
a bound only on paths where plan.aggregate_plan is None.
(g) COUNT UNIQUE reads a value through every view a column can have: in CountUnique::update the "missing value" fallback (insert of the empty string) is reached only after BOTH get_str_at and get_i64_at
returned None (an all-integer batch is a typed i64 column without a string view).
(h) every event is in exactly one group: the coordinator (AggregateStreamMerger::emit_merged_groups) must not discard groups - today it drops every group with an empty key component, which is how the
sink spells a null / missing BY value, so group counts do not add up to COUNT.
(i) a PER bucket that starts before 1970 keeps its identity through the coordinator: the shards emit the bucket start as a signed integer; AggregateStreamMerger::parse_aggregate_row reads a negative
Int64 / Timestamp bucket through a bit-preserving cast and does not send it through scalar_to_u64 (whose None for a negative value is the 'no bucket' key: all pre-1970 buckets would merge into null).
"""
FLOOR = 20
REQUIRED = ["C09.a1", "C09.a2", "C09.a3", "C09.b", "C09.c", "C09.d", "C09.e", "C09.f", "C09.g", "C09.h", "C09.i", "C09.j", "C09.k", "C09.l", "C09.m", "C09.n", "C09.o", "C09.p", "C09.q", "C09/C07.h"]


def run(ctx):
    F = ctx.F
    ctx.borrow("C07", ["C07.h"], "C09")

    def a1(inst):
        b = F.fn("aggregate::partial::AggState::merge")
        adt = F.adts["engine::core::read::aggregate::partial::AggState"]
        variants = [v["n"] for v in adt["variants"]]
        sws = []
        for i in sorted(b.live_blocks()):
            if b.blocks[i]["t"]["t"] == "switch":
                si = b.switch_info(i)
                if si and si["kind"] == "enum" and (si.get("adt") or "").endswith("AggState"):
                    L = b.origins(si["place"])
                    who = "self" if has_origin(L, "param", "self") else ("other" if has_origin(L, "param", "other") else "?")
                    sws.append((i, si, who))
        if not sws:
            raise AnchorMissing("match on (self, other)")
        bad = []
        for V in variants:
            ok = False
            for i, si, who in sws:
                if who == "?" or V not in si["edges"]:
                    continue
                blocksV = edge_dominated(b, (i, si["edges"][V]))
                for j, sj, who2 in sws:
                    if j in blocksV and who2 != who and V in sj["edges"]:
                        diag = edge_dominated(b, (j, sj["edges"][V]))
                        eff = any(("a" in s and s["a"][0] != 0) for blk in diag for s in b.blocks[blk]["s"]) or any(c.bb in diag and not c.cleanup for c in b.calls)
                        if eff:
                            ok = True
            inst.sites.append("(%s,%s): %s" % (V, V, "merged" if ok else "MISSING"))
            if not ok:
                bad.append(("no-diagonal:%s" % V, "AggState::merge has no effective (%s, %s) arm: partial results of that metric from other shards/flows are dropped" % (V, V), None))
        return bad
    ctx.run("C09.a1", "K6 TABLE", "AggState::merge", "every aggregate state kind is merged with its own kind", a1)

    def a3(inst):
        b = F.fn("aggregate::partial::AggState::merge")
        bad = []
        n = 0

        def self_field(place_or_op):
            L = b.origins(place_or_op)
            for l in L:
                if l[0] == "param" and l[1] == "self" and l[2]:
                    return tuple(p for p in l[2] if p.startswith("@") or p.startswith("."))
            return None

        def other_field(op):
            for l in b.origins(op):
                if l[0] == "param" and l[1] == "other" and l[2]:
                    return tuple(p for p in l[2] if p.startswith("@") or p.startswith("."))
            return None
        # edges on which a given self field is known to be None
        none_edges = {}
        for c_ in b.find_calls(r"Option::is_none$"):
            f_ = self_field(c_.args[0])
            if f_:
                none_edges.setdefault(f_, []).extend(bool_result_edge(b, c_, True))
        for c_ in b.find_calls(r"Option::is_some$"):
            f_ = self_field(c_.args[0])
            if f_:
                none_edges.setdefault(f_, []).extend(bool_result_edge(b, c_, False))
        for i in b.live_blocks():
            if b.blocks[i]["t"]["t"] != "switch":
                continue
            si = b.switch_info(i)
            if si and si["kind"] == "enum" and (si.get("adt") or "").endswith("option::Option"):
                f_ = self_field(si["place"])
                if f_:
                    for t in edges_for_variant(si, "None"):
                        none_edges.setdefault(f_, []).append((i, t))
        for blk in sorted(b.live_blocks()):
            for s_ in b.blocks[blk]["s"]:
                if "a" not in s_ or s_["v"]["r"] != "use" or "k" in s_["v"]["o"]:
                    continue
                if "*" not in s_["a"][1:]:
                    continue
                df = self_field(s_["a"])
                of = other_field(s_["v"]["o"])
                if df is None or of is None:
                    continue
                n += 1
                inst.sites.append("self%s <- other%s (L%s)" % ("".join(df), "".join(of), s_.get("ln")))
                if not any(b.dominates_edge(e, blk) for e in none_edges.get(df, [])):
                    bad.append(("adopts-other-over-own:%s" % "".join(df), "AggState::merge overwrites self%s with other%s on a path where self%s may already hold a value: a partial with no value for the group erases the accumulated one" % ("".join(df), "".join(of), "".join(df)), None))
        if n < 2:
            raise AnchorMissing("plain copies from other into self in AggState::merge: %d (Min/Max adopt-when-empty expected)" % n)
        return bad
    ctx.run("C09.a3", "K8 GUARD", "AggState::merge (adoption of the other side)", "merging partials never loses an accumulated value", a3)

    def a2(inst):
        b = F.fn("aggregate::partial::snapshot_aggregator")
        sw = param_enum_switches(b, r"AggregatorImpl$", "agg")
        if not sw:
            raise AnchorMissing("match on agg")
        i, si = sw[0]
        a = arms(b, i)
        want = {"CountAll": "CountAll", "CountUnique": "CountUnique", "CountField": "CountAll", "Sum": "Sum", "Avg": "Avg", "Min": "Min", "Max": "Max"}
        bad = []
        declared = set(si["vars"].values())
        if si.get("else_variants") and b.blocks[si["edges"]["else"]]["t"]["t"] != "unreach":
            bad.append(("wildcard", "snapshot_aggregator has a wildcard arm for %s" % si["else_variants"], None))
        for v in sorted(declared):
            built = set(unit_variants_in(b, a.get(v, set()), "partial::AggState"))
            inst.sites.append("%s -> %s" % (v, sorted(built)))
            if v not in want:
                bad.append(("unknown-aggregator:%s" % v, "new aggregator %s has no reviewed state mapping" % v, None))
            elif built != {want[v]}:
                bad.append(("state-mapping:%s" % v, "AggregatorImpl::%s is snapshotted as %s (expected %s)" % (v, sorted(built), want[v]), None))
        return bad
    ctx.run("C09.a2", "K6 TABLE", "snapshot_aggregator", "aggregator -> mergeable state table", a2)

    def b_(inst):
        b = F.fn("aggregate::partial::AggPartial::merge")
        mg = one(b, r"AggState::merge$")
        ent = one(b, r"(HashMap|BTreeMap)::entry$")
        ins = one(b, r"Entry.*::or_insert_with$|or_insert$")
        nxt = [c for c in for_headers(b)]
        inst.sites = [sp(b, ent.bb), sp(b, ins.bb), sp(b, mg.bb)]
        bad = []
        outer = [c for c in nxt if has_origin(b.origins(c.args[0], transparent=NEXT_TRANSPARENT), "param", "other", proj_contains=[".groups"])]
        if not outer:
            raise AnchorMissing("loop over other.groups")
        o = outer[0]
        if not (b.can_reach(o.bb, ent.bb) and b.can_reach(ent.bb, o.bb)):
            bad.append(("entry-outside-loop", "insert-or-merge is not inside the loop over other.groups", None))
        # no early exit: every return is reachable only through the None edge of the outer next()
        ne = variant_edge(b, o, "None")
        for x in b.exits():
            bad += must_cross(b, x, cut_edges=ne, key="early-exit", detail="AggPartial::merge can return before all groups were visited")
        return bad
    ctx.run("C09.b", "K9 LOOP", "AggPartial::merge", "every incoming group is inserted or merged", b_)

    def c(inst):
        b = F.fn("ConditionEvaluatorBuilder::build_from_plan")
        sf = one(b, r"ConditionEvaluatorBuilder::add_special_fields$")
        inst.sites = [sp(b, sf.bb)]
        bad = []
        for x in b.exits():
            seen = b.reach(0, cut_blocks=[sf.bb])
            if x in seen:
                bad.append(("agg-skips-special-fields", "in aggregation mode the row evaluator omits the event-type / FOR context / SINCE conditions: rows of other contexts in a candidate zone are aggregated", witness_path(b, seen, x)))
        wc = one(b, r"ConditionEvaluatorBuilder::add_where_clause$")
        return bad
    ctx.run("C09.c", "K11 SIB", "ConditionEvaluatorBuilder::build_from_plan", "aggregation and selection filter rows by the same restrictions", c)

    def d_(inst):
        bad, n = [], 0
        for nm in ("Sum::update_column_simd", "Avg::update_column_simd"):
            b = F.fn("aggregate::ops::" + nm)
            # loop-carried integer locals: defined (also) from themselves
            carried = {}
            for l, defs in b.defs().items():
                if b.local_ty(l) not in ("usize", "u64", "u32", "i64", "isize"):
                    continue
                for (bb, j, dpl, rv) in defs:
                    if j == -1 or len(dpl) != 1 or rv.get("r") not in ("bin", "use"):
                        continue
                    ops = [rv["a"], rv["b"]] if rv.get("r") == "bin" else [rv["o"]]
                    for o_ in ops:
                        pl = o_.get("m") or o_.get("c")
                        if not pl:
                            continue
                        # l = f(.., l, ..): follow the operand's own definitions (not l's) back to l
                        back = set()
                        for (bb2, j2, dpl2, rv2) in b.defs().get(pl[0], []):
                            if j2 != -1 and rv2.get("r") == "bin":
                                for o2 in (rv2["a"], rv2["b"]):
                                    p2 = o2.get("m") or o2.get("c")
                                    if p2:
                                        back |= wide_all(b, p2, depth=3)
                        if l in back or (rv.get("r") == "bin" and pl[0] == l):
                            carried.setdefault(l, set()).add(bb)
            lane_ops = [c_ for c_ in b.calls if not c_.cleanup and re.search(r"core_simd::ops::(.*::)?(mul|add|sub|bitand|bitor)$|simd::.*Simd.*::(mul|add|sub)$", c_.nname) and len(c_.args) == 2]
            if not lane_ops:
                raise AnchorMissing("lane-wise Simd operation in %s" % nm)
            for c_ in lane_ops:
                # index variables of the loop around this operation: loop-carried AND used as a bound of a range / slice index
                range_locals = set()
                for blk in b.blocks:
                    for st in blk["s"]:
                        v = st.get("v")
                        if v and v.get("r") == "agg" and "ops::Range" in str(v.get("adt", "")):
                            for o_ in v["o"]:
                                range_locals |= wide_all(b, o_, depth=4)
                ind = {l for l, bbs in carried.items() if l in range_locals and any(b.can_reach(x, c_.bb) and b.can_reach(c_.bb, x) for x in bbs)}
                A = wide_all(b, c_.args[0], partial=False) & ind
                B_ = wide_all(b, c_.args[1], partial=False) & ind
                n += 1
                inst.sites.append("%s @ %s: %s(chunk index %s, chunk index %s)" % (nm, sp(b, c_.bb), c_.nname.split("::")[-1], sorted(A), sorted(B_)))
                if not A or not B_ or not (A & B_):
                    bad.append(("chunk-offset-mismatch:%s" % nm, "%s combines lane-wise two vectors that are not taken at the same chunk offset (loop indices %s vs %s): the validity mask / values of another chunk are applied" % (nm, sorted(A), sorted(B_)), None))
        if n < 2:
            raise AnchorMissing("lane-wise operations (found %d, confirmed 2)" % n)
        return bad
    ctx.run("C09.d", "K11 SIB", "Sum/Avg::update_column_simd", "values and validity of a chunk are taken at the same offset", d_)

    def e_(inst):
        b = F.fn("AggregateSink::compute_group_key")
        gi = [c_ for c_ in b.find_calls(r"GroupKeyCache::get_or_insert$")]
        if len(gi) != 1:
            raise AnchorMissing("GroupKeyCache::get_or_insert in compute_group_key (%d)" % len(gi))
        g = gi[0]
        sl = wide_all(b, g.args[1], partial=False)
        names, todo, seen_k = set(), [], set()
        for c_ in b.calls:
            if not c_.cleanup and c_.dest and c_.dest[0] in sl:
                names.add(c_.nname)
                todo.append(c_.nname)
        # one level: closures of compute_group_key that are called for the probe (compute_key())
        for k in todo:
            if "::{closure#" in k and F.has(k):
                for c_ in F.fn_exact(k).calls:
                    if not c_.cleanup:
                        names.add(c_.nname)
        # a prehash computed from the columns sees the calendar bucket only if it is given the time bucket (not None)
        via_cols = False
        for c_ in b.calls:
            if not c_.cleanup and c_.dest and c_.dest[0] in sl and c_.nname.endswith("GroupKey::compute_prehash_from_columns"):
                L0 = b.origins(c_.args[0])
                if not any(l[0] == "agg" and str(l[1]).endswith("Option::None") for l in L0) and not all(l[0] == "const" for l in L0):
                    via_cols = True
        short = sorted({n_.split("::")[-1] for n_ in names if "sink::aggregate" in n_ or "time_bucketing" in n_})
        inst.sites = [sp(b, g.bb), "probe computed through: %s" % short]
        if not via_cols and not any(re.search(r"GroupKey::from_row_with_indices$|time_bucketing::bucket_of$", n_) for n_ in names):
            return [("probe-without-calendar-bucket", "the group-key cache is probed with a hash that is not computed through the calendar bucketing of the key (%s): rows of different calendar buckets can share a cache entry and inherit each other's bucket" % short, None)]
        return []
    ctx.run("C09.e", "K7 PROV", "AggregateSink::compute_group_key", "the group-key cache probe depends on the row's calendar bucket", e_)

    def f_(inst):
        bad = []
        for nm in ("MemTableSource::determine_limit", "SegmentQueryRunner::determine_eval_limit"):
            b = F.fn(nm)
            tests = [c_ for c_ in b.find_calls(r"Option::is_some$|Option::is_none$") if any(".aggregate_plan" in [str(p_) for p_ in (l[2] if l[0] in ("param", "upvar") else (l[3] if l[0] == "call" else ()))] or ".aggregate_plan" in fmt_leaves({l}) for l in b.origins(c_.args[0]))]
            if not tests:
                # fall back: a borrow of a place ending in .aggregate_plan feeding the test
                tests = [c_ for c_ in b.find_calls(r"Option::is_some$|Option::is_none$") if any(st.get("a") and st["a"][0] in wide_all(b, c_.args[0], depth=4) and ".aggregate_plan" in json.dumps(st.get("v", {})) for blk in b.blocks for st in blk["s"])]
            if not tests:
                bad.append(("source-limit-in-aggregate:%s" % nm, "%s never looks at plan.aggregate_plan: an aggregate query's sources stop after LIMIT (+OFFSET) events" % nm, None))
                continue
            t = tests[0]
            noagg = bool_result_edge(b, t, t.nname.endswith("is_none"))
            inst.sites.append("%s: test @ %s" % (nm, sp(b, t.bb)))
            # every definition of the return value that is not Option::None sits behind the 'no aggregate' edge
            for i in sorted(b.live_blocks()):
                defs0 = [st for st in b.blocks[i]["s"] if st.get("a") == [0]]
                tt = b.blocks[i]["t"]
                is_call_def = tt.get("t") == "call" and tt.get("dest") == [0]
                for st in defs0:
                    v = st["v"]
                    if v.get("r") == "agg" and v.get("var") == "None":
                        continue
                    if not any(b.dominates_edge(e_, i) for e_ in noagg):
                        bad.append(("source-limit-in-aggregate:%s" % nm, "%s can return a row bound (%s) although the plan aggregates" % (nm, sp(b, i)), None))
                if is_call_def and not any(b.dominates_edge(e_, i) for e_ in noagg):
                    bad.append(("source-limit-in-aggregate:%s" % nm, "%s can return a row bound (%s) although the plan aggregates" % (nm, sp(b, i)), None))
        return bad
    ctx.run("C09.f", "K8 GUARD", "MemTableSource::determine_limit / SegmentQueryRunner::determine_eval_limit", "no per-source row limit under an aggregate", f_)

    def g_(inst):
        b = F.fn("CountUnique::update")
        gs = b.find_calls(r"ColumnValues::get_str_at$")
        gi = b.find_calls(r"ColumnValues::get_i64_at$")
        inst.sites = [sp(b, c_.bb) for c_ in gs + gi]
        if not gs:
            raise AnchorMissing("get_str_at in CountUnique::update")
        bad = []
        empties = [c_ for c_ in b.find_calls(r"String::new$") if b.can_reach(gs[0].bb, c_.bb)]
        if not empties:
            inst.sites.append("no empty-string fallback")
            return bad
        if not gi:
            return [("count-unique-misses-typed-column", "CountUnique::update only reads the string view of a column: every value of an all-integer batch is counted as the same empty string", None)]
        none_s = variant_edge(b, gs[0], "None")
        none_i = variant_edge(b, gi[0], "None")
        for e_ in empties:
            if not (any(b.dominates_edge(x, e_.bb) for x in none_s) and any(b.dominates_edge(x, e_.bb) for x in none_i)):
                bad.append(("count-unique-fallback-early", "the empty-string fallback of CountUnique::update is reachable before both the string view and the i64 view were tried", None))
        return bad
    ctx.run("C09.g", "K1 DOM", "CountUnique::update", "COUNT UNIQUE reads typed integer columns", g_)

    def h_(inst):
        b = F.fn("AggregateStreamMerger::emit_merged_groups")
        fam = [b] + [F.fn_exact(k) for k in F.find("^" + re.escape(b.key) + r"::\{closure")]
        drops = [(B, c_) for B in fam for c_ in B.calls if not c_.cleanup and re.search(r"Vec::retain$|Iterator::filter$|Vec::retain_mut$|HashMap.*::retain$", c_.nname)]
        inst.sites = ["%s @ %s" % (c_.nname.split("::")[-1], sp(B, c_.bb)) for B, c_ in drops]
        bad = []
        for B, c_ in drops:
            # the predicate looks at the emptiness of key components
            cds = [k for a_ in c_.args[1:] for k in F.find("^" + re.escape(b.key) + r"::\{closure") if True]
            pred_bodies = [F.fn_exact(k) for k in set(cds)]
            if any(x.find_calls(r"is_empty$") for x in pred_bodies):
                bad.append(("null-group-dropped", "emit_merged_groups discards every group that has an empty key component (%s): events whose BY value is null or missing are in no group" % sp(B, c_.bb), None))
                break
        return bad
    ctx.run("C09.h", "K4 EFFECT", "AggregateStreamMerger::emit_merged_groups", "no group is discarded on the way out", h_)

    def i_(inst):
        b = F.fn("AggregateStreamMerger::parse_aggregate_row")
        s2u = b.find_calls(r"AggregateStreamMerger::scalar_to_u64$")
        if not s2u:
            inst.sites.append("bucket is not read through scalar_to_u64")
            return []
        # is there a path on which the bucket value is known negative (Lt(x, 0) true edge) and preserved by a cast instead?
        casts = []
        for i in sorted(b.live_blocks()):
            for st in b.blocks[i]["s"]:
                v = st.get("v")
                if v and v.get("r") == "cast" and len(st.get("a", [])) == 1 and b.local_ty(st["a"][0]) == "u64":
                    pl = v["o"].get("m") or v["o"].get("c")
                    if pl and b.local_ty(pl[0]) == "i64":
                        casts.append(i)

        def acc(op, A, B_, truth):
            zero = any(l[0] == "const" and re.match(r"^0_i64", str(l[1])) for l in B_)
            return zero and ((op == "Lt" and truth) or (op == "Ge" and not truth))
        # the cast may sit behind several `x < 0` arms (one per scalar variant): it is guarded if cutting all of them makes it unreachable
        neg_edges = []
        for j in sorted(b.live_blocks()):
            if b.blocks[j]["t"]["t"] != "switch":
                continue
            si = b.switch_info(j)
            d = si.get("def") if si and si["kind"] == "bool" else None
            if d and d.get("r") == "bin":
                for truth, tgt in ((True, si["true"]), (False, si["false"])):
                    if tgt is not None and acc(d["op"], b.origins(d["a"]), b.origins(d["b"]), truth):
                        neg_edges.append((j, tgt))
        seen_wo = b.reach(0, cut_edges=neg_edges) if neg_edges else None
        kept = [i for i in casts if seen_wo is not None and i not in seen_wo]
        inst.sites = ["scalar_to_u64 @ %s" % sp(b, s2u[0].bb), "negative bucket kept by a cast @ %s" % [sp(b, i) for i in kept]]
        if not kept:
            return [("negative-bucket-becomes-null", "parse_aggregate_row reads the bucket column only through scalar_to_u64, which is None for a negative value: every PER bucket that starts before 1970 is merged into the null bucket", None)]
        return []
    ctx.run("C09.i", "K8 GUARD", "AggregateStreamMerger::parse_aggregate_row", "pre-1970 buckets are not merged into the null bucket", i_)

    def j_(inst):
        """Calendar buckets follow the configured time zone: a local day with a DST switch is 23 or 25 hours long. Under calendar
        bucketing every bucket start the aggregate sink uses must be the result of CalendarTimeBucketer::bucket_of for that very
        timestamp - never a remembered start plus a fixed width."""
        bad = []
        b = F.fn("sink::aggregate::time_bucketing::bucket_of")
        rets = b.origins({"m": [0]}) | b.origins({"c": [0]})
        ok = {l for l in rets if l[0] == "call" and re.search(r"CalendarTimeBucketer::bucket_of$|time_bucketing::naive_bucket_of$", norm_path(l[1]))}
        other = rets - ok
        inst.sites.append("bucket_of returns %s" % fmt_leaves(rets))
        if not ok:
            raise AnchorMissing("CalendarTimeBucketer::bucket_of / naive_bucket_of as origin of the result of bucket_of")
        # the ts handed to the bucketer is this call's ts
        for l in ok:
            c = b.call_at(l[2])
            if not any(x[0] == "param" and x[1] == "ts" for a_ in c.args for x in b.origins(a_)):
                bad.append(("bucket-of-other-timestamp", "bucket_of buckets another value than its ts argument", sp(b, c.bb)))
        if other:
            bad.append(("bucket-not-from-bucketer", "aggregate::time_bucketing::bucket_of can return %s instead of the bucketer's answer for this timestamp: a remembered bucket start with an assumed width is wrong for a day / week that contains a DST switch" % fmt_leaves(other), None))
        return bad
    ctx.run("C09.j", "K7 PROV", "read::sink::aggregate::time_bucketing::bucket_of", "every bucket start is computed by the bucketer for that timestamp", j_)

    def k_(inst):
        """For an aggregate QueryPlan::new removes the filter that SINCE added (the sink buckets on its own). Only THAT filter may go: an
        explicit `WHERE <time field> >= x` of the user has the same shape. The filter dropped must therefore be recognised by the
        SINCE literal itself (equality with the command's `since`)."""
        bad = []
        q = F.fn("QueryPlan::new")
        base = q.key.split("::{closure")[0]
        cands = []
        for k in F.keys():
            if not k.startswith(base + "::{closure"):
                continue
            C = F.fn_exact(k)
            if C.rec.get("argc", 0) >= 2 and any("FilterGroup" in (l.get("t") or "") for l in C.locals[:4]):
                rets = C.origins({"m": [0]}) | C.origins({"c": [0]})
                if any(l[0] == "const" and str(l[1]).startswith("false") for l in rets) or any(c.nname.endswith("::eq") or c.nname.endswith("::ne") for c in C.calls if not c.cleanup):
                    cands.append(C)
        retain = [c for c in q.calls if not c.cleanup and c.nname.endswith("Vec::retain")]
        if not retain:
            raise AnchorMissing("filter_groups.retain(..) in QueryPlan::new")
        clos = []
        for c in retain:
            for k_ in util_closure_defs(q, c.args[1]):
                if F.has(k_):
                    clos.append(F.fn_exact(k_))
        if not clos:
            raise AnchorMissing("the closure of filter_groups.retain in QueryPlan::new")
        for C in clos:
            ups = [u if isinstance(u, str) else (u.get("n") if isinstance(u, dict) else "") for u in (C.rec.get("upvars") or [])]
            since_up = [u for u in ups if u and "since" in u]
            eqs = [c for c in C.calls if not c.cleanup and re.search(r"::(eq|ne)$", c.nname) and any(l[0] == "upvar" and "since" in l[1] for a_ in c.args for l in C.origins(a_, transparent=re.compile(r"as_deref$|as_str$|as_ref$")) | C.origins(a_))]
            if not eqs:
                for c in C.calls:
                    if not c.cleanup and re.search(r"::(eq|ne)$", c.nname):
                        for a_ in c.args:
                            for l in C.origins(a_):
                                if l[0] == "call":
                                    cc = C.call_at(l[2])
                                    if cc.args and any(x[0] == "upvar" and "since" in x[1] for x in C.origins(cc.args[0])):
                                        eqs.append(c)
            inst.sites.append("%s: captures %s; comparisons with the SINCE literal: %d" % (sp(C, 0), ups, len(eqs)))
            if not eqs:
                bad.append(("since-filter-dropped-by-shape", "QueryPlan::new drops a filter group of an aggregate query without comparing its value with the command's SINCE literal: an explicit WHERE <time field> >= x of the user is dropped too (its column is then not loaded and segment rows fail the condition)", sp(C, 0)))
        return bad
    ctx.run("C09.k", "K7 PROV", "QueryPlan::new (aggregate: implicit SINCE filter)", "only the filter that SINCE added is removed for an aggregate", k_)

    def l_(inst):
        """`an aggregate equals a fold over the selection`: SINCE (with USING) is part of the selection. QueryPlan::new takes the filter
        SINCE added out of the plan again when the query aggregates, and nothing re-applies it (the sink uses the time field for the
        bucket key only). C09.k makes sure nothing ELSE is dropped; this instance records that the SINCE filter itself is."""
        bad = []
        q = F.fn("QueryPlan::new")
        ap = [c for c in q.calls if not c.cleanup and c.nname.endswith("AggregatePlan::from_command")]
        retain = [c for c in q.calls if not c.cleanup and c.nname.endswith("Vec::retain")]
        if not ap:
            raise AnchorMissing("AggregatePlan::from_command in QueryPlan::new")
        inst.sites = [sp(q, c.bb) for c in ap + retain]
        for r in retain:
            # the retain runs on the `is an aggregate` arm
            if any(q.dominates_edge((a_.bb, a_.to), r.bb) for a_ in ap):
                bad.append(("aggregate-drops-since-filter", "QueryPlan::new removes the SINCE time filter from the plan of an aggregate query and no later stage applies it: the aggregate folds events the selection excludes", sp(q, r.bb)))
                break
        return bad
    ctx.run("C09.l", "K4 EFFECT", "QueryPlan::new (aggregate)", "SINCE restricts what an aggregate folds", l_)

    def m_(inst):
        """COUNT <field> counts the events whose field is not null. The aggregate operators read a string column through a ColumnValues
        that has no null slot for strings; ColumnConverter::create_string_column writes a null as the empty string, which CountField
        then counts."""
        bad = []
        c = F.fn("ColumnConverter::create_string_column")
        sw = enum_switches_on(c, lambda L: True, r"ScalarValue$")
        if not sw:
            raise AnchorMissing("match on the ScalarValue in create_string_column")
        a = arms(c, sw[0][0])
        null_blocks = a.get("Null", set())
        empties = [i_ for i_ in null_blocks for st in c.blocks[i_]["s"] if (st.get("v") or {}).get("r") == "use" and str(((st["v"].get("o") or {}).get("k")) or "") == '""']
        inst.sites.append("%s: Null arm yields the empty string: %s" % (sp(c, sw[0][0]), bool(empties)))
        if empties:
            bad.append(("null-counted-as-empty-string", "ColumnConverter::create_string_column turns a null cell into the empty string (string ColumnValues have no null slot): COUNT <field> counts events whose field is null", sp(c, empties[0])))
        return bad
    ctx.run("C09.m", "K10 READS", "agg::ColumnConverter::create_string_column", "a null string cell is not a value for COUNT <field>", m_)

    def n_(inst):
        """A group's events are spread over flows (memtable, each segment stream, each shard); a flow cannot know which groups the merged
        result will keep. A flow's sink therefore accumulates every group it meets: no production code bounds the number of groups of
        a per-flow AggregateSink (AggregateSink::with_group_limit drops the events of every group beyond the bound)."""
        bad = []
        wl = F.fn("AggregateSink::with_group_limit")
        n = 0
        for k in sorted(F.keys()):
            if k.startswith("bin:") or k.startswith(wl.key):
                continue
            b = F.fn_exact(k)
            for c in b.calls:
                if not c.cleanup and c.nname.endswith("AggregateSink::with_group_limit"):
                    L = b.origins(c.args[1]) if len(c.args) > 1 else set()
                    if all(l[0] == "agg" and l[1].endswith("Option::None") for l in L) and L:
                        continue
                    n += 1
                    bad.append(("flow-sink-group-bound:%s" % k.split("::{closure")[0].split("::")[-1], "%s bounds the number of groups its AggregateSink accumulates: a flow that has met that many distinct groups drops the events of every further group, although the group's other events (in another flow) are reported - counts and totals come out too small" % k.split("::{closure")[0].split("::")[-1], sp(b, c.bb)))
        inst.sites.append("production callers of AggregateSink::with_group_limit with a bound: %d" % n)
        return bad
    ctx.run("C09.n", "K4 EFFECT", "AggregateSink::with_group_limit callers", "a flow's aggregate sink accumulates every group it meets", n_)

    def o_(inst):
        """PLOT a VS b runs one complete query per side; what reaches the comparison merger are FINAL aggregate tables (one column per
        metric). It must not read them with the layout of the shards' partial aggregates (avg_<f>_sum / _count, count_unique_<f>_values):
        the plan handed to AggregateStreamMerger::parse_aggregate_row there has no metric ops (only the group key is parsed that way)."""
        bad = []
        b = F.fn("ComparisonStreamMerger::parse_batch_to_rows")
        pr = [c for c in b.calls if not c.cleanup and c.nname.endswith("AggregateStreamMerger::parse_aggregate_row")]
        inst.sites = [sp(b, c.bb) for c in pr]
        for c in pr:
            # the plan argument: an AggregatePlan aggregate built here with an empty ops vector
            ok = False
            for a_ in c.args:
                for l in b.origins(a_):
                    if l[0] == "agg" and l[1].endswith("AggregatePlan"):
                        for (bb, jx, v, dst) in b.aggregates("AggregatePlan"):
                            if bb == l[2]:
                                o = dict(zip(v.get("fields", []), v["o"])).get("ops")
                                if o is not None and any(x[0] == "call" and norm_path(x[1]).endswith("Vec::new") for x in b.origins(o)):
                                    ok = True
            if not ok:
                bad.append(("final-table-read-as-partials", "ComparisonStreamMerger::parse_batch_to_rows parses the finished table of a comparison side with the partial-aggregate layout of the full plan: avg(..) / unique(..) comparisons fail with 500 'missing avg_<f>_sum column'", sp(b, c.bb)))
        return bad
    ctx.run("C09.o", "K11 SIB", "ComparisonStreamMerger::parse_batch_to_rows", "a comparison side is read as the final table it is", o_)

    def p_(inst):
        """TOTAL / AVG / MIN / MAX over a float field: the aggregate operators accumulate i64 (AggState, the partial schema, AggOutput::Sum)
        and read a column through get_i64_at; a float column reaches them as text, so a fractional value parses to None and is skipped."""
        bad = []
        hits = []
        for k in sorted(F.keys()):
            if k.startswith("bin:") or not re.search(r"read::aggregate::ops::", k):
                continue
            b = F.fn_exact(k)
            if not re.search(r"(Sum|Avg)\w*::update", k):
                continue
            gi = [c for c in b.calls if not c.cleanup and c.nname.endswith("get_i64_at")]
            gf = [c for c in b.calls if not c.cleanup and c.nname.endswith("get_f64_at")]
            if gi and not gf:
                hits.append((b, gi[0]))
        inst.sites.append("Sum / Avg update functions that read the column through the i64 view only: %d" % len(hits))
        if hits:
            bad.append(("float-metric-through-i64-view", "the Sum / Avg aggregate operators read their column through get_i64_at only: fractional values of a float field are skipped (TOTAL of 9.5, 0, 19.25, 99 is 99)", sp(hits[0][0], hits[0][1].bb)))
        return bad
    ctx.run("C09.p", "K10 READS", "read::aggregate::ops (Sum / Avg)", "numeric aggregates see fractional values", p_)

    def q_(inst):
        # an aggregate plan's evaluator has no event_type condition; the memtable holds every type, so the memtable
        # source adds it: every use of the evaluator lies behind that addition (or behind "not an aggregate" / "*")
        b = F.method("MemTableSource", "FlowSource", "run")
        bp = one(b, r"ConditionEvaluatorBuilder::build_from_plan$")
        adds = [c_ for c_ in b.find_calls(r"ConditionEvaluator::add_string_condition$") if "event_type" in {x for x in str_consts(b, c_.args[1], 2)}]
        users = [c_ for c_ in b.calls if not c_.cleanup and re.search(r"MemTableSource::(collect_rows_from_memtable|push_rows_from_memtable)$", c_.nname)]
        inst.sites = [sp(b, bp.bb)] + [sp(b, a_.bb) + " add event_type" for a_ in adds] + ["%d scans use the evaluator" % len(users)]
        if not users:
            raise AnchorMissing("row scans of MemTableSource::run")
        if not adds:
            return [("memtable-aggregate-any-type", "MemTableSource::run scans the memtable for an aggregate with the plan's evaluator as built: it has no event_type condition, and the memtable holds the events of every type (QUERY aa COUNT counts bb's unflushed events)", None)]
        cut = []
        for c_ in b.find_calls(r"Option::is_some$"):
            if has_origin(b.origins(c_.args[0]), None, proj_contains=[".aggregate_plan"]):
                cut += bool_result_edge(b, c_, False)
        for c_ in b.calls:
            if not c_.cleanup and re.search(r"::(ne|eq)$", c_.nname) and any(l[0] == "const" and l[1].strip('"') == "*" for a_ in c_.args for l in b.origins(a_)):
                cut += bool_result_edge(b, c_, c_.nname.endswith("eq"))
        seen = b.reach(0, cut_blocks=[a_.bb for a_ in adds], cut_edges=cut)
        for u in users:
            if u.bb in seen:
                return [("memtable-aggregate-any-type", "a memtable scan of MemTableSource::run is reachable for an aggregate plan without the event_type condition having been added to the evaluator", sp(b, u.bb))]
        return []
    ctx.run("C09.q", "K2 CUT", "MemTableSource::run (aggregate plans)", "an aggregate over the memtable folds the events of its own type only", q_)
