"""C09 — aggregates equal a fold over the selection: merge tables and row-filter parity only."""
from .util import *

EXPLANATION = """
Claimed narrowly. Decides table/diagonal clauses and row-filter parity; does NOT decide numeric equality of metrics or bucket alignment.
a1) AggState::merge has a diagonal arm (V, V) with an effect for every AggState variant.
a2) snapshot_aggregator maps every AggregatorImpl variant to the like-named AggState (CountField -> CountAll is the one documented exception); no wildcard.
b) AggPartial::merge visits every incoming group: insert-or-merge inside the loop over other.groups, no early exit from the loop.
c) row-filter parity: ConditionEvaluatorBuilder::build_from_plan must add the event-type / FOR-context / SINCE conditions (add_special_fields) in aggregation mode as in selection mode.
"""
FLOOR = 4
REQUIRED = ["C09.a1", "C09.a2", "C09.b", "C09.c"]


def run(ctx):
    F = ctx.F

    def a1(inst):
        b = F.fn("aggregate::partial::AggState::merge")
        adt = F.adts["engine::core::read::aggregate::partial::AggState"]
        variants = [v["n"] for v in adt["variants"]]
        sws = []
        for i in sorted(b.live_blocks()):
            if b.blocks[i]["t"]["t"] == "switch":
                si = b.switch_info(i)
                if si and si["kind"] == "enum" and (si.get("adt") or "").endswith("AggState"):
                    L = b.origins(si["place"])
                    who = "self" if has_origin(L, "param", "self") else ("other" if has_origin(L, "param", "other") else "?")
                    sws.append((i, si, who))
        if not sws:
            raise AnchorMissing("match on (self, other)")
        bad = []
        for V in variants:
            ok = False
            for i, si, who in sws:
                if who == "?" or V not in si["edges"]:
                    continue
                blocksV = edge_dominated(b, (i, si["edges"][V]))
                for j, sj, who2 in sws:
                    if j in blocksV and who2 != who and V in sj["edges"]:
                        diag = edge_dominated(b, (j, sj["edges"][V]))
                        eff = any(("a" in s and s["a"][0] != 0) for blk in diag for s in b.blocks[blk]["s"]) or any(c.bb in diag and not c.cleanup for c in b.calls)
                        if eff:
                            ok = True
            inst.sites.append("(%s,%s): %s" % (V, V, "merged" if ok else "MISSING"))
            if not ok:
                bad.append(("no-diagonal:%s" % V, "AggState::merge has no effective (%s, %s) arm: partial results of that metric from other shards/flows are dropped" % (V, V), None))
        return bad
    ctx.run("C09.a1", "K6 TABLE", "AggState::merge", "every aggregate state kind is merged with its own kind", a1)

    def a2(inst):
        b = F.fn("aggregate::partial::snapshot_aggregator")
        sw = param_enum_switches(b, r"AggregatorImpl$", "agg")
        if not sw:
            raise AnchorMissing("match on agg")
        i, si = sw[0]
        a = arms(b, i)
        want = {"CountAll": "CountAll", "CountUnique": "CountUnique", "CountField": "CountAll", "Sum": "Sum", "Avg": "Avg", "Min": "Min", "Max": "Max"}
        bad = []
        declared = set(si["vars"].values())
        if si.get("else_variants") and b.blocks[si["edges"]["else"]]["t"]["t"] != "unreach":
            bad.append(("wildcard", "snapshot_aggregator has a wildcard arm for %s" % si["else_variants"], None))
        for v in sorted(declared):
            built = set(unit_variants_in(b, a.get(v, set()), "partial::AggState"))
            inst.sites.append("%s -> %s" % (v, sorted(built)))
            if v not in want:
                bad.append(("unknown-aggregator:%s" % v, "new aggregator %s has no reviewed state mapping" % v, None))
            elif built != {want[v]}:
                bad.append(("state-mapping:%s" % v, "AggregatorImpl::%s is snapshotted as %s (expected %s)" % (v, sorted(built), want[v]), None))
        return bad
    ctx.run("C09.a2", "K6 TABLE", "snapshot_aggregator", "aggregator -> mergeable state table", a2)

    def b_(inst):
        b = F.fn("aggregate::partial::AggPartial::merge")
        mg = one(b, r"AggState::merge$")
        ent = one(b, r"(HashMap|BTreeMap)::entry$")
        ins = one(b, r"Entry.*::or_insert_with$|or_insert$")
        nxt = [c for c in b.find_calls(r"Iterator>::next$")]
        inst.sites = [sp(b, ent.bb), sp(b, ins.bb), sp(b, mg.bb)]
        bad = []
        outer = [c for c in nxt if has_origin(b.origins(c.args[0], transparent=NEXT_TRANSPARENT), "param", "other", proj_contains=[".groups"])]
        if not outer:
            raise AnchorMissing("loop over other.groups")
        o = outer[0]
        if not (b.can_reach(o.bb, ent.bb) and b.can_reach(ent.bb, o.bb)):
            bad.append(("entry-outside-loop", "insert-or-merge is not inside the loop over other.groups", None))
        # no early exit: every return is reachable only through the None edge of the outer next()
        ne = variant_edge(b, o, "None")
        for x in b.exits():
            bad += must_cross(b, x, cut_edges=ne, key="early-exit", detail="AggPartial::merge can return before all groups were visited")
        return bad
    ctx.run("C09.b", "K9 LOOP", "AggPartial::merge", "every incoming group is inserted or merged", b_)

    def c(inst):
        b = F.fn("ConditionEvaluatorBuilder::build_from_plan")
        sf = one(b, r"ConditionEvaluatorBuilder::add_special_fields$")
        inst.sites = [sp(b, sf.bb)]
        bad = []
        for x in b.exits():
            seen = b.reach(0, cut_blocks=[sf.bb])
            if x in seen:
                bad.append(("agg-skips-special-fields", "in aggregation mode the row evaluator omits the event-type / FOR context / SINCE conditions: rows of other contexts in a candidate zone are aggregated", witness_path(b, seen, x)))
        wc = one(b, r"ConditionEvaluatorBuilder::add_where_clause$")
        return bad
    ctx.run("C09.c", "K11 SIB", "ConditionEvaluatorBuilder::build_from_plan", "aggregation and selection filter rows by the same restrictions", c)
