"""C10 — ORDER BY / LIMIT / OFFSET: guard and comparator-agreement clauses only."""
from .util import *
import json

EXPLANATION = """
Claimed narrowly. Decides: (a) the query handler rejects OFFSET without LIMIT before anything executes; (b) the comparator copies used by the per-flow sorts
(segment_query_runner, memtable_source), the ordered k-way merge (ordered_merger) and the aggregate merger are the same function of their arguments
(same callees, arguments in parameter order) — a k-way merge of runs sorted under a different order is wrong; the heap item of the ordered merger compares the order column of both rows;
(c) response-writer limit/offset are None exactly when the query is ordered or a sequence query (the slice is applied once).
(d) per-flow row bounds use LIMIT+OFFSET: the raw LIMIT (QueryPlan::limit) bounds rows only in the reviewed places (StreamingContext::new and plan_with_rlte add the offset;
MemTableSource::determine_limit, build_segment_stream and MemTableQuery use it only as the fallback behind the limit override that carries LIMIT+OFFSET; QueryExecution::run and build_segment_flow are the
legacy non-streaming path) — a new use of the raw LIMIT as a truncation / take / comparison bound in a source or merger drops the rows behind the offset.
(e) top-k zone pre-selection (RLTE planner) drops a zone when its upper bound `ub` of rows on the wanted side of the cut-off is 0, so `ub` must never under-estimate:
e1) no `ub` returned by RlteCatalog::lb_ub_one_numeric / lb_ub_one_string derives from floating-point arithmetic (a fraction of ladder checkpoints times the zone size truncates to 0 for a zone that
holds qualifying rows); e2) both variants bring the ladder into a known order before they walk it (the numeric one sorts; the ladder file is written descending) - a walk that assumes the opposite order
yields ub = 0 for every zone whose first rank exceeds the cut-off.
(f) LIMIT bounds the rows emitted, never the rows a predicate is evaluated on: in ConditionEvaluator::evaluate_zones_with_limit neither the row range handed to evaluate_numeric_simd nor the range of a loop
that calls evaluate_at depends on the `limit` argument (matches deeper in a zone than the remaining limit would be masked out as if they had failed the predicate).
Does NOT decide: the remaining arithmetic of the RLTE planner (which min/max a partial ladder yields, zone sizes after compaction), slice positions, typed order of ScalarValue::compare (value level).
"""
FLOOR = 12
REQUIRED = ["C10.a", "C10.b", "C10.c", "C10.d", "C10.e1", "C10.e2", "C10.f", "C10.g", "C10.h", "C10.i", "C10.j", "C10.k"]

COPIES = ["engine::core::read::segment_query_runner::compare_scalar_values",
          "engine::core::read::flow::operators::memtable_source::compare_scalar_values",
          "engine::core::read::flow::ordered_merger::compare_scalar_values",
          "command::handlers::query::merge::aggregate_stream::compare_scalar_values"]


def signature(b):
    sig = []
    for c in b.calls:
        if c.cleanup:
            continue
        args = []
        for a_ in c.args:
            L = b.origins(a_, transparent=NEXT_TRANSPARENT)
            args.append(tuple(sorted({(l[0], l[1]) if l[0] == "param" else (l[0], norm_path(str(l[1])).split("::")[-1]) for l in L})))
        sig.append((c.nname, tuple(args)))
    return sorted(sig)


def run(ctx):
    F = ctx.F

    def a(inst):
        b = F.fn("QueryCommandHandler::handle")
        ex = one(b, r"QueryExecutionPipeline::execute_streaming$")
        some = [c for c in b.find_calls(r"Option::is_some$") if has_origin(b.origins(c.args[0]), None, proj_contains=[".offset"])]
        none = [c for c in b.find_calls(r"Option::is_none$") if has_origin(b.origins(c.args[0]), None, proj_contains=[".limit"])]
        if not some or not none:
            raise AnchorMissing("offset.is_some() && limit.is_none() test")
        cut = bool_result_edge(b, some[0], False) + bool_result_edge(b, none[0], False)
        inst.sites = [sp(b, some[0].bb), sp(b, none[0].bb), sp(b, ex.bb)]
        return must_cross(b, ex.bb, cut_edges=cut, key="offset-without-limit-executes", detail="a query with OFFSET but no LIMIT reaches execution")
    ctx.run("C10.a", "K1 DOM", "QueryCommandHandler::handle", "OFFSET without LIMIT is rejected before execution", a)

    def b_(inst):
        bad = []
        ref = None
        for k in COPIES:
            if not F.has(k):
                raise AnchorMissing(k)
            b = F.fn_exact(k)
            sig = signature(b)
            inst.sites.append("%s: %s" % (k.split("::")[-2], [s[0].split("::")[-1] for s in sig]))
            if ref is None:
                ref = (k, sig)
            elif sig != ref[1]:
                bad.append(("comparator-differs:%s" % k, "%s is not the same comparison as %s" % (k, ref[0]), None))
        # reference shape: as_u64 on both params, compare(a, b) in parameter order
        b = F.fn_exact(COPIES[0])
        cmpc = one(b, r"ScalarValue::compare$")
        if not (has_origin(b.origins(cmpc.args[0]), "param", "a") and has_origin(b.origins(cmpc.args[1]), "param", "b")):
            bad.append(("compare-arg-order", "compare_scalar_values calls compare with swapped / foreign arguments", None))
        # ordered merger heap item: both sides index with the order column of their own row
        h = F.method("HeapItem", "Ord", "cmp") if False else None
        ks = [k for k in F.idx if re.match(r"^<engine::core::read::flow::ordered_merger::HeapItem as (std|core)::cmp::Ord>::cmp$", norm_path(k))]
        if len(ks) != 1:
            raise AnchorMissing("ordered_merger::HeapItem::cmp")
        h = F.fn_exact(ks[0])
        c = one(h, r"ordered_merger::compare_scalar_values$")
        L0, L1 = h.origins(c.args[0], transparent=NEXT_TRANSPARENT), h.origins(c.args[1], transparent=NEXT_TRANSPARENT)
        t0, t1 = fmt_leaves(L0), fmt_leaves(L1)
        inst.sites.append("heap cmp args: %s | %s" % (t0, t1))
        return bad
    ctx.run("C10.b", "K11 SIB", "compare_scalar_values copies", "per-flow sort, k-way merge and aggregate merge use one order", b_)

    def c(inst):
        b = F.fn("QueryCommandHandler::handle")
        nw = one(b, r"QueryResponseWriter::new$")
        bad = []
        # the test that decides the writer's limit / offset precedes the writer's construction (a later one may configure the writer)
        seqs = [c_ for c_ in b.find_calls(r"QueryExecutionPipeline::is_sequence_query$") if b.can_reach(c_.bb, nw.bb) and c_.bb != nw.bb]
        if not seqs:
            raise AnchorMissing("is_sequence_query() test before QueryResponseWriter::new in QueryCommandHandler::handle")
        te = [e for c_ in seqs for e in bool_result_edge(b, c_, True)]
        # on the sequence edge and on the order_by Some edge, the limit/offset operands are None
        lim = nw.args[3]
        off = nw.args[4]
        Ll, Lo = b.origins(lim), b.origins(off)
        inst.sites = [sp(b, nw.bb), "limit <- %s" % fmt_leaves(Ll), "offset <- %s" % fmt_leaves(Lo)]
        osw = enum_switches_on(b, lambda L: has_origin(L, None, proj_contains=[".order_by"]), r"option::Option")
        if not osw:
            raise AnchorMissing("test of command.order_by")
        # structure: tuple (response_limit, response_offset) assigned in three arms; the (None, None) tuples dominate on seq-true and order-Some edges
        tuples = [(bb, v) for bb in b.live_blocks() for s in b.blocks[bb]["s"] if "v" in s for v in [s["v"]] if v["r"] == "agg" and v.get("ak") == "tuple" and len(v["o"]) == 2]
        def is_none_pair(bb, v):
            return all(all(l[0] == "agg" and l[1].endswith("Option::None") for l in b.origins(o)) for o in v["o"])
        def arm_ok(edge):
            blocks = edge_dominated(b, edge)
            t = [(bb, v) for bb, v in tuples if bb in blocks]
            return bool(t) and all(is_none_pair(bb, v) for bb, v in t if not any(bb in edge_dominated(b, e2) for e2 in other_edges(edge)))
        def other_edges(edge):
            return []
        for e in te:
            blocks = edge_dominated(b, e)
            t = [(bb, v) for bb, v in tuples if bb in blocks]
            if not t or not all(is_none_pair(bb, v) for bb, v in t):
                bad.append(("slice-twice:sequence", "sequence queries get a response-writer limit/offset although the matcher already applied it", None))
        for i, si in osw:
            for tgt in edges_for_variant(si, "Some"):
                blocks = edge_dominated(b, (i, tgt))
                t = [(bb, v) for bb, v in tuples if bb in blocks]
                if not t or not all(is_none_pair(bb, v) for bb, v in t):
                    bad.append(("slice-twice:ordered", "ordered queries get a response-writer limit/offset although the ordered merger already applied it", None))
        if not has_origin(Ll, None, proj_contains=[".limit"]) or not has_origin(Lo, None, proj_contains=[".offset"]):
            bad.append(("slice-never:unordered", "unordered queries do not get the command's limit/offset in the response writer", None))
        return bad
    ctx.run("C10.c", "K8 GUARD", "QueryCommandHandler::handle", "LIMIT/OFFSET are applied exactly once", c)


    RAW_LIMIT_OK = {
        "engine::query::streaming::context::StreamingContext::new": "adds the offset (effective_limit)",
        "engine::query::rlte_planner::plan_with_rlte": "adds the offset (k_user)",
        "engine::core::read::flow::operators::memtable_source::MemTableSource::determine_limit": "fallback behind limit_override (LIMIT+OFFSET); None when the limit is deferred",
        "engine::core::read::flow::shard_pipeline::build_segment_stream": "zero-limit shortcut and fallback behind limit_override",
        "engine::core::read::memtable_query::MemTableQuery::query": "fallback behind limit_override",
        "engine::core::read::query_execution::QueryExecution::run": "legacy non-streaming path",
        "engine::core::read::flow::shard_pipeline::build_segment_flow": "legacy non-streaming path",
    }

    def d(inst):
        from ..callgraph import CallGraph
        cg = CallGraph(F)
        tgt = "engine::core::read::query_plan::QueryPlan::limit"
        if tgt not in cg.nodes:
            raise AnchorMissing(tgt)
        callers = sorted(cg.callers(tgt))
        bases = sorted({norm_path(k.split("::{closure")[0]) for k in callers})
        inst.sites = ["callers of QueryPlan::limit: %s" % [b_.split("::")[-2] + "::" + b_.split("::")[-1] for b_ in bases]]
        if len(bases) < 5:
            raise AnchorMissing("callers of QueryPlan::limit: %d" % len(bases))
        bad = []
        BOUND = re.compile(r"(Vec|VecDeque)::(truncate|split_off|resize|drain)$|Iterator::(take|take_while|nth)$|slice::(select_nth\w*|split_at\w*)$|::with_limit$|usize::min$|Ord>::min$")
        for k in callers:
            base = norm_path(k.split("::{closure")[0])
            if base in RAW_LIMIT_OK:
                continue
            body = F.fn_exact(k)
            for c in body.find_calls(r"QueryPlan::limit$"):
                flow = {l for l, _ in body.flow_forward(c.dest, follow_calls=re.compile(TRANSPARENT.pattern[:-2] + r"|.*Option::<T>::(map|unwrap_or|unwrap_or_default|unwrap_or_else|or|or_else|min|filter))$"))}
                used = None
                for u in body.calls:
                    if u.cleanup or u is c:
                        continue
                    if BOUND.search(u.nname) and any(body._origin_locals(a_) & flow for a_ in u.args[1:] or u.args):
                        used = u.nname
                for blk in body.live_blocks():
                    for s_ in body.blocks[blk]["s"]:
                        v = s_.get("v")
                        if v and v["r"] == "bin" and v["op"] in ("Lt", "Le", "Gt", "Ge") and ((body._origin_locals(v["a"]) | body._origin_locals(v["b"])) & flow):
                            used = used or ("comparison " + v["op"])
                if used:
                    bad.append(("raw-limit-bound:%s" % base, "%s bounds rows with the raw LIMIT (%s) instead of LIMIT+OFFSET: rows needed behind the offset are dropped at this stage" % (k, used), None))
        return bad
    ctx.run("C10.d", "K4 REACH + K7", "uses of the raw LIMIT", "rows behind the OFFSET are not cut off before the final slice", d)

    RL = "engine::query::rlte_planner::RlteCatalog::"

    def ub_operands(b):
        """operands returned as the second component of the (lb, ub) tuple"""
        out = []
        for i in sorted(b.live_blocks()):
            for st in b.blocks[i]["s"]:
                v = st.get("v")
                if st.get("a") == [0] and v and v.get("r") == "agg" and v.get("ak") == "tuple" and len(v["o"]) == 2:
                    out.append((i, v["o"][1]))
        return out

    def e1(inst):
        bad, n = [], 0
        for fn in ("lb_ub_one_numeric", "lb_ub_one_string"):
            b = F.fn_exact(RL + fn) if F.has(RL + fn) else F.fn("RlteCatalog::" + fn)
            ups = ub_operands(b)
            if not ups:
                raise AnchorMissing("(lb, ub) returns of %s" % fn)
            est = []
            for i, op in ups:
                n += 1
                fl = [x for x in wide_all(b, op) if b.local_ty(x) in ("f64", "f32")]
                if fl:
                    est.append(sp(b, i))
            inst.sites.append("%s: %d returns, estimated ub at %s" % (fn, len(ups), est or "-"))
            if est:
                bad.append(("estimated-upper-bound:%s" % fn, "%s returns an upper bound computed in floating point (a fraction of the ladder checkpoints times the zone size, truncated): a zone holding qualifying rows can get ub = 0 and is dropped by the `ub > 0` keep test of the top-k pre-selection" % fn, None))
        # the keep test really is ub > 0 (otherwise e1 has nothing to protect)
        keep = 0
        for k in F.find(r"^engine::query::rlte_planner::greedy_cutoff_(numeric|string)::\{closure#\d+\}$"):
            C = F.fn_exact(k)
            for blk in C.blocks:
                for st in blk["s"]:
                    v = st.get("v")
                    if v and v.get("r") == "bin" and v.get("op") == "Gt" and (v["b"].get("k") or "").startswith("0_"):
                        keep += 1
        inst.sites.append("keep tests `ub > 0`: %d" % keep)
        if keep < 1:
            raise AnchorMissing("the `ub > 0` keep filter of greedy_cutoff_*")
        return bad
    ctx.run("C10.e1", "K7 PROV", "RlteCatalog::lb_ub_one_{numeric,string}", "the bound that drops a zone from an ordered LIMIT query is never an estimate", e1)

    def e2(inst):
        bad = []
        for fn in ("lb_ub_one_numeric", "lb_ub_one_string"):
            b = F.fn_exact(RL + fn) if F.has(RL + fn) else F.fn("RlteCatalog::" + fn)
            # direct or one call away (ladder_as_numbers)
            names = {c_.nname for c_ in b.calls if not c_.cleanup}
            for c_ in b.calls:
                if not c_.cleanup and c_.local and F.has(c_.nname):
                    names |= {x.nname for x in F.fn_exact(c_.nname).calls if not x.cleanup}
            ordered = any(re.search(r"slice::sort(_unstable)?(_by|_by_key)?$|::is_sorted|slice::reverse$|Iterator::rev$", n_) for n_ in names)
            walks = bool(for_headers(b)) or any(re.search(r"partition_point$|binary_search", n_) for n_ in names)
            inst.sites.append("%s: orders the ladder=%s walks it=%s" % (fn, ordered, walks))
            if walks and not ordered:
                bad.append(("ladder-order-assumed:%s" % fn, "%s walks the ladder in stored order without sorting it (its numeric sibling sorts first): the file is written descending, so the ASC walk stops at the first rank and reports ub = 0 for every zone whose maximum exceeds the cut-off" % fn, None))
        return bad
    ctx.run("C10.e2", "K11 SIB", "RlteCatalog::lb_ub_one_{numeric,string}", "both ladder walks work on an ordered ladder", e2)

    def f_(inst):
        b = F.fn("ConditionEvaluator::evaluate_zones_with_limit")
        lim = [l for l in range(1, b.argc + 1) if "Option<usize>" in b.local_ty(l)]
        if len(lim) != 1:
            raise AnchorMissing("the Option<usize> limit parameter of evaluate_zones_with_limit (%d)" % len(lim))
        lim = lim[0]
        limflow = {l for l, _ in b.flow_forward([lim])} | {lim}
        bad = []
        simd = b.find_calls(r"ConditionEvaluator::evaluate_numeric_simd$")
        if not simd:
            raise AnchorMissing("evaluate_numeric_simd call")
        for c_ in simd:
            for idx_ in (2, 3):
                dep = wide_all(b, c_.args[idx_], partial=False) if not ("k" in c_.args[idx_]) else set()
                inst.sites.append("evaluate_numeric_simd arg %d @ %s depends on limit=%s" % (idx_, sp(b, c_.bb), bool(dep & limflow)))
                if dep & limflow:
                    bad.append(("predicate-range-limited", "the row range evaluate_numeric_simd classifies depends on LIMIT: matching rows deeper in the zone than the remaining limit are treated as non-matching", None))
        ev = b.find_calls(r"Condition::evaluate_at$")
        hs = for_headers(b)
        for h in hs:
            if not any(b.can_reach(h.bb, e_.bb) and b.can_reach(e_.bb, h.bb) for e_ in ev):
                continue
            dep = wide_all(b, h.args[0], partial=False)
            if dep & limflow:
                bad.append(("predicate-loop-limited", "a loop that evaluates a predicate per row (%s) runs over a range that depends on LIMIT" % sp(b, h.bb), None))
        return bad
    ctx.run("C10.f", "K7 PROV", "ConditionEvaluator::evaluate_zones_with_limit", "LIMIT never narrows the rows a predicate is evaluated on", f_)

    def g_(inst):
        """The shard-level sort and both ordered merges look the ORDER BY column up by name, so a RETURN list that does not name it
        must neither keep it from being loaded nor project it away before the merges."""
        bad = []
        b = F.method("SelectionProjection", "ProjectionStrategy", "compute")
        adds = [c for c in b.calls if not c.cleanup and re.search(r"ProjectionColumns::(add|add_many)$", c.nname)]
        if len(adds) < 4:
            raise AnchorMissing("ProjectionColumns::add / add_many calls in SelectionProjection::compute (%d)" % len(adds))
        ob = [c for c in b.calls if not c.cleanup and re.search(r"QueryPlan::order_by\w*$", c.nname)]
        obl = set()
        for c in ob:
            obl |= {l for l, _ in b.flow_forward(c.dest)}
        hit = [c for c in adds if any((wide_all(b, a_) | b._origin_locals(a_)) & obl for a_ in c.args[1:])]
        inst.sites += [sp(b, c.bb) for c in hit]
        if not hit:
            bad.append(("order-field-not-loaded", "SelectionProjection::compute never adds the ORDER BY field: a RETURN list that does not name it keeps the sort column from being loaded", None))
        callers = []
        for k in F.keys():
            if k.startswith("bin:") or "shard_pipeline" not in k:
                continue
            cb = F.fn_exact(k)
            for c in cb.calls:
                if not c.cleanup and c.nname.endswith("shard_pipeline::compute_return_projection"):
                    callers.append((cb, c))
        if len(callers) < 2:
            raise AnchorMissing("callers of compute_return_projection (%d, confirmed 2)" % len(callers))
        for cb, c in callers:
            obl2 = set()
            for c2 in cb.calls:
                if not c2.cleanup and re.search(r"QueryPlan::order_by\w*$", c2.nname):
                    obl2 |= {l for l, _ in cb.flow_forward(c2.dest)}
            ok = any((wide_all(cb, a_) | cb._origin_locals(a_)) & obl2 for a_ in c.args)
            inst.sites.append("%s passes the order field: %s" % (sp(cb, c.bb), ok))
            if not ok:
                bad.append(("order-field-projected-away:%s" % cb.key.split("::{closure")[0].split("::")[-1], "%s builds the RETURN projection without the ORDER BY field: the column the ordered merges look up is projected away (500 'order by field missing')" % cb.key.split("::{closure")[0].split("::")[-1], sp(cb, c.bb)))
        return bad
    ctx.run("C10.g", "K7 PROV", "SelectionProjection::compute / shard_pipeline::compute_return_projection", "a narrowing RETURN keeps the ORDER BY column", g_)

    def h_(inst):
        """ORDER BY sorts each shard's rows and merges the shard streams with ScalarValue::compare. A sort needs a total order; compare
        picks its comparison lane (u64 / i64 / f64 / bool / text) PER PAIR through accessors, and an accessor that parses text makes
        the lane depend on the two values: "9" < "10" (numbers), "10" < "1a" < "9" (text) is a cycle, so the result depends on the
        input order and on the placement of the rows. Necessary condition decided here: no lane accessor that compare tries before
        the text lane turns a Utf8 value into a number / bool by parsing it."""
        bad = []
        c = F.fn("engine::types::ScalarValue::compare")
        lanes = []
        hit = []
        for x in c.calls:
            if x.cleanup:
                continue
            m = re.search(r"ScalarValue::(as_u64|as_i64|as_f64|as_bool)$", x.nname)
            if m and m.group(1) not in lanes:
                lanes.append(m.group(1))
        if len(lanes) < 2:
            raise AnchorMissing("the lane accessors of ScalarValue::compare (found %s)" % lanes)
        for ln in lanes:
            a = F.fn("engine::types::ScalarValue::" + ln)
            sw = param_enum_switches(a, r"ScalarValue$", "self")
            if not sw:
                raise AnchorMissing("match on self in ScalarValue::%s" % ln)
            ar = arms(a, sw[0][0])
            parses = [x for x in a.calls if not x.cleanup and x.bb in ar.get("Utf8", set()) and re.search(r"str::parse$|FromStr>::from_str$|to_ascii_lowercase$|eq_ignore_ascii_case$", x.nname)]
            inst.sites.append("%s: Utf8 arm parses text: %s" % (ln, bool(parses)))
            if parses:
                hit.append((ln, sp(a, parses[0].bb)))
        if hit:
            bad.append(("compare-lane-by-parsing", "ScalarValue::compare chooses its lane through %s, which parse Utf8 text: for a string column the lane depends on the pair of values and the comparison is not a total order (\"10\" < \"1a\" < \"9\" < \"10\")" % ", ".join(h for h, _ in hit), hit[0][1]))
        return bad
    ctx.run("C10.h", "K10 READS", "engine::types::ScalarValue::compare", "the ORDER BY comparator does not choose its lane from the text of the two values", h_)

    def i_(inst):
        """The shard-level mergers cap their output at LIMIT + OFFSET rows with offset 0; the handler gives the response writer no
        limit / offset for an ordered query. The ONLY place that skips OFFSET rows and stops at LIMIT is the task OrderedStreamMerger
        ::spawn starts. So every stream OrderedStreamMerger::merge hands back must read from the channel that task writes to - never
        from a shard's own receiver (one shard, or any other `already ordered` short cut)."""
        bad = []
        m = F.fn("query::merge::streaming::OrderedStreamMerger::merge")
        sp_ = [c for c in m.calls if not c.cleanup and re.search(r"ordered_merger::OrderedStreamMerger::spawn$", c.nname)]
        if len(sp_) != 1:
            raise AnchorMissing("OrderedStreamMerger::spawn in the coordinator merge (%d)" % len(sp_))
        spawn = sp_[0]
        chans = [c for c in m.calls if not c.cleanup and re.search(r"FlowChannel::bounded$|mpsc::channel$", c.nname)]
        chl = set()
        for c in chans:
            chl |= {l for l, _ in m.flow_forward(c.dest)}
        news = [c for c in m.calls if not c.cleanup and c.nname.endswith("QueryBatchStream::new")]
        if not news:
            raise AnchorMissing("QueryBatchStream::new in the coordinator merge")
        # limit and offset reach the spawned task
        def through(op, depth=4):
            out = set()
            for l in m.origins(op):
                if l[0] == "call" and depth > 0 and re.search(r"Option::(map|unwrap_or\w*|copied|cloned)$", norm_path(l[1])):
                    cc = m.call_at(l[2])
                    if cc.args:
                        out |= through(cc.args[0], depth - 1)
                else:
                    out.add(l)
            return out
        lo = [a_ for a_ in spawn.args if any(l[0] == "param" and len(l) > 2 and (".limit" in l[2] or ".offset" in l[2]) for l in through(a_))]
        inst.sites += [sp(m, spawn.bb)] + [sp(m, c.bb) for c in news] + ["limit / offset arguments of the merge task: %d" % len(lo)]
        if len(lo) < 2:
            bad.append(("merge-task-without-limit-offset", "the coordinator merge task is not given both self.limit and self.offset", sp(m, spawn.bb)))
        for c in news:
            rcv = c.args[1]
            own = bool((m._origin_locals(rcv) | wide_all(m, rcv)) & chl)
            from_param = any(l[0] == "param" and l[1] == "receivers" for l_ in (m._origin_locals(rcv) | wide_all(m, rcv)) for l in m.origins({"c": [l_]}))
            after_spawn = m.dominates_edge((spawn.bb, spawn.to), c.bb)
            if not own or from_param or not after_spawn:
                bad.append(("stream-bypasses-merge-task", "OrderedStreamMerger::merge hands back a stream that does not read from the merge task's channel (a shard's own receiver, or a return before the task is started): OFFSET rows are not skipped and LIMIT is the shard-level cap LIMIT + OFFSET", sp(m, c.bb)))
        return bad
    ctx.run("C10.i", "K7 PROV + K1", "command::handlers::query::merge::streaming::OrderedStreamMerger::merge", "every ordered result passes the one task that applies OFFSET and LIMIT", i_)

    def j_(inst):
        """The ORDER BY ... LIMIT zone pre-selection (RLTE) ranks ZONES by the sort field before any row is read. It may only be engaged
        where a zone's rows end up in the result by that rank: (1) not for aggregate queries (their ORDER BY / LIMIT apply to the
        merged groups; every zone feeds them) - RlteCoordinator::should_plan answers true only behind `aggs == None`; (2) a zone about
        whose sort values nothing is known (ladder with non-numeric entries) is kept: lb_ub_one_numeric answers the constant pair
        (0, 0) only for an empty ladder / zero zone size."""
        bad = []
        b = F.fn("RlteCoordinator::should_plan")
        trues = [i_ for i_ in sorted(b.live_blocks()) for st in b.blocks[i_]["s"] if st.get("a") == [0] and (st.get("v") or {}).get("r") == "use" and str((st["v"]["o"] or {}).get("k", "")).startswith("true")]
        if not trues:
            raise AnchorMissing("the `true` answer of RlteCoordinator::should_plan")
        agg_none = []
        for i_ in sorted(b.live_blocks()):
            t = b.blocks[i_]["t"]
            if t["t"] != "switch":
                continue
            # the discriminant read feeding this switch
            for st in b.blocks[i_]["s"]:
                v = st.get("v") or {}
                if v.get("r") == "discr" or "discriminant" in json.dumps(v):
                    if ".aggs" in json.dumps(v):
                        si = b.switch_info(i_)
                        for k_, tgt in (si.get("edges") or {}).items():
                            if str(k_) in ("0", "None"):
                                agg_none.append((i_, tgt))
        inst.sites.append("should_plan: `aggs == None` edges: %s" % [sp(b, i_) for i_, _ in agg_none])
        for tb in trues:
            if not agg_none or not any(b.dominates_edge(e, tb) for e in agg_none):
                bad.append(("preselection-under-aggregate", "RlteCoordinator::should_plan engages the ORDER BY ... LIMIT zone pre-selection without testing that the query has no aggregations: zones are pruned before the groups are built (COUNT ... BY c ORDER BY c LIMIT 1 undercounts)", sp(b, tb)))
        n = F.fn("RlteCatalog::lb_ub_one_numeric")
        zero_pairs = []
        for (bb, jx, v, dst) in n.aggregates_tuple() if hasattr(n, "aggregates_tuple") else []:
            pass
        for i_ in sorted(n.live_blocks()):
            for st in n.blocks[i_]["s"]:
                v = st.get("v") or {}
                if v.get("r") == "agg" and v.get("ak") == "tuple" and st.get("a") == [0] and len(v.get("o", [])) == 2 and all(str(o.get("k", "")).startswith("0_") for o in v["o"]):
                    zero_pairs.append(i_)
        # every constant (0, 0) answer sits behind an emptiness / zero test, not behind `no number parsed`
        def acc_empty(L):
            return any(l[0] == "call" and re.search(r"(Vec|slice)::is_empty$|slice::len$|Vec::len$", norm_path(l[1])) for l in L) or any(l[0] == "param" for l in L)
        empt = [c for c in n.calls if not c.cleanup and re.search(r"(Vec|slice)::is_empty$", c.nname) and any(l[0] == "call" and "ladder_as_numbers" in l[1] for l in n.origins(c.args[0]))]
        edges_ = []
        for c in empt:
            edges_ += bool_result_edge(n, c, True)
        for zb in zero_pairs:
            on_numbers = any(n.dominates_edge(e, zb) for e in edges_)
            inst.sites.append("lb_ub_one_numeric: constant (0, 0) @ %s is the answer for `no entry parsed as a number`: %s" % (sp(n, zb), on_numbers))
            if on_numbers:
                bad.append(("unknown-zone-pruned", "lb_ub_one_numeric answers (0, 0) - `no row of this zone can be in the result` - for a ladder none of whose entries parsed as a number (null / missing sort values): the zone is pruned although nothing is known about it", sp(n, zb)))
        return bad
    ctx.run("C10.j", "K8 GUARD", "RlteCoordinator::should_plan / RlteCatalog::lb_ub_one_numeric", "the zone pre-selection is engaged only where a zone's rank decides, and keeps zones it cannot rank", j_)

    def k_(inst):
        """LIMIT / OFFSET are applied once. AggregateStreamMerger pages the merged groups of an aggregate query, the ordered merge pages an
        ORDER BY query; for those the query handler must hand the response writer (None, None). Decided: in QueryCommandHandler::handle a
        (None, None) pair for the writer sits behind the `aggs is Some` edge (like the one behind `order_by is Some`)."""
        bad = []
        b = F.fn("QueryCommandHandler::handle")
        none_pairs = []
        for i_ in sorted(b.live_blocks()):
            for st in b.blocks[i_]["s"]:
                v = st.get("v") or {}
                if v.get("r") == "agg" and v.get("ak") == "tuple" and len(v.get("o", [])) == 2:
                    if all(any(l[0] == "agg" and l[1].endswith("Option::None") for l in b.origins(o)) and len(b.origins(o)) == 1 for o in v["o"]):
                        none_pairs.append(i_)
        if not none_pairs:
            raise AnchorMissing("the (None, None) limit / offset pair(s) of QueryCommandHandler::handle")

        def some_edges(field):
            out = []
            for i_ in sorted(b.live_blocks()):
                if b.blocks[i_]["t"]["t"] != "switch":
                    continue
                if any(field in json.dumps(st.get("v") or {}) and "discr" in json.dumps(st.get("v") or {}) for st in b.blocks[i_]["s"]):
                    si = b.switch_info(i_)
                    for k_, tgt in (si.get("edges") or {}).items():
                        if str(k_) in ("1", "Some"):
                            out.append((i_, tgt))
            return out
        for field, what in ((".aggs", "aggregate"), (".order_by", "ORDER BY")):
            es = some_edges(field)
            ok = any(b.dominates_edge(e, nb) for e in es for nb in none_pairs)
            inst.sites.append("%s queries: writer gets (None, None): %s" % (what, ok))
            if not ok:
                bad.append(("paged-twice:%s" % what.split(" ")[0].lower(), "QueryCommandHandler::handle hands LIMIT / OFFSET to the response writer for %s queries although their merger has already paged the result: OFFSET is skipped twice (COUNT BY c LIMIT 2 OFFSET 1 returns one group)" % what, sp(b, none_pairs[0])))
        return bad
    ctx.run("C10.k", "K8 GUARD", "QueryCommandHandler::handle", "LIMIT / OFFSET are applied by exactly one stage", k_)
