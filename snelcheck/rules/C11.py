"""C11 — published segments are immutable and appear/disappear as a whole: structural clauses."""
from .util import *
from ..callgraph import CallGraph

EXPLANATION = """
Decides structural clauses necessary for C11; does not decide byte-level immutability over a lifetime, id freshness across restarts, or crash points.
Shared mechanisms re-evaluated here: C01.g (atomic single-writer index replace), C03.c (publish only after verification), C05.b1/b2 (index swap under the flush lock after outputs exist),
C05.d (compactor writes only into the fresh output directory; reading inputs is write-free), C05.e (whole-directory reclaim by one function, one caller chain).
a) the read path is write-free: no file-system mutating leaf (create/open-for-write/rename/remove/mkdir/set_len/mmap-mut) is reachable from engine::query::scan::scan
   (positive control: the same query from Flusher::flush is non-empty).
b) every function that mutates files of a segment directory is reachable from the running system only through the pre-publication writers (Flusher::flush, MultiUidCompactor::run)
   or the reclaim step: with those three cut out of the call graph no segment-file writer is reachable from command/frontend/shard/query/compactor code.
c) both L0 rotation sites take the new segment id from RangeAllocator::next_for_level; RangeAllocator::from_existing_ids seeds past the maximum existing id.
f) reads merge in-flight segments into their scan list, so a segment's files can be opened while the flush is still writing them; the three index files whose loaders return Ok for a file cut off at
   a record boundary and whose result a process-wide cache keeps (<uid>_<field>.zfc: CompressedColumnIndex / GlobalColumnHandleCache; <uid>.idx: ZoneIndex / GlobalZoneIndexCache; <uid>_<field>.ebm:
   EnumBitmapIndex / GlobalEnumCache) must therefore appear atomically: each writer creates a path that is not its `path` parameter, and returns Ok only after rename(tmp, path) succeeded.
   (table frozen from the triage of the defect, one line per file; the strict loaders - bincode / count-prefixed - reject a partial file and are not listed)
g) after a restart the live segment list is the list of PUBLISHED segments: ShardContext::new must build it from (or intersect it with) segments.idx - a numeric directory that is not in the index is
   an unfinished flush or a compaction output whose hand-over never happened, and naming it in the live list makes reads open incomplete files.
h) reads scan published segments only: the scan list must not contain in-flight (unpublished) segments - their files are still being written (the .zones file exists before the column files and the
   .idx), so a read sees half-written rows that carry real event ids and win the de-duplication against the intact copy in the passive buffer. The passive buffer is released only after publication
   (C03.c), so the in-flight merge adds nothing to completeness.
"""
FLOOR = 16
REQUIRED = ["C11.a", "C11.b", "C11.c", "C11.f", "C11.g", "C11.h", "C11.i", "C11.j", "C11.k", "C11.l", "C11/C01.g", "C11/C03.c", "C11/C05.b1", "C11/C05.b2", "C11/C05.d", "C11/C05.e"]

SEGMOD = re.compile(r"^(engine::core::(column|filter|read::catalog|time|zone|snapshot|write)::|shared::storage_header::)")
WRITER_ROOTS = {"engine::core::write::flusher::Flusher::flush", "engine::core::compaction::multi_uid_compactor::MultiUidCompactor::run",
                "engine::core::compaction::handover::CompactionHandover::schedule_reclaim"}
SYSTEM = re.compile(r"^(command|frontend|engine::(shard|compactor|query|store|materialize|auth|schema|core::read|core::zone::selector|core::filter::condition))::")


def run(ctx):
    F = ctx.F
    ctx.borrow("C01", ["C01.g"], "C11")
    ctx.borrow("C03", ["C03.c"], "C11")
    ctx.borrow("C05", ["C05.b1", "C05.b2", "C05.d", "C05.e"], "C11")

    def a(inst):
        cg = CallGraph(F)
        roots = [k for k in cg.nodes if norm_path(k).startswith("engine::query::scan::scan")]
        if not roots:
            raise AnchorMissing("scan")
        seen = cg.reachable(roots)
        bad = []
        for k in seen:
            if k in cg.nodes:
                for leaf in fs_mut_leaves(cg, k):
                    bad.append(("read-path-writes:%s:%s" % (norm_path(k.split("::{closure")[0]), norm_path(leaf)), "the read path reaches %s in %s" % (leaf, k), cg.chain(seen, k)))
        pc = cg.reachable(cg.closure_family("engine::core::write::flusher::Flusher::flush"))
        npc = sum(1 for k in pc if k in cg.nodes and fs_mut_leaves(cg, k))
        if not npc:
            raise AnchorMissing("positive control: no fs mutation under Flusher::flush")
        need = "engine::core::read::flow::shard_pipeline::build_segment_stream"
        if need not in seen:
            raise AnchorMissing("scan no longer reaches the segment stream")
        inst.detail = "bodies reachable from scan: %d; fs-mutating bodies under Flusher::flush (control): %d" % (len(seen), npc)
        return bad
    ctx.run("C11.a", "K4 EFFECT", "engine::query::scan (call-graph sweep)", "reads never modify segment files", a)

    def b_(inst):
        cg = CallGraph(F)
        M = [k for k in cg.nodes if fs_mut_leaves(cg, k) and SEGMOD.search(norm_path(k))]
        if len(M) < 10:
            raise AnchorMissing("segment-file writers found: %d (expected >= 10)" % len(M))

        def is_cut(k):
            return k.split("::{closure")[0] in WRITER_ROOTS
        for w in WRITER_ROOTS:
            if w not in cg.nodes:
                raise AnchorMissing(w)
        roots = [k for k in cg.nodes if SYSTEM.match(norm_path(k)) and not is_cut(k) and k not in M]
        seen = cg.reachable(roots, stop=is_cut)
        bad = []
        for m in M:
            if m in seen:
                ch = cg.chain(seen, m)
                bad.append(("segment-writer-reachable:%s<-%s" % (norm_path(m.split("::{closure")[0]), norm_path(ch[0].split("::{closure")[0])),
                            "%s (writes segment files) is reachable from %s without going through flush / compaction / reclaim" % (m, ch[0]), ch))
        inst.detail = "segment-file writers: %d; system roots: %d; reachable with writers cut: %d" % (len(M), len(roots), len(seen))
        inst.sites = [norm_path(m) for m in sorted(M)][:12]
        return bad
    ctx.run("C11.b", "K4 REACH", "crate call graph", "segment files are written only by the pre-publication writers", b_)

    def c(inst):
        bad = []
        for nm in ("insert_and_maybe_flush", "worker::on_flush"):
            b = F.fn(nm)
            q = one(b, r"FlushManager::queue_for_flush$")
            L = b.origins(q.args[3])
            inst.sites.append("%s: segment id <- %s" % (nm, fmt_leaves(L)))
            if not all(l[0] == "call" and norm_path(l[1]).endswith("RangeAllocator::next_for_level") for l in L):
                bad.append(("segment-id-origin:%s" % nm, "%s queues a flush under an id that does not come from the allocator (%s)" % (nm, fmt_leaves(L)), None))
        fe = F.fn("RangeAllocator::from_existing_ids")
        ins = one(fe, r"HashMap::insert$")

        def is_cand(L):
            return any((l[0] == "call" and re.search(r"saturating_add$|checked_add$|wrapping_add$", norm_path(l[1]))) or (l[0] == "binop" and l[1].startswith("Add")) for l in L)

        def is_cur(L):
            return any(l[0] == "call" and re.search(r"unwrap_or(_default)?$|HashMap::get$|copied$", norm_path(l[1])) for l in L)

        def acc(op, A, B, truth):
            if is_cand(A) and is_cur(B):
                return (op == "Gt" and truth) or (op == "Le" and not truth)
            if is_cur(A) and is_cand(B):
                return (op == "Lt" and truth) or (op == "Ge" and not truth)
            return False
        g = cmp_guard(fe, ins.bb, acc)
        # the inserted value is the candidate (offset + 1)
        Lv = fe.origins(ins.args[2])
        sa = [c for c in fe.calls if re.search(r"saturating_add$|checked_add$", c.nname)]
        plus1 = any((c.args[1].get("k") or "").startswith("1_") for c in sa)
        inst.sites.append("from_existing_ids: guard %s, inserted <- %s" % (g, fmt_leaves(Lv)))
        if not g:
            bad.append(("allocator-seed-guard", "next offset of a level is not updated under `offset+1 > current`", None))
        if not is_cand(Lv) or not plus1:
            bad.append(("allocator-seed-value", "next offset of a level is not seeded with (existing offset + 1) (%s)" % fmt_leaves(Lv), None))
        return bad
    ctx.run("C11.c", "K7 PROV", "L0 rotation sites / RangeAllocator", "new segments get fresh ids from the allocator", c)

    ATOMIC_WRITERS = [
        ("CompressedColumnIndex::write_to_path", ".zfc: load_from_path stops at the first short entry and returns Ok; kept by GlobalColumnHandleCache"),
        ("CompressedColumnIndex::write_to_path_async", ".zfc (flush path)"),
        ("ZoneIndex::write_to_path", ".idx: load_from_path returns Ok(empty) for a header-only file; kept by GlobalZoneIndexCache"),
        ("ZoneIndex::write_to_path_async", ".idx (flush path)"),
        ("EnumBitmapIndex::save", ".ebm: load returns Ok with fewer zones at a zone boundary; kept by GlobalEnumCache"),
    ]

    def f_(inst):
        bad = []
        for nm, why in ATOMIC_WRITERS:
            b = F.fn(nm)
            creates = [c_ for c_ in b.calls if not c_.cleanup and re.search(r"fs::File::create$|fs::OpenOptions::open$|fs::write$", c_.nname)]
            renames = [c_ for c_ in b.calls if not c_.cleanup and re.search(r"fs::rename$", c_.nname)]
            short = nm
            if not creates:
                raise AnchorMissing("file creation in %s" % nm)
            in_place = []
            for c_ in creates:
                pa = c_.args[-1] if c_.nname.endswith("OpenOptions::open") else c_.args[0]
                L = b.origins(pa)
                # the created path must be DERIVED from the parameter (through a call), not be the parameter itself
                if any(l[0] in ("param", "upvar") for l in L) and not any(l[0] == "call" for l in L):
                    in_place.append(sp(b, c_.bb))
            inst.sites.append("%s: creates %d, renames %d%s" % (short, len(creates), len(renames), " (in place: %s)" % in_place if in_place else ""))
            if in_place:
                bad.append(("written-in-place:%s" % short, "%s creates its final path and fills it with several writes (%s): a read of the in-flight segment can load and cache the truncated index (%s)" % (short, ", ".join(in_place), why), None))
                continue
            if not renames:
                bad.append(("no-rename:%s" % short, "%s writes a temporary file but never renames it to the final path" % short, None))
                continue
            # rename target is the parameter; Ok is returned only past the rename's success edge
            rn = renames[0]
            Lt = b.origins(rn.args[1])
            if not any(l[0] in ("param", "upvar") for l in Lt):
                bad.append(("rename-target:%s" % short, "%s renames the temporary file to %s, not to its path parameter" % (short, fmt_leaves(Lt)), None))
            oks = [bb for (bb, j, v, dst) in b.aggregates("result::Result", "Ok") if dst[0] == 0]
            done = done_edge(b, rn)
            oke = [e for (e, v) in ok_edges(b, rn)]
            cut = oke or ([done] if done else [])
            for ob in oks:
                if cut and ob in b.reach(0, cut_edges=cut):
                    bad.append(("ok-before-rename:%s" % short, "%s can return Ok without the rename having succeeded" % short, None))
        return bad
    ctx.run("C11.f", "K1 DOM + K7", "index-file writers (.zfc, .idx, .ebm)", "index files a reader may open before publication appear atomically", f_)

    def g_(inst):
        b = F.fn("ShardContext::new")
        ld = one(b, r"SegmentIdLoader::load$")
        # the live list: the value stored in the `segment_ids` field of the context / handed to FlushManager::new
        ag = [(bb, v) for (bb, j, v, dst) in b.aggregates("ShardContext") if "segment_ids" in v.get("fields", [])]
        if not ag:
            raise AnchorMissing("ShardContext aggregate with segment_ids")
        bb, v = ag[0]
        op = v["o"][v["fields"].index("segment_ids")]
        sl = wide_all(b, op, partial=False)
        from_listing = ld.dest[0] in sl
        idx_calls = [c_ for c_ in b.calls if not c_.cleanup and re.search(r"SegmentIndex::(load|open|read|iter_all|entries)|segment_index::", c_.nname) and c_.dest and c_.dest[0] in sl]
        lb = F.fn("SegmentIdLoader::load")
        fam = [lb] + [F.fn_exact(x) for x in F.find("^" + re.escape(lb.key) + r"::\{closure")]
        loader_consults = any(re.search(r"SegmentIndex::|segment_index::", c_.nname) for B in fam for c_ in B.calls if not c_.cleanup)
        inst.sites = [sp(b, ld.bb), sp(b, bb), "live list from directory listing=%s, consults segments.idx=%s" % (from_listing, bool(idx_calls) or loader_consults)]
        if from_listing and not idx_calls and not loader_consults:
            return [("live-list-from-directory-listing", "ShardContext::new takes every numeric directory under the shard as a live segment (SegmentIdLoader::load lists the directory and never consults segments.idx): after a crash the live list names unpublished, incomplete directories", None)]
        return []
    ctx.run("C11.g", "K10 READS", "ShardContext::new / SegmentIdLoader::load", "the live segment list after a restart names published segments only", g_)

    def h_(inst):
        cg = CallGraph(F)
        roots = [k for k in cg.nodes if norm_path(k).startswith("engine::query::scan::scan")]
        if not roots:
            raise AnchorMissing("engine::query::scan::scan")
        seen = cg.reachable(roots)
        infl = "engine::core::segment::inflight::InflightSegments::snapshot"
        if infl not in cg.nodes or infl not in seen:
            inst.sites.append("in-flight segments are not merged into the scan list")
            return []
        chain = cg.chain(seen, infl)
        inst.sites.append(" -> ".join(norm_path(x).split("::")[-2] + "::" + norm_path(x).split("::")[-1] for x in chain[-4:]))
        return [("in-flight-segments-scanned", "reads merge in-flight (unpublished) segments into their scan list (%s): files still being written are read" % norm_path(chain[-2]).split("::")[-2:], chain)]
    ctx.run("C11.h", "K4 REACH", "engine::query::scan -> InflightSegments::snapshot", "a read scans published segments only", h_)

    def i_(inst):
        """When segments.idx is missing or unreadable the index is rebuilt from the directory listing. Publication exists only as a
        line in that file, so a rebuilt index can only be right if a directory carries its own evidence of having been published
        (a completion / retirement marker). Decided here: what recover_from_disk requires of a directory before it inserts a
        SegmentEntry - the presence of a `.zones` file is the FIRST thing a flush writes and proves nothing."""
        bad = []
        b = F.fn("SegmentIndex::recover_from_disk")
        fam = [b] + [F.fn_exact(k) for k in F.keys() if k.startswith(b.key.split("::{closure")[0] + "::{closure")]
        ins = [(f_, c) for f_ in fam for c in f_.calls if not c.cleanup and re.search(r"SegmentIndexTree::insert$", c.nname)]
        if not ins:
            raise AnchorMissing("SegmentIndexTree::insert in recover_from_disk")
        consts = set()
        for f_ in fam:
            for c in f_.calls:
                if c.cleanup or not re.search(r"ends_with$|strip_suffix$|starts_with$|strip_prefix$|::eq$|Path::join$|Path::exists$|extension$", c.nname):
                    continue
                if c.nname.endswith("Path::join") and not any(x.nname.endswith(("Path::exists", "Path::is_file", "fs::metadata")) and (f_._origin_locals(x.args[0]) & {l for l, _ in f_.flow_forward(c.dest)}) for x in f_.calls if not x.cleanup):
                    continue   # a path that is built but not probed (where the rebuilt index is saved) is no evidence
                for a_ in c.args:
                    if "k" in a_ and str(a_["k"]).startswith('"'):
                        consts.add(a_["k"].strip('"'))
        evidence = sorted(consts)
        inst.sites += [sp(f_, c.bb) for f_, c in ins] + ["file-name evidence consulted before publishing a directory: %s" % evidence]
        only_zones = set(evidence) <= {".zones"}
        if only_zones:
            bad.append(("recover-publishes-any-zones-dir", "recover_from_disk publishes every 5-digit directory that holds a *.zones file: a half-written flush directory and a retired, not yet deleted compaction input are published too", sp(ins[0][0], ins[0][1].bb)))
        return bad
    ctx.run("C11.i", "K10 READS", "SegmentIndex::recover_from_disk", "a rebuilt index publishes only directories that prove they were published", i_)

    def j_(inst):
        """`disappear whole`: a retired segment directory leaves its published name in ONE step (a rename into the reclaim area) and
        is taken apart there. remove_dir_all on <shard>/<label> itself deletes file by file under the published name: at any instant
        or crash point of the background reclaim the directory exists with part of its files, and a restart lists it as a segment."""
        bad = []
        h = F.fn("CompactionHandover::move_to_reclaim")
        rms = [c for c in h.calls if not c.cleanup and c.nname.endswith("fs::remove_dir_all")]
        rns = [c for c in h.calls if not c.cleanup and c.nname.endswith("fs::rename")]
        if not rms:
            raise AnchorMissing("fs::remove_dir_all in move_to_reclaim")
        inst.sites = [sp(h, c.bb) for c in rns + rms]
        staged = lambda c, a_: any(x.startswith(".") and "reclaim" in x for x in str_consts(h, a_, depth=6))
        if not rns or not any(staged(c, c.args[1]) and not staged(c, c.args[0]) for c in rns):
            bad.append(("retired-dir-not-renamed-away", "move_to_reclaim does not rename a retired segment directory out of its published name before deleting it", sp(h, rms[0].bb)))
        for c in rms:
            if not staged(c, c.args[0]):
                bad.append(("retired-dir-deleted-in-place", "move_to_reclaim deletes a retired segment directory file by file under its published name <shard>/<label>: a crash (or a directory listing) during the background reclaim finds a half-deleted segment under a valid segment name", sp(h, c.bb)))
                break
        return bad
    ctx.run("C11.j", "K7 PROV", "CompactionHandover::move_to_reclaim", "a retired segment leaves its published name in one rename", j_)

    def k_(inst):
        """`disappear whole` also means: only what the index retired disappears. The labels a hand-over takes out of the live list and
        gives to the reclaimer are the ones ITS retirement drained - never labels read off the shard directory. A flush publishes in
        two steps (write the directory, then take the flush lock and add the index line): a directory the index does not name yet may
        be a flush waiting for that lock; reclaiming it leaves an index line without a directory."""
        bad = []
        b = F.fn("CompactionHandover::commit_batch")
        oks = [(bb, v) for (bb, jx, v, dst) in b.aggregates("result::Result", "Ok") if dst == [0]]
        if not oks:
            raise AnchorMissing("Ok(drained) return of commit_batch")
        W = set()
        for bb, v in oks:
            W |= wide_all(b, v["o"][0]) | deep_locals(b, v["o"][0], wide=True)
        listing = []
        for c in b.calls:
            if c.cleanup or not re.search(r"SegmentIdLoader::(new|load)$|fs::read_dir$|ReadDir", c.nname):
                continue
            fl = {l for l, _ in b.flow_forward(c.dest)} if c.dest else set()
            if fl & W or (c.dest and c.dest[0] in W):
                listing.append(c)
        # values pushed into the returned vector
        for c in b.calls:
            if not c.cleanup and re.search(r"Vec::(push|extend|append)$|Extend>::extend$", c.nname) and (b._origin_locals(c.args[0]) & W) and len(c.args) > 1:
                for l_ in wide_all(b, c.args[1]) | b._origin_locals(c.args[1]):
                    for x in b.origins({"c": [l_]}):
                        if x[0] == "call" and re.search(r"SegmentIdLoader::load$|fs::read_dir$|DirEntry", x[1]):
                            listing.append(b.call_at(x[2]))
        inst.sites = [sp(b, bb) for bb, _ in oks] + ["directory listings feeding the reclaim set: %d" % len(listing)]
        if listing:
            bad.append(("reclaim-set-from-directory-listing", "CompactionHandover::commit_batch adds labels found by listing the shard directory (%s) to the set it retires and reclaims: a segment directory a concurrent flush has written but not yet indexed is deleted, and the flush then publishes an index line without a directory" % sorted({c.nname.split("::")[-2] + "::" + c.nname.split("::")[-1] for c in listing}), sp(b, listing[0].bb)))
        return bad
    ctx.run("C11.k", "K7 PROV", "CompactionHandover::commit_batch", "a hand-over reclaims only what its own retirement drained", k_)

    def l_(inst):
        """segments.idx is replaced by write-to-temporary + rename. SegmentIndex::load removes a leftover temporary file, and the
        compactor calls load WITHOUT the shard's flush lock: the file load removes must never be the temporary file of a save that is
        in flight. Decided: the temporary path of save is unique per save (derives from a counter / the process id), not the fixed name
        load cleans up."""
        bad = []
        sv = F.fn("SegmentIndex::save")
        cr = [c for c in sv.calls if not c.cleanup and re.search(r"fs::File::create$|OpenOptions::open$", c.nname)]
        rn = [c for c in sv.calls if not c.cleanup and c.nname.endswith("fs::rename")]
        if not cr or not rn:
            raise AnchorMissing("File::create / fs::rename in SegmentIndex::save")
        W = wide_all(sv, cr[0].args[0]) | sv._origin_locals(cr[0].args[0])
        uniq = [c for c in sv.calls if not c.cleanup and c.dest and c.dest[0] in W and re.search(r"fetch_add$|process::id$|Uuid|SystemTime::now$|Instant::now$|thread::current$", c.nname)]
        ld = F.fn("SegmentIndex::load")
        removes = [c for c in ld.calls if not c.cleanup and c.nname.endswith("fs::remove_file")]
        inst.sites = [sp(sv, cr[0].bb), sp(sv, rn[0].bb)] + [sp(ld, c.bb) for c in removes] + ["temporary path of save is unique per save: %s" % bool(uniq)]
        if removes and not uniq:
            bad.append(("load-removes-inflight-temporary", "SegmentIndex::save writes a fixed temporary name and SegmentIndex::load (called by the compactor without the flush lock) removes a leftover of that name: a flush's save loses its temporary file before the rename and the flushed segment is never registered", sp(sv, cr[0].bb)))
        return bad
    ctx.run("C11.l", "K7 PROV", "SegmentIndex::save / load", "load never removes the temporary file of a save in flight", l_)


def cmp_count(fam):
    n = 0
    for bb_ in fam:
        for blk in bb_.live_blocks():
            for s in bb_.blocks[blk]["s"]:
                if "v" in s and s["v"]["r"] == "bin" and s["v"]["op"] in ("Gt", "Ge", "Lt", "Le"):
                    n += 1
        n += len(bb_.find_calls(r"cmp::(max|Ord::max)$|Ord>::max$"))
    return n
