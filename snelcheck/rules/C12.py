"""C12 — one shard per context; unscoped reads cover all shards."""
from .util import *
from ..callgraph import CallGraph

EXPLANATION = """
Decides: (a) determinism effect of routing: ShardManager::get_shard and everything it reaches in the crate call no nondeterminism source (RandomState, ahash random state, rand, clocks, thread ids,
pointer-to-int); the hasher is constructed by DefaultHasher::new (fixed keys); the hashed value is the context id; the index is hash % shards.len(); the store handler routes by the command's context id.
(b) the shard tag of generated event ids is the shard's own id (ShardContext::next_event_id passes self.id).
(c) fan-out loops (query dispatch, both sequence dispatch loops, FLUSH) iterate ShardManager::all_shards() without adapters; every iteration sends to that shard and registers the pending reply;
the collection loop consumes every pending reply or returns an error; all_shards returns the whole shards field.
(d) slot = id: ShardManager::new builds `shards` by pushing, inside the loop over 0..num_shards and in loop order, the shard spawned with that iteration's index as its id, so that
`hash % len` selects the same shard id in every process lifetime (no completion-order collection).
(f) a reader of a shard's batch stream (command handlers and engine::core::read::flow) reports end-of-stream (returns None / Ok(None)) only when the channel's recv yielded None: no path from
recv's Some edge reaches an end-of-stream return without asking recv again (an empty batch is not the end of a shard's answer).
Not decided: stability of DefaultHasher's algorithm across Rust releases (documented unspecified; assumption).
"""
FLOOR = 10
REQUIRED = ["C12.a", "C12.b", "C12.c1", "C12.c2", "C12.c3", "C12.c4", "C12.c5", "C12.d", "C12.e", "C12.f"]
ASSUMPTIONS = ["std::collections::hash_map::DefaultHasher::new() is SipHash-1-3 with fixed zero keys in every build of the same toolchain"]

NONDET = re.compile(r"(RandomState::new|RandomState::default|ahash::RandomState|ahash::AHasher::default|rand::|fastrand::|getrandom|SystemTime::now|Instant::now|thread::current|ThreadId|thread_rng|process::id|Uuid::new)")
ADAPTERS = re.compile(r"Iterator::(skip|take|filter|filter_map|step_by|skip_while|take_while|rev|chain|zip|peekable|nth)$|slice::(split_at|chunks|windows|split_first|split_last)$")


def fanout(F, inst, body, send_pat=r"mpsc::(bounded::)?Sender::send$", which=0):
    """K9 over the loop `for shard in <all_shards()>` number `which` in body."""
    bad = []
    nexts = []
    for c in for_headers(body):
        L = body.origins(c.args[0], transparent=NEXT_TRANSPARENT)
        if any(l[0] == "call" and norm_path(l[1]).endswith("ShardManager::all_shards") for l in L):
            nexts.append((c, L))
    if len(nexts) <= which:
        raise AnchorMissing("loop #%d over all_shards() in %s (found %d)" % (which, body.key, len(nexts)))
    nx, L = nexts[which]
    if not all(l[0] == "call" and norm_path(l[1]).endswith("ShardManager::all_shards") for l in L):
        bad.append(("iterator-origin", "the shard loop iterates something else besides all_shards(): %s" % fmt_leaves(L), None))
    for c in body.calls:
        if not c.cleanup and ADAPTERS.search(c.nname) and c.dest and (body.flow_forward(c.dest) & body.flow_forward(nx.args[0].get("m") or nx.args[0].get("c") or [0])):
            bad.append(("iterator-adapter:%s" % c.nname.split("::")[-1], "the shard loop is narrowed by %s" % c.nname, None))
    some = variant_edge(body, nx, "Some")
    none = variant_edge(body, nx, "None")
    # blocks of this loop's body: reachable from Some edge without passing the header again
    loop_blocks = set(body.reach(0, src_edges=some, cut_blocks=[nx.bb]))
    sends = [c for c in body.find_calls(send_pat) if c.bb in loop_blocks]
    if not sends:
        raise AnchorMissing("mailbox send inside the shard loop of %s" % body.key)
    send = sends[0]
    pushes = [c for c in body.find_calls(r"Vec::push$") if c.bb in loop_blocks and body.can_reach(send.bb, c.bb)]
    if not pushes:
        raise AnchorMissing("pending.push inside the shard loop of %s" % body.key)
    inst.sites += [sp(body, nx.bb), sp(body, send.bb)] + [sp(body, p.bb) for p in pushes]
    # the send addresses the loop's shard
    Ls = body.origins(send.args[0], transparent=NEXT_TRANSPARENT)
    if not any(l[0] == "call" and norm_path(l[1]).endswith("all_shards") and ".tx" in l[3] for l in Ls):
        bad.append(("send-other-shard", "the message is not sent to the iterated shard's mailbox (%s)" % fmt_leaves(Ls), None))
    de = done_edge(body, send)
    # next iteration / loop exit only after the send completed
    seen = body.reach(0, src_edges=some, cut_edges=[de], cut_blocks=[])
    if nx.bb in seen:
        bad.append(("iteration-skips-send", "an iteration can return to the loop header without having sent to the shard", witness_path(body, seen, nx.bb)))
    # after a completed send, the header is reachable only through a push (success) — failures return or record an error (flush)
    return bad, nx, loop_blocks, send, pushes


def run(ctx):
    F = ctx.F

    def a(inst):
        cg = CallGraph(F)
        root = "engine::shard::manager::ShardManager::get_shard"
        if root not in cg.nodes:
            raise AnchorMissing(root)
        seen = cg.reachable([root])
        bad = []
        for k in seen:
            if NONDET.search(norm_path(k)):
                bad.append(("nondeterministic-routing:%s" % norm_path(k), "get_shard reaches %s" % k, cg.chain(seen, k)))
        b = F.fn("ShardManager::get_shard")
        for c_ in b.calls:
            if not c_.cleanup and NONDET.search(c_.nname + " " + (c_.ga or "")):
                bad.append(("nondeterministic-routing:%s" % c_.nname, "get_shard calls %s" % c_.nname, None))
        for i_, l_ in enumerate(b.locals):
            if re.search(r"ahash::RandomState|hash::RandomState|ahash::AHasher|rand::", l_["t"]):
                bad.append(("nondeterministic-hasher-type", "get_shard hashes with a %s (seeded per process): a context's shard changes across restarts" % l_["t"][:80], None))
                break
        if bad:
            return bad
        hn = [c for c in b.calls if not c.cleanup and re.search(r"Hasher\w*::(new|default|with_keys|new_with_keys)$|BuildHasher\w*::build_hasher$|::hash_one$", c.nname)]
        inst.sites.append("hasher constructors: %s" % [c.nname for c in hn])
        if [c.nname for c in hn] != ["std::hash::DefaultHasher::new"] and [c.nname for c in hn] != ["std::collections::hash_map::DefaultHasher::new"]:
            bad.append(("hasher-constructor", "get_shard builds its hasher with %s (fixed-key DefaultHasher::new expected)" % [c.nname for c in hn], None))
        hs = one(b, r"Hash>::hash$|hash::Hash::hash$")
        if not has_origin(b.origins(hs.args[0]), "param", "context_id"):
            bad.append(("hashed-value", "the routed hash is not computed over context_id (%s)" % fmt_leaves(b.origins(hs.args[0])), None))
        fin = one(b, r"Hasher>::finish$|Hasher::finish$")
        rem = [s for blk in b.live_blocks() for s in b.blocks[blk]["s"] if "v" in s and s["v"]["r"] == "bin" and s["v"]["op"] == "Rem"]
        if len(rem) != 1:
            bad.append(("index-shape", "shard index is not a single `% len` expression", None))
        else:
            A, B = b.origins(rem[0]["v"]["a"]), b.origins(rem[0]["v"]["b"])
            if not any(l[0] == "call" and "finish" in l[1] for l in A):
                bad.append(("index-numerator", "shard index numerator is not hasher.finish() (%s)" % fmt_leaves(A), None))
            if not any(l[0] == "call" and norm_path(l[1]).endswith("Vec::len") for l in B):
                bad.append(("index-modulus", "shard index modulus is not shards.len() (%s)" % fmt_leaves(B), None))
        # callers route by the command's context id
        st = F.fn("handlers::store::handle")
        snd = one(st, r"mpsc::(bounded::)?Sender::send$")
        routers = [l for l in st.origins(snd.args[0]) if l[0] == "call" and "ShardManager::" in norm_path(l[1])]
        if not routers:
            raise AnchorMissing("the ShardManager call that yields the shard STORE sends to")
        for l in routers:
            rc = st.call_at(l[2])
            rname = norm_path(l[1])
            inst.sites.append("store routes through %s" % rname.split("::")[-1])
            if rname.endswith("ShardManager::get_shard"):
                Lc = fmt_leaves(st.origins(rc.args[1]))
                inst.sites.append("store routes by: %s" % Lc)
                if "context_id" not in Lc:
                    bad.append(("route-key", "STORE routes by something else than the context id (%s)" % Lc, None))
                continue
            # another routing function: whatever it hashes must be the context id alone (reads look a context up with get_shard(context_id))
            if not F.has(rname):
                bad.append(("route-function", "STORE chooses its shard through %s, not through get_shard" % rname, None))
                continue
            R = F.fn_exact(rname)
            hashed = [c_ for c_ in R.calls if not c_.cleanup and re.search(r"Hash>::hash$|hash::Hash::hash$|::hash_one$", c_.nname)]
            extra = set()
            for hc in hashed:
                for l2 in R.origins(hc.args[0] if not hc.nname.endswith("hash_one") else hc.args[1]):
                    if l2[0] == "param":
                        extra.add(l2[1])
            ctx_arg = None
            for idx_, a_ in enumerate(rc.args[1:], start=2):
                if "context_id" in fmt_leaves(st.origins(a_)):
                    ctx_arg = R.local_name(idx_)
            others = sorted(x for x in extra if x != ctx_arg)
            if others or ctx_arg is None or not (R.find_calls(r"ShardManager::get_shard$") or ctx_arg in extra):
                bad.append(("route-key", "STORE routes through %s, which hashes %s: events of one context land on different shards while reads and REPLAY order assume one shard per context" % (rname.split("::")[-1], sorted(extra) or "?"), None))
        EXACT_TEXT = re.compile(TRANSPARENT.pattern.replace("(as_bytes|trim|trim_start|trim_end)", "(as_bytes)"))
        assert EXACT_TEXT.pattern != TRANSPARENT.pattern

        def key_leaves(body_, op_, depth_):
            """provenance of a routing key through crate helpers and value-preserving Option adaptors"""
            out_ = set()
            for l_ in body_.origins(op_, transparent=EXACT_TEXT):
                if l_[0] == "call" and depth_ > 0:
                    cc = body_.call_at(l_[2])
                    if cc is not None and re.search(r"Option::(filter|as_deref|as_ref|cloned|copied|or|or_else|unwrap_or\w*)$", norm_path(cc.nname)):
                        out_ |= key_leaves(body_, cc.args[0], depth_ - 1)
                        continue
                    if cc is not None and cc.callee and F.has(cc.callee):
                        out_ |= key_leaves(F.fn_exact(cc.callee), {"c": [0]}, depth_ - 1)
                        continue
                if l_[0] == "agg" and l_[1].endswith("Option::Some") and depth_ > 0:
                    inner = [v_["o"][0] for (bb_, j_, v_, d_) in body_.aggregates("option::Option", "Some") if bb_ == l_[2]]
                    if inner:
                        for op2 in inner:
                            out_ |= key_leaves(body_, op2, depth_ - 1)
                        continue
                out_.add(l_)
            return out_
        # every other caller of get_shard looks a context up: it must hash the id STORE hashed, not a normalised form
        ncall = 0
        for k in F.keys():
            if k.startswith("bin:") or "_test" in k or "::tests::" in k or k == st.key:
                continue
            ob = F.fn_exact(k)
            for gc in ob.find_calls(r"ShardManager::get_shard$"):
                ncall += 1
                Lk = key_leaves(ob, gc.args[1], 4)
                tr = [l for l in Lk if l[0] == "call" and re.search(r"str::(trim\w*|to_lowercase|to_uppercase|to_ascii_\w+|replace\w*|strip_\w+)$|String::(to_lowercase|to_uppercase)$", norm_path(l[1]))]
                if tr:
                    bad.append(("lookup-by-normalised-id:%s" % k.split("::{")[0].split("::")[-1], "%s looks a context's shard up with get_shard(%s) while STORE routes by the id as given: a context id that the normalisation changes is searched on a shard that does not hold it" % (k.split("::{")[0], fmt_leaves(tr)), sp(ob, gc.bb)))
        inst.sites.append("other get_shard callers: %d" % ncall)
        inst.detail = "bodies/leaves reachable from get_shard: %d" % len(seen)
        return bad
    ctx.run("C12.a", "K4 EFFECT + K7", "ShardManager::get_shard", "routing is a deterministic function of the context id and the shard count", a)

    def b_(inst):
        b = F.fn("ShardContext::next_event_id")
        nx = one(b, r"EventIdGenerator::next$")
        L = b.origins(nx.args[1])
        inst.sites = [sp(b, nx.bb), fmt_leaves(L)]
        if not has_origin(L, "param", "self", proj_contains=[".id"]):
            return [("shard-tag", "event ids are tagged with something else than the shard's id (%s)" % fmt_leaves(L), None)]
        return []
    ctx.run("C12.b", "K7 PROV", "ShardContext::next_event_id", "event ids carry the owning shard's id", b_)

    def disp(getter, which):
        def f(inst):
            body = getter()
            bad, nx, loop_blocks, send, pushes = fanout(F, inst, body, which=which)
            # failure of the send returns an error (`?`): after completion, header reachable only via push
            de = done_edge(body, send)
            seen = body.reach(0, src_edges=[de], cut_blocks=[p.bb for p in pushes])
            if nx.bb in seen:
                bad.append(("reply-not-registered", "an iteration can continue without registering the shard's pending reply", None))
            # message kind
            if not any(l[0] == "agg" and l[1].endswith("ShardMessage::QueryStream") for l in body.origins(send.args[1])):
                bad.append(("message-kind", "the fan-out does not send ShardMessage::QueryStream", None))
            # collection loop: iterate `pending`; each Some iteration pushes a handle or returns
            pend = pushes[0].args[0]
            pl = body._origin_locals(pend)
            n2 = None
            for c in for_headers(body):
                if c.bb in loop_blocks or c.bb == nx.bb:
                    continue
                if body._origin_locals(c.args[0], depth=10) & pl:
                    if body.can_reach(nx.bb, c.bb):
                        n2 = c
                        break
            if n2 is None:
                raise AnchorMissing("collection loop over pending in %s" % body.key)
            some2 = variant_edge(body, n2, "Some")
            blocks2 = set(body.reach(0, src_edges=some2, cut_blocks=[n2.bb]))
            hp = [c for c in body.find_calls(r"Vec::push$") if c.bb in blocks2]
            inst.sites += [sp(body, n2.bb)] + [sp(body, c.bb) for c in hp]
            if not hp:
                bad.append(("handles-not-collected", "the collection loop does not keep the shard's handle", None))
            else:
                seen2 = body.reach(0, src_edges=some2, cut_blocks=[c.bb for c in hp])
                if n2.bb in seen2:
                    bad.append(("reply-dropped", "a shard's reply can be skipped without error", witness_path(body, seen2, n2.bb)))
            return bad
        return f
    ctx.run("C12.c1", "K9 LOOP", "StreamingShardDispatcher::dispatch", "an unscoped query is sent to every shard and every reply is consumed",
            disp(lambda: F.method("StreamingShardDispatcher", "StreamingDispatch", "dispatch"), 0))
    ctx.run("C12.c2", "K9 LOOP", "SequenceStreamingDispatcher::dispatch", "sequence sub-queries are sent to every shard",
            disp(lambda: F.method("SequenceStreamingDispatcher", "StreamingDispatch", "dispatch"), 0))
    ctx.run("C12.c3", "K9 LOOP", "SequenceStreamingDispatcher::dispatch_grouped_internal", "grouped sequence sub-queries are sent to every shard",
            disp(lambda: F.fn("SequenceStreamingDispatcher::dispatch_grouped_internal"), 0))

    def c4(inst):
        b = F.fn("ShardManager::all_shards")
        L = b.origins([0])
        inst.sites = ["all_shards returns %s" % fmt_leaves(L)]
        bad = []
        if not (has_origin(L, "param", "self", proj_contains=[".shards"]) and all(l[0] in ("param",) for l in L)):
            # deref of Vec -> slice goes through Deref::deref (transparent)
            bad.append(("all_shards-subset", "all_shards does not return the whole shards vector (%s)" % fmt_leaves(L), None))
        if [c for c in b.calls if not c.cleanup and not re.search(r"Deref>::deref$|as_slice$", c.nname)]:
            bad.append(("all_shards-adapter", "all_shards transforms the shard list (%s)" % [c.nname for c in b.calls], None))
        # FLUSH fan-out
        fb = F.fn("handlers::flush::handle")
        b2, nx, lb, send, pushes = fanout(F, inst, fb)
        bad += b2
        if not any(l[0] == "agg" and l[1].endswith("ShardMessage::Flush") for l in fb.origins(send.args[1])):
            bad.append(("flush-message-kind", "FLUSH fan-out does not send ShardMessage::Flush", None))
        return bad
    ctx.run("C12.c4", "K9 LOOP + K7", "ShardManager::all_shards / FLUSH fan-out", "the shard list handed to fan-outs is complete", c4)


    def c5(inst):
        bad = []
        for nm, msg in (("ShardManager::flush_all", "Flush"), ("ShardManager::wait_for_flush_completion", "AwaitFlush"), ("ShardManager::shutdown_all", "Shutdown")):
            b = F.fn(nm)
            nxs = loop_nexts(b, lambda L: has_origin(L, None, proj_contains=[".shards"]))
            if not nxs:
                raise AnchorMissing("loop over self.shards in %s" % nm)
            nx = nxs[0]
            body_blocks = set(b.reach(0, src_edges=variant_edge(b, nx, "Some"), cut_blocks=[nx.bb]))
            sends = [c_ for c_ in b.find_calls(r"mpsc::(bounded::)?Sender::send$") if c_.bb in body_blocks]
            if not sends:
                raise AnchorMissing("send inside the shard loop of %s" % nm)
            inst.sites.append("%s: %s -> %s" % (nm.split("::")[-1], sp(b, nx.bb), sp(b, sends[0].bb)))
            w = skipped_iteration(b, nx, [c_.bb for c_ in sends])
            if w:
                bad.append(("shard-skipped:%s" % nm.split("::")[-1], "%s can skip a shard" % nm, w))
            if not any(l[0] == "agg" and l[1].endswith("ShardMessage::" + msg) for l in b.origins(sends[0].args[1])):
                bad.append(("message-kind:%s" % nm.split("::")[-1], "%s does not send ShardMessage::%s" % (nm, msg), None))
            for c_ in b.calls:
                if not c_.cleanup and ADAPTERS.search(c_.nname):
                    bad.append(("shard-iterator-adapter:%s" % nm.split("::")[-1], "%s narrows the shard list with %s" % (nm, c_.nname), None))
        return bad
    ctx.run("C12.c5", "K9 LOOP", "ShardManager::{flush_all, wait_for_flush_completion, shutdown_all}", "shard-wide operations reach every shard", c5)


    def d_(inst):
        b = F.fn("ShardManager::new")
        spawn = one(b, r"shard::types::Shard::spawn$")
        pushes = [p for p in b.find_calls(r"Vec::push$") if "Shard" in b.local_ty((p.args[1].get("m") or p.args[1].get("c") or [0])[0])]
        if not pushes:
            raise AnchorMissing("shards.push(shard)")
        nxs = [c for c in for_headers(b) if b.can_reach(c.bb, spawn.bb) and b.can_reach(spawn.bb, c.bb)]
        inst.sites = [sp(b, spawn.bb)] + [sp(b, p.bb) for p in pushes]
        bad = []
        if not nxs:
            return [("spawn-outside-loop", "shards are not spawned inside the id loop", None)]
        # the loop iterates a Range and the id handed to spawn is that iteration's value
        rng = [c for c in nxs if any(l[0] == "agg" and "Range" in l[1] for l in b.origins(c.args[0], transparent=NEXT_TRANSPARENT))]
        if not rng:
            return [("id-loop-not-range", "Shard::spawn is not inside a loop over a 0..num_shards range", None)]
        nx = rng[0]
        if nx.dest[0] not in wide_all(b, spawn.args[0], depth=12):
            bad.append(("spawn-id-origin", "Shard::spawn is not given the loop index as shard id", None))
        if not is_awaited(b, spawn):
            bad.append(("spawn-not-awaited", "Shard::spawn is not awaited inside the id loop (shards would be collected in completion order)", None))
        for p in pushes:
            # same iteration: the push is inside the loop body and receives that spawn's result
            in_loop = b.can_reach(nx.bb, p.bb) and b.can_reach(p.bb, nx.bb)
            aw = b.await_of(spawn)
            src = wide_all(b, p.args[1], depth=14)
            from_spawn = (aw is not None and aw[0].dest[0] in src) or spawn.dest[0] in src
            if not in_loop or not from_spawn:
                bad.append(("push-order", "the shard vector is not filled in id order (push outside the id loop or of another value): slot i would no longer be shard i, so a context's shard changes between process lifetimes", None))
        if b.find_calls(r"JoinSet|join_all|FuturesUnordered|join_next"):
            bad.append(("completion-order", "shards are collected in completion order", None))
        return bad
    ctx.run("C12.d", "K7 PROV + K9", "ShardManager::new", "slot i of the shard vector is shard id i", d_)

    def e_(inst):
        # a shard answers with a stream of batches: every consumer in the command handlers reads its stream
        # until it ends (after a batch, the same recv is reached again without switching to another stream)
        bad, n = [], 0
        for k in F.keys():
            if k.startswith("bin:") or "_test" in k or "::tests::" in k or not re.search(r"command::handlers::(query|show|compare|replay)", k):
                continue
            b = F.fn_exact(k)
            for c in b.calls:
                if c.cleanup or not re.search(r"(Receiver|QueryBatchStream|UnboundedReceiver)::recv$", c.nname):
                    continue
                es = [e for (e, v) in ok_edges(b, c) if v == "Some"]
                if not es:
                    continue        # a forwarding wrapper: the caller tests the result
                n += 1
                short = k.split("handlers::")[-1].split("::{closure")[0]
                inst.sites.append(sp(b, c.bb) + " " + short.split("::")[-1])
                cut = [l[2] for l in b.origins(c.args[0]) if l[0] == "call"]
                if not any(c.bb in b.reach(e[1], cut_blocks=cut) for e in es):
                    bad.append(("stream-read-once:%s" % short, "%s takes one batch from a stream and does not come back for the next: a shard that answers in several batches (memtable and segments, or more groups than one batch holds) contributes only its first" % short, sp(b, c.bb)))
        if n < 8:
            raise AnchorMissing("batch-stream consumers in command::handlers (found %d, 9 counted)" % n)
        return bad
    ctx.run("C12.e", "K9 LOOP", "batch-stream consumers (mergers, response writers, delta refresher)", "every batch a shard sends is consumed", e_)


    def f_(inst):
        # end of a shard's stream = the channel is closed; a batch (even an empty one) never ends it
        bad, n = [], 0
        for k in F.keys():
            if k.startswith("bin:") or "_test" in k or "::tests::" in k or not re.search(r"command::handlers::(query|show|compare|replay)|engine::core::read::flow::", k):
                continue
            b = F.fn_exact(k)
            recvs = [c for c in b.calls if not c.cleanup and re.search(r"(Receiver|QueryBatchStream|UnboundedReceiver)::recv$", c.nname)]
            if not recvs:
                continue
            # blocks that set the return value to None / Ok(None)
            none_locals = set()
            eos = set()
            for (bb_, j_, v_, d_) in b.aggregates("option::Option", "None"):
                if d_ == [0] or (isinstance(d_, dict) and (d_.get("l") == 0)):
                    eos.add(bb_)
                else:
                    none_locals.add(bb_)
            for (bb_, j_, v_, d_) in b.aggregates("result::Result", "Ok"):
                if not (d_ == [0] or (isinstance(d_, dict) and d_.get("l") == 0)):
                    continue
                L = b.origins(v_["o"][0])
                if L and all(l[0] == "agg" and l[1].endswith("Option::None") for l in L):
                    eos.add(bb_)
            if not eos:
                continue
            for c in recvs:
                es = [e for (e, v) in ok_edges(b, c) if v == "Some"]
                if not es:
                    continue
                n += 1
                short = k.split("::{closure")[0].split("::")
                short = "::".join(short[-2:])
                inst.sites.append(sp(b, c.bb) + " " + short + " (end-of-stream returns: %d)" % len(eos))
                aw = b.await_of(c)
                cut = [c.bb] + ([aw[0].bb] if aw is not None else [])
                for e in es:
                    seen = b.reach(e[1], cut_blocks=cut)
                    hit = sorted(x for x in eos if x in seen)
                    if hit:
                        bad.append(("stream-ended-on-a-batch:%s" % short, "%s can report the end of a shard's stream after recv returned a batch (without asking recv again): whatever the shard sends after that batch (e.g. after an empty one) is dropped from the merged result" % short, sp(b, hit[0])))
                        break
        if n < 2:
            raise AnchorMissing("stream readers with an end-of-stream return (found %d, 2 counted: BatchReceiver::recv, RowStream::next_row)" % n)
        inst.detail = "readers checked: %d" % n
        return bad
    ctx.run("C12.f", "K1 DOM", "batch-stream readers that return end-of-stream (RowStream::next_row, ...)", "a shard's stream ends only when its channel is closed", f_)
