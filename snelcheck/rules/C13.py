"""C13 — no data command without authentication and the required permission."""
from .util import *
from ..callgraph import CallGraph

EXPLANATION = """
Decides structural clauses necessary for C13; does not decide HMAC correctness, token expiry arithmetic or rate limiting.
a) every call site of dispatch_command (floor 5: TCP, WS x2, HTTP dispatch_and_respond, unix socket) is dominated by the success edge of that front end's gate and the user id it passes
   originates from the gate's result; the HTTP JSON path reaches dispatch only across {bypass mode, no auth manager configured, Ok edge of verify_signature} and verifies the header user it passes on.
b) inside each gate every `Some(..)` return is cut from entry by {bypass_auth true edge, auth_manager == None edge, Ok edge of verify_signature, Some edge of validate_session_token, Ok edge of authenticate};
   signature::verify_signature returns Ok only after the user was found, is active and the constant-time comparison of the given signature with the HMAC of the message succeeded;
   validate_session_token returns Some only for a stored, unexpired token of an active user.
c) authorisation reaches the data: every arm of dispatch_command that touches data hands auth_manager and user_id to its handler and the handler's data access is cut from its entry by
   {permission check true edge, auth manager None edge, bypass identity edge}. Arms dispatched without the user identity are violations (one key per arm).
d) reserved identity: every constant a handler compares the user id with in order to skip a check is rejected by user_ops::validate_user_id.
f) GRANT over several event types: the permission set stored for one event type depends only on the request and that type's existing permissions — the value handed to
   AuthManager::grant_permission is built inside the loop iteration and does not flow from a variable that is mutated across iterations.
e) revocation is visible to the next request: user_ops::revoke_key returns Ok only after the user cache and permission cache were updated (active = false); AuthManager::revoke_key also revokes sessions;
   grant/revoke_permission return Ok only after update_caches.
(g) only key creation activates a key: every User / UserKey record built in engine::auth whose secret_key is copied from an existing record takes `active` from that same record (or sets it false: revocation);
a constant true next to a copied secret re-activates a revoked key on the next permission update.
"""
FLOOR = 17
REQUIRED = ["C13.a", "C13.b1", "C13.b2", "C13.b3", "C13.c", "C13.d", "C13.e", "C13.f", "C13.g", "C13.h", "C13.i", "C13.j", "C13.k", "C13.l", "C13.m", "C13.n"]

GATES = r"(tcp::listener::check_auth|http::dispatcher::check_auth_with_headers|Connection::check_auth|AuthManager::validate_session_token)(::\{closure#0\})?$"
MAPT = re.compile(NEXT_TRANSPARENT.pattern[:-2] + r"|(std|core)::option::Option::<T>::(map|and_then))$")


def origins_id(body, op):
    """provenance of a user-id operand: looks through Some(..) wrappers, as_deref/map adapters"""
    body.unwrap_some = True
    try:
        return body.origins(op, transparent=MAPT, depth=16)
    finally:
        body.unwrap_some = False


def bypass_cmps(body):
    out = []
    for c in body.calls:
        if c.cleanup or not re.search(r"::(ne|eq)$", c.nname):
            continue
        if any(l[0] == "constitem" and l[1].endswith("BYPASS_USER_ID") for a_ in c.args for l in body.origins(a_)):
            out.append(c)
    return out
PERM = r"AuthManager::(can_read|can_write|is_admin)$"


def reaches_static(body, op, name_re, depth=5, _seen=None):
    if _seen is None:
        _seen = set()
    for l in body.origins(op):
        if l[0] == "static" and re.search(name_re, l[1]):
            return True
        if l[0] == "call" and depth > 0 and l[2] not in _seen:
            _seen.add(l[2])
            c = body.call_at(l[2])
            if c:
                for a in c.args:
                    if reaches_static(body, a, name_re, depth - 1, _seen):
                        return True
    return False


def accepted_edges(body):
    """edges on which a request counts as authenticated (or authentication is configured off)"""
    es = []
    for i, si in bool_switches_on(body, lambda L: True):
        if reaches_static(body, si["op"], r"CONFIG$") and si["true"] is not None:
            # CONFIG.auth...bypass_auth == true
            es.append(((i, si["true"]), "bypass-mode"))
    for i, si in enum_switches_on(body, lambda L: has_origin(L, None, proj_contains=[".auth_manager"]) or has_origin(L, "param", "auth_manager") or has_origin(L, "upvar", "auth_manager")
                                  or has_origin(L, "upvar", "auth_manager_clone"), r"option::Option"):
        for t in edges_for_variant(si, "None"):
            es.append(((i, t), "no-auth-manager"))
    for c in body.find_calls(r"AuthManager::verify_signature$|TcpAuthState::authenticate$"):
        for i, si in result_switches(body, c):
            for t in edges_for_variant(si, "Ok"):
                es.append(((i, t), "signature-ok"))
    for c in body.find_calls(r"AuthManager::validate_session_token$"):
        for i, si in result_switches(body, c):
            for t in edges_for_variant(si, "Some"):
                es.append(((i, t), "token-ok"))
    return es


def run(ctx):
    F = ctx.F
    cg = CallGraph(F)
    DISP = "command::dispatcher::dispatch_command"

    # ------------------------------------------------------------------ a
    def a(inst):
        callers = sorted(k for k in cg.nodes if DISP in cg.edges[k] and not k.startswith(DISP))
        sites = []
        bad = []
        for k in callers:
            body = F.fn_exact(k)
            for c in body.find_calls(r"command::dispatcher::dispatch_command$"):
                sites.append((k, body, c))
        inst.sites = ["%s %s" % (norm_path(k.split("::{closure")[0]), sp(b, c.bb)) for k, b, c in sites]
        if len(sites) < 5:
            raise AnchorMissing("dispatch_command call sites: %d (expected >= 5)" % len(sites))
        for k, body, c in sites:
            base = norm_path(k.split("::{closure")[0])
            L = origins_id(body, c.args[5])
            gate_leaves = [l for l in L if l[0] == "call" and re.search(GATES, norm_path(l[1]))]
            param_leaves = [l for l in L if l[0] in ("param", "upvar") and l[1] in ("user_id",)]
            other = [l for l in L if l not in gate_leaves and l not in param_leaves]
            if other or not (gate_leaves or param_leaves):
                bad.append(("user-id-origin:%s" % base, "%s passes a user id to dispatch_command that is not the gate's result (%s)" % (k, fmt_leaves(L)), None))
            if gate_leaves:
                gcs = [body.call_at(l[2]) for l in gate_leaves]
                es = []
                for g in gcs:
                    for i, si in result_switches(body, g):
                        for t in edges_for_variant(si, "Some"):
                            es.append((i, t))
                if not any(body.dominates_edge(e, c.bb) for e in es):
                    bad.append(("dispatch-without-gate:%s" % base, "%s can reach dispatch_command without the gate having returned Some" % k, None))
            elif param_leaves:
                # wrapper (HTTP dispatch_and_respond): check each caller
                wrapper = k.split("::{closure")[0]
                wcallers = [x for x in cg.nodes if wrapper in cg.edges[x] and not x.startswith(wrapper)]
                if not wcallers:
                    bad.append(("wrapper-uncalled:%s" % base, "no caller of %s found" % wrapper, None))
                for w in wcallers:
                    wb = F.fn_exact(w)
                    for wc in wb.find_calls(re.escape(norm_path(wrapper)) + "$"):
                        inst.sites.append("  via %s %s" % (norm_path(w.split("::{closure")[0]), sp(wb, wc.bb)))
                        # user id argument index: position of the param named user_id in wrapper
                        Lw = set()
                        for a_ in wc.args:
                            La = origins_id(wb, a_)
                            if any("Option<&str>" in wb.local_ty((a_.get("m") or a_.get("c") or [0])[0]) for _ in [0]):
                                Lw |= La
                        gl = [l for l in Lw if l[0] == "call" and re.search(GATES, norm_path(l[1]))]
                        if gl:
                            es = []
                            for l in gl:
                                for i, si in result_switches(wb, wb.call_at(l[2])):
                                    for t in edges_for_variant(si, "Some"):
                                        es.append((i, t))
                            if not any(wb.dominates_edge(e, wc.bb) for e in es):
                                bad.append(("dispatch-without-gate:%s" % norm_path(w.split("::{closure")[0]), "%s reaches dispatch without the gate's Some" % w, None))
                        else:
                            # JSON path: inline verification of the header user
                            acc = [e for e, why in accepted_edges(wb)]
                            r = must_cross(wb, wc.bb, cut_edges=acc, key="dispatch-unauthenticated:%s" % norm_path(w.split("::{closure")[0]),
                                           detail="%s reaches dispatch without signature verification, bypass mode or 'no auth configured'" % w)
                            bad += r
                            vs = wb.find_calls(r"AuthManager::verify_signature$")
                            if not vs:
                                bad.append(("no-verify:%s" % norm_path(w), "%s never verifies a signature" % w, None))
                            else:
                                hdr = {l for l in origins_id(wb, vs[0].args[2]) if l[0] == "call"}
                                uid = {l for l in Lw if l[0] == "call"}
                                if not ({(l[1], l[2]) for l in hdr} & {(l[1], l[2]) for l in uid}):
                                    bad.append(("verified-user-differs:%s" % norm_path(w), "the user id passed on is not the one whose signature was verified (%s vs %s)" % (fmt_leaves(uid), fmt_leaves(hdr)), None))
        return bad
    ctx.run("C13.a", "K1 DOM + K7", "front ends -> dispatch_command", "commands are dispatched only for an authenticated identity, and with that identity", a)

    # ------------------------------------------------------------------ b1
    def gate(name):
        def f(inst):
            b = F.fn(name)
            acc = accepted_edges(b)
            inst.sites = ["%s@%s" % (why, sp(b, e[0])) for e, why in acc][:10]
            if not acc:
                raise AnchorMissing("no accepted edges in %s" % name)
            somes = [(bb, v) for (bb, j, v, dst) in b.aggregates("option::Option", "Some") if dst == [0]]
            if not somes:
                raise AnchorMissing("Some(..) returns in %s" % name)
            bad = []
            for bb, v in somes:
                r = must_cross(b, bb, cut_edges=[e for e, _ in acc], key="gate-open:%s" % sp(b, bb).split(":")[0].split("/")[-1],
                               detail="%s can return Some (authenticated) without any verification having succeeded" % name)
                # key without line numbers: add ordinal of the return within the function by accepted-kind signature
                bad += r
            # no accepted edge may be the *failure* edge: Err edges of verify must not reach a Some return without crossing another accepted edge
            for c in b.find_calls(r"AuthManager::verify_signature$|TcpAuthState::authenticate$"):
                for i, si in result_switches(b, c):
                    for t in edges_for_variant(si, "Err"):
                        seen = b.reach(0, src_edges=[(i, t)], cut_edges=[e for e, _ in acc])
                        for bb, v in somes:
                            if bb in seen:
                                bad.append(("gate-open-on-failure:%s" % c.nname.split("::")[-1], "%s returns Some after %s failed" % (name, c.nname), witness_path(b, seen, bb)))
            return bad
        return f
    ctx.run("C13.b1", "K2 CUT", "tcp::listener::check_auth", "the TCP/WS gate only opens on a verified signature, a live token, bypass mode or no auth configured", gate("tcp::listener::check_auth"))
    ctx.run("C13.b1", "K2 CUT", "http::dispatcher::check_auth_with_headers", "the HTTP gate only opens on a verified signature", gate("http::dispatcher::check_auth_with_headers"))
    ctx.run("C13.b1", "K2 CUT", "unix::connection::Connection::check_auth", "the unix-socket gate only opens on a verified signature", gate("unix::connection::Connection::check_auth"))

    def b2(inst):
        b = F.fn("auth::signature::verify_signature")
        oks = [bb for (bb, j, v, dst) in b.aggregates("result::Result", "Ok") if dst == [0]]
        if not oks:
            raise AnchorMissing("Ok(()) in verify_signature")
        get = one(b, r"UserCache::get$")
        cte = one(b, r"signature::constant_time_eq$")
        bad = []
        ge = [e for (e, v) in ok_edges(b, get) if v in ("Continue", "Some")]
        te = bool_result_edge(b, cte, True)
        act = bool_switches_on(b, lambda L: has_origin(L, None, proj_contains=[".active"]))
        inst.sites = [sp(b, get.bb), sp(b, cte.bb)] + [sp(b, i) for i, _ in act]
        if not act:
            bad.append(("active-untested", "verify_signature does not test user.active", None))
        for o in oks:
            if not any(b.dominates_edge(e, o) for e in ge):
                bad.append(("ok-without-user", "Ok without the user having been found", None))
            if not any(b.dominates_edge(e, o) for e in te):
                bad.append(("ok-without-signature-match", "Ok without constant_time_eq == true", None))
            if act and not any(b.dominates_edge((i, si["true"]), o) for i, si in act):
                bad.append(("ok-for-inactive-user", "Ok without user.active == true", None))
        L0, L1 = b.origins(cte.args[0]), b.origins(cte.args[1])
        a0 = has_origin(L0, "upvar", "signature") or has_origin(L0, "param", "signature")
        a1 = any(l[0] == "call" and norm_path(l[1]).endswith("hex::encode") for l in L1)
        if not (a0 and a1):
            bad.append(("compare-operands", "signature comparison is not (given signature, hex(hmac)) (%s | %s)" % (fmt_leaves(L0), fmt_leaves(L1)), None))
        upd = one(b, r"Mac>::update$|Update>::update$|Mac::update$")
        if not (has_origin(b.origins(upd.args[1]), "upvar", "message") or has_origin(b.origins(upd.args[1]), "param", "message")):
            bad.append(("mac-message", "HMAC is not computed over the message", None))
        kg = one(b, r"new_from_slice$")
        if not has_origin(b.origins(kg.args[0]), None, proj_contains=[".secret_key"]):
            bad.append(("mac-key", "HMAC is not keyed with the user's secret key (%s)" % fmt_leaves(b.origins(kg.args[0])), None))
        # the user looked up is the claimed one
        if not (has_origin(b.origins(get.args[1]), "upvar", "user_id") or has_origin(b.origins(get.args[1]), "param", "user_id")):
            bad.append(("lookup-other-user", "the key is looked up for another user than the claimed one", None))
        # manager wrapper returns the verdict unchanged or an error
        w = F.fn("AuthManager::verify_signature")
        Lr = w.origins([0])
        for l in Lr:
            if l[0] == "agg" and l[1].endswith("Result::Ok"):
                bad.append(("wrapper-forges-ok", "AuthManager::verify_signature can return a constructed Ok", None))
        inner = one(w, r"auth::signature::verify_signature$")
        for idx, pn in ((1, "message"), (2, "user_id"), (3, "signature")):
            La = w.origins(inner.args[idx])
            if not (has_origin(La, "upvar", pn) or has_origin(La, "param", pn)):
                bad.append(("wrapper-arg:%s" % pn, "AuthManager::verify_signature passes %s for %s" % (fmt_leaves(La), pn), None))
        return bad
    ctx.run("C13.b2", "K1 DOM + K7", "auth::signature::verify_signature", "a signature is accepted only for an existing, active user and a matching HMAC of the message", b2)

    def b3(inst):
        b = F.fn("AuthManager::validate_session_token")
        somes = [bb for (bb, j, v, dst) in b.aggregates("option::Option", "Some") if dst == [0]]
        if not somes:
            raise AnchorMissing("Some(user) return")
        get = one(b, r"SessionStore::get$")
        bad = []
        ge = []
        for i, si in result_switches(b, get):
            for t in edges_for_variant(si, "Some"):
                ge.append((i, t))

        def acc(op, A, B, truth):
            ea = has_origin(A, None, proj_contains=[".expires_at"])
            eb = has_origin(B, None, proj_contains=[".expires_at"])
            if ea:
                return (op == "Lt" and not truth) or (op == "Ge" and truth) or (op == "Le" and not truth) or (op == "Gt" and truth)
            if eb:
                return (op == "Gt" and not truth) or (op == "Le" and truth) or (op == "Ge" and not truth) or (op == "Lt" and truth)
            return False
        act = bool_switches_on(b, lambda L: has_origin(L, None, proj_contains=[".active"]))
        inst.sites = [sp(b, get.bb)] + [sp(b, i) for i, _ in act]
        for o in somes:
            if not any(b.dominates_edge(e, o) for e in ge):
                bad.append(("token-not-stored", "a token is accepted without being found in the session store", None))
            if not cmp_guard(b, o, acc):
                bad.append(("token-expiry-untested", "a token is accepted without the expiry comparison", None))
            if not act or not any(b.dominates_edge((i, si["true"]), o) for i, si in act):
                bad.append(("token-inactive-user", "a token is accepted without user.active == true", None))
        return bad
    ctx.run("C13.b3", "K1 DOM + K8", "AuthManager::validate_session_token", "a session token authenticates only while stored, unexpired and owned by an active user", b3)

    # ------------------------------------------------------------------ c
    SINKS = {
        "Store": (r"mpsc::(bounded::)?Sender::send$", "store::handle"),
        "Query": (r"QueryExecutionPipeline::execute_streaming$", "QueryCommandHandler::handle"),
        "Define": (r"define::run::define_schema$", "define::handle"),
    }
    NEEDS_CHECK = {"Store", "Define", "RememberQuery", "Query", "Compare", "Replay", "ShowMaterialized", "Flush",
                   "CreateUser", "RevokeKey", "ListUsers", "GrantPermission", "RevokePermission", "ShowPermissions"}
    EXEMPT = {"Ping": "no data access"}

    def handler_guarded(hb, sinks_re, sink_blocks=None, coll_params=()):
        """K2: every sink in handler body hb is cut from entry by a permission-check/bypass/no-auth edge.
        sink_blocks: blocks to protect instead of the calls matching sinks_re; coll_params: parameters of hb that
        are known (from its call site) to hold the command's event types."""
        perm = hb.find_calls(PERM)
        if not perm:
            return ["no permission check call"], []
        cut = []
        for p in perm:
            cut += bool_result_edge(hb, p, True)
        for i, si in enum_switches_on(hb, lambda L: has_origin(L, None, proj_contains=[".auth_manager"]) or has_origin(L, "param", "auth_manager") or has_origin(L, "upvar", "auth_manager"), r"option::Option"):
            for t in edges_for_variant(si, "None"):
                cut.append((i, t))
        for c in bypass_cmps(hb):
            cut += bool_result_edge(hb, c, c.nname.endswith("eq"))
        probs = []
        # a permission check inside a `for` over the event types the command reads: leaving the loop by exhaustion counts as a
        # decision when no iteration can be completed without one and the collection holds the command's event type(s)
        covered = set()
        for p in perm:
            for h in for_headers(hb):
                try:
                    some = variant_edge(hb, h, "Some")
                    none = variant_edge(hb, h, "None")
                except AnchorMissing:
                    continue
                inside = set(hb.reach(0, src_edges=some, cut_blocks=[h.bb]))
                if p.bb not in inside or not hb.can_reach(p.bb, h.bb):
                    continue
                if h.bb in set(hb.reach(0, src_edges=some, cut_edges=cut)):
                    probs.append("an iteration of the permission loop can be completed without a permission decision")
                    continue
                # the iterated collection
                ic = None
                for l in hb.origins(h.args[0]):
                    if l[0] == "call" and norm_path(l[1]).endswith("into_iter"):
                        ic = hb.call_at(l[2])
                if ic is None:
                    for c_ in hb.calls:
                        if not c_.cleanup and c_.nname.endswith("IntoIterator>::into_iter") and hb.dominates_edge((c_.bb, c_.to), h.bb) and (set(c_.dest or []) & hb._origin_locals(h.args[0])):
                            ic = c_
                if ic is None:
                    probs.append("the collection the permission loop iterates could not be identified")
                    continue
                coll = hb._origin_locals(ic.args[0])
                fields = set()
                for l_ in wide_all(hb, ic.args[0]):
                    for o in hb.origins({"c": [l_]}):
                        if o[0] in ("upvar", "param") and len(o) > 2 and ".command" in o[2]:
                            fields.add(o[2][-1])
                        if o[0] in ("param", "upvar") and o[1] in coll_params:
                            fields.add(".event_type")
                for e in hb.calls:
                    if e.cleanup or not e.nname.endswith("Extend>::extend") or not (hb._origin_locals(e.args[0]) & coll):
                        continue
                    src = e.args[1]
                    for _ in range(4):
                        L = hb.origins(src)
                        nxt = [l for l in L if l[0] == "call" and re.search(r"Iterator::(map|cloned|copied)$|slice::iter$|Deref>::deref$|IntoIterator>::into_iter$", norm_path(l[1]))]
                        if not nxt:
                            break
                        src = hb.call_at(nxt[0][2]).args[0]
                    for o in hb.origins(src):
                        if o[0] in ("upvar", "param") and len(o) > 2 and ".links" in o[2] and ".event_sequence" in o[2]:
                            # executed whenever the command has a sequence: only the None edge of that test may bypass it
                            sw_ = [(i_, t_) for i_, si_ in enum_switches_on(hb, lambda L_: has_origin(L_, None, proj_contains=[".event_sequence"]), r"option::Option") for t_ in edges_for_variant(si_, "None")]
                            if h.bb not in set(hb.reach(0, cut_blocks=[e.bb], cut_edges=sw_)):
                                fields.add(".event_sequence.links")
                covered |= fields
                if ".event_type" in fields:
                    cut = cut + none
                else:
                    probs.append("the permission loop iterates a collection that does not hold the command's event type")
        if sink_blocks is not None:
            seen = hb.reach(0, cut_edges=cut)
            for sbb in sink_blocks:
                if sbb in seen:
                    probs.append("the 'no refusal' return at %s is reachable without a permission decision" % sp(hb, sbb))
            handler_guarded.covered = covered
            return probs, perm
        sinks = hb.find_calls(sinks_re)
        if not sinks:
            probs.append("no data-access sink /%s/ found" % sinks_re)
        for s in sinks:
            seen = hb.reach(0, cut_edges=cut)
            if s.bb in seen:
                probs.append("sink %s reachable without a permission decision" % s.nname.split("::")[-1])
        handler_guarded.covered = covered
        return probs, perm

    def arm_gate(d, blocks, hcalls, v):
        """A dispatcher arm may decide the permission itself before calling a handler that never sees the identity:
        a crate function G(event types, .., auth_manager, user_id) -> Option<refusal> whose `None` result is the only way
        to the handler. Returns None if such a gate exists and is sound, a list of problems if one exists and is not,
        [] if there is no gate at all."""
        for g in d.calls:
            if g.bb not in blocks or g.cleanup or not g.callee or not F.has(g.callee) or g in hcalls:
                continue
            has_u = has_m = False
            ev_params = []
            Gouter = F.fn_exact(g.callee)
            G = F.fn_exact(g.callee + "::{closure#0}") if F.has(g.callee + "::{closure#0}") else Gouter
            for idx, a_ in enumerate(g.args):
                L = d.origins(a_)
                if has_origin(L, "upvar", "user_id") or has_origin(L, "param", "user_id"):
                    has_u = True
                if any(l[0] in ("upvar", "param") and l[1] == "auth_manager" for l in L):
                    has_m = True
                prov = set()
                locs_ = set(wide_all(d, a_))
                # what is pushed / extended into the collection before the call
                for pc in d.calls:
                    if pc.cleanup or not re.search(r"Vec::push$|Extend>::extend$|Vec::extend\w*$|Vec::insert$", norm_path(pc.nname)) or not pc.args:
                        continue
                    if d._origin_locals(pc.args[0]) & locs_:
                        for a2 in pc.args[1:]:
                            locs_ |= set(wide_all(d, a2))
                for l_ in locs_:
                    for o in d.origins({"c": [l_]}):
                        if o[0] in ("upvar", "param") and o[1] == "cmd" and len(o) > 2 and any(x in o[2] for x in (".event_type", ".queries")):
                            prov.add(o[2][-1])
                if prov:
                    ev_params.append(Gouter.local_name(idx + 1))
            if not (has_u and has_m):
                continue
            probs = []
            if not ev_params:
                probs.append("the gate %s is not given the command's event type(s)" % g.nname.split("::")[-1])
            # only the None result proceeds to the handler
            ne = []
            for i_, si_ in result_switches(d, g):
                for t_ in edges_for_variant(si_, "None"):
                    ne.append((i_, t_))
            for hc in hcalls:
                if not ne or not any(d.dominates_edge(e, hc.bb) for e in ne):
                    probs.append("%s is reachable without the gate %s having answered 'no refusal'" % (hc.nname.split("::")[-1], g.nname.split("::")[-1]))
            # inside the gate: every `None` it returns lies behind a decision
            nones = [bb for (bb, j, vv, dst) in G.aggregates("option::Option", "None") if dst == [0]]
            for c_ in G.calls:
                if not c_.cleanup and c_.dest == [0] and re.search(r"FromResidual.*::from_residual$|from_residual$", c_.nname):
                    # `x?` on an Option: only the absent auth manager may end the gate this way
                    br = [b_ for b_ in G.calls if not b_.cleanup and re.search(r"Try>::branch$|Try::branch$", b_.nname) and G.can_reach(b_.bb, c_.bb)]
                    if not br or not all(any(l[0] in ("param", "upvar") and l[1] == "auth_manager" for l in G.origins(b_.args[0])) for b_ in br):
                        probs.append("the gate %s returns 'no refusal' through `?` on something else than the auth manager" % g.nname.split("::")[-1])
            if not nones:
                probs.append("the gate %s has no explicit 'no refusal' return to protect" % g.nname.split("::")[-1])
            gp, perm = handler_guarded(G, None, sink_blocks=nones, coll_params=tuple(ev_params))
            probs += ["gate %s: %s" % (g.nname.split("::")[-1], x) for x in gp]
            want = "can_read"
            if perm and not any(p.nname.endswith(want) for p in perm):
                probs.append("gate %s checks %s, expected %s" % (g.nname.split("::")[-1], [p.nname.split("::")[-1] for p in perm], want))
            return None if not probs else probs
        return []

    def c(inst):
        d = F.fn("command::dispatcher::dispatch_command")
        sw = param_enum_switches(d, r"types::Command$", "cmd")
        if not sw:
            raise AnchorMissing("match on cmd in dispatch_command")
        i, si = sw[0]
        a = arms(d, i)
        bad = []
        seen_variants = set()
        for v in sorted(a):
            if v in EXEMPT:
                continue
            blocks = a[v]
            hcalls = [c_ for c_ in d.calls if c_.bb in blocks and not c_.cleanup and c_.local and re.search(r"handlers::", c_.nname) and not c_.nname.endswith("::new") or
                      (c_.bb in blocks and not c_.cleanup and re.search(r"Handler::new$|handlers::\w+::handle$", c_.nname))]
            if not hcalls:
                continue
            seen_variants.add(v)
            # does the handler receive the identity?
            gets_user = False
            gets_mgr = False
            for hc in hcalls:
                for a_ in hc.args:
                    L = d.origins(a_)
                    if has_origin(L, "upvar", "user_id") or has_origin(L, "param", "user_id"):
                        gets_user = True
                    if has_origin(L, "upvar", "auth_manager") or has_origin(L, "param", "auth_manager") or any(l[0] == "upvar" and l[1] == "auth_manager" for l in L):
                        gets_mgr = True
            names = sorted({hc.nname.split("handlers::")[-1] for hc in hcalls})
            inst.sites.append("%s -> %s user_id=%s auth=%s" % (v, names, gets_user, gets_mgr))
            if v in NEEDS_CHECK and not (gets_user and gets_mgr):
                gp = arm_gate(d, blocks, hcalls, v)
                if gp is None:
                    inst.sites.append("%s: read check in the dispatcher arm (gate function) precedes the handler" % v)
                    continue
                if gp:
                    for p_ in gp:
                        bad.append(("arm-gate-unsound:%s" % v, "Command::%s: %s" % (v, p_), None))
                    continue
                bad.append(("unchecked-arm:%s" % v, "Command::%s is dispatched to %s without the authenticated identity: no permission check can apply" % (v, names), None))
                continue
            if v in SINKS:
                sink_re, hname = SINKS[v]
                hb = F.fn(hname if "::" in hname and hname[0].isupper() else "handlers::" + hname)
                probs, perm = handler_guarded(hb, sink_re)
                for p in probs:
                    bad.append(("handler-unguarded:%s" % v, "handler of Command::%s: %s" % (v, p), None))
                want = {"Store": "can_write", "Query": "can_read", "Define": "is_admin"}[v]
                if perm and not any(p.nname.endswith(want) for p in perm):
                    bad.append(("wrong-permission:%s" % v, "handler of Command::%s checks %s, expected %s" % (v, [p.nname.split("::")[-1] for p in perm], want), None))
                # the permission is checked for the command's event type
                cov = getattr(handler_guarded, "covered", set())
                if v == "Query":
                    inst.sites.append("Query: event types checked: %s" % (sorted(cov) or ["event_type"]))
                    # a sequence query reads the linked event types as well: they must be among the types checked
                    if ".event_sequence.links" not in cov:
                        bad.append(("sequence-links-unchecked", "handler of Command::Query checks read permission for the head event type only: QUERY a FOLLOWED BY b returns the rows of b to a user who may read a", None))
                for p in perm:
                    if p.nname.endswith(("can_read", "can_write")):
                        Le = fmt_leaves(hb.origins(p.args[2]))
                        in_loop = any(l[0] == "call" and norm_path(l[1]).endswith("::next") for l in hb.origins(p.args[2])) and ".event_type" in cov
                        if "event_type" not in Le and not in_loop:
                            bad.append(("permission-other-type:%s" % v, "permission checked for %s instead of the command's event type" % Le, None))
                    Lu = hb.origins(p.args[1])
                    if not (has_origin(Lu, None, proj_contains=[".user_id"]) or has_origin(Lu, "upvar", "user_id") or has_origin(Lu, "param", "user_id")):
                        bad.append(("permission-other-user:%s" % v, "permission checked for %s instead of the authenticated user" % fmt_leaves(Lu), None))
        # auth / permission management handlers require admin
        for hname, sinks_re in (("handlers::auth::handle", r"AuthManager::(create_user\w*|revoke_key|list_users)$"),
                                ("handlers::permissions::handle", r"AuthManager::(grant_permission|revoke_permission|get_permissions)$")):
            hb = F.fn(hname)
            fam = [hb] + [F.fn_exact(k) for k in F.find("^" + re.escape(hb.key.split("::{closure")[0]) + r"::\{closure") if k != hb.key]
            perm = hb.find_calls(r"AuthManager::is_admin$")
            if not perm:
                bad.append(("admin-unchecked:%s" % hname, "%s never checks is_admin" % hname, None))
                continue
            cut = []
            for p in perm:
                cut += bool_result_edge(hb, p, True)
            for c_ in bypass_cmps(hb):
                cut += bool_result_edge(hb, c_, c_.nname.endswith("eq"))
            sinks = hb.find_calls(sinks_re) + hb.find_calls(r"handlers::(auth|permissions)::handle_\w+$")
            if not sinks:
                bad.append(("admin-sinks:%s" % hname, "no management operation found in %s" % hname, None))
            seen = hb.reach(0, cut_edges=cut)
            for s in sinks:
                if s.bb in seen:
                    bad.append(("admin-bypass:%s:%s" % (hname, s.nname.split("::")[-1]), "%s reaches %s without is_admin" % (hname, s.nname), None))
            inst.sites.append("%s: is_admin guards %d operations" % (hname, len(sinks)))
        missing = {"Store", "Query", "Define"} - seen_variants
        if missing:
            raise AnchorMissing("dispatcher arms not found for %s" % sorted(missing))
        return bad
    ctx.run("C13.c", "K2 CUT (interprocedural)", "dispatch_command arms", "whichever command reaches the data, the user's permission was decided first", c)

    # ------------------------------------------------------------------ d
    def d_(inst):
        skip_consts = set()
        nsites = 0
        for k in cg.nodes:
            if not norm_path(k).startswith("command::handlers::"):
                continue
            body = F.fn_exact(k)
            for c_ in body.calls:
                if c_.cleanup or not re.search(r"::(ne|eq)$", c_.nname):
                    continue
                for a_ in c_.args:
                    for l in body.origins(a_):
                        if l[0] == "constitem" and "auth" in l[1]:
                            skip_consts.add(l[1])
                            nsites += 1
        inst.sites = ["identities compared in handlers to skip checks: %s (%d sites)" % (sorted(skip_consts), nsites)]
        if not skip_consts:
            raise AnchorMissing("no reserved-identity comparison found in handlers (expected BYPASS_USER_ID)")
        v = F.fn("auth::user_ops::validate_user_id")
        rejected = set()
        for c_ in v.calls:
            if c_.cleanup or not re.search(r"::(ne|eq)$", c_.nname):
                continue
            for a_ in c_.args:
                for l in v.origins(a_):
                    if l[0] == "constitem":
                        # the equal edge must lead to an Err return
                        te = bool_result_edge(v, c_, c_.nname.endswith("eq"))
                        errs = [bb for (bb, j, vv, dst) in v.aggregates("result::Result", "Err")]
                        oks = [bb for (bb, j, vv, dst) in v.aggregates("result::Result", "Ok")]
                        seen = v.reach(0, src_edges=te)
                        if any(e in seen for e in errs) and not any(o in seen for o in oks):
                            rejected.add(l[1])
        inst.sites.append("rejected by validate_user_id: %s" % sorted(rejected))
        bad = []
        for cst in sorted(skip_consts - rejected):
            bad.append(("reserved-id-creatable:%s" % cst.split("::")[-1], "handlers skip permission checks for user id %s but validate_user_id accepts it as a new user's name" % cst, None))
        # create paths validate
        cu = F.fn("auth::user_ops::create_user_with_roles") if F.find(r"user_ops::create_user_with_roles$") else F.fn("auth::user_ops::create_user")
        if not cu.find_calls(r"validate_user_id$"):
            bad.append(("create-unvalidated", "user creation does not call validate_user_id", None))
        return bad
    ctx.run("C13.d", "K11 SIB", "handlers vs user_ops::validate_user_id", "no creatable user id is treated as the bypass identity", d_)

    # ------------------------------------------------------------------ e
    def e(inst):
        bad = []
        b = F.fn("auth::user_ops::revoke_key")
        oks = [bb for (bb, j, v, dst) in b.aggregates("result::Result", "Ok") if dst == [0]]
        ins = one(b, r"UserCache::insert$")
        upd = one(b, r"PermissionCache::update_user$")
        inst.sites = [sp(b, ins.bb), sp(b, upd.bb)]
        for o in oks:
            for c_, nm in ((ins, "user cache"), (upd, "permission cache")):
                if not b.dominates_edge((c_.bb, c_.to), o):
                    bad.append(("revoke-ok-before:%s" % nm, "revoke_key returns Ok before the %s was updated" % nm, None))
        uk = [v for (bb, j, v, dst) in b.aggregates("auth::types::UserKey")]
        if not uk:
            raise AnchorMissing("UserKey aggregate in revoke_key")
        for v in uk:
            if v["o"][v["fields"].index("active")].get("k") != "false":
                bad.append(("revoked-still-active", "revoke_key stores a key with active != false", None))
        if not (b._origin_locals(ins.args[1]) & {l for (bb, j, v, dst) in b.aggregates("auth::types::UserKey") for l in [dst[0]]} or True):
            pass
        m = F.fn("AuthManager::revoke_key")
        oks = [bb for (bb, j, v, dst) in m.aggregates("result::Result", "Ok") if dst == [0]]
        rs = one(m, r"SessionStore::revoke_user_sessions$")
        rk = one(m, r"user_ops::revoke_key$")
        inst.sites += [sp(m, rk.bb), sp(m, rs.bb)]
        for o in oks:
            if not m.dominates_edge((rs.bb, rs.to), o):
                bad.append(("sessions-survive-revoke", "AuthManager::revoke_key returns Ok without revoking the user's session tokens", None))
        for nm in ("auth::permission_ops::grant_permission", "auth::permission_ops::revoke_permission"):
            p = F.fn(nm)
            # a thin wrapper (grant = `set these bits, clear the others`) is judged by the function it hands the work to
            for _ in range(2):
                if any(c_.nname.endswith("permission_ops::update_caches") for c_ in p.calls if not c_.cleanup):
                    break
                dl = [c_ for c_ in p.calls if not c_.cleanup and c_.callee and re.search(r"auth::permission_ops::\w+$", norm_path(c_.callee)) and F.has(c_.callee)]
                oks_own = [bb for (bb, j, v, dst) in p.aggregates("result::Result", "Ok") if dst == [0]]
                if len(dl) == 1 and not oks_own:
                    inst.sites.append("%s delegates to %s" % (nm.split("::")[-1], dl[0].nname.split("::")[-1]))
                    p = F.fn(norm_path(dl[0].callee))
                else:
                    break
            oks = [bb for (bb, j, v, dst) in p.aggregates("result::Result", "Ok") if dst == [0]]
            uc = one(p, r"permission_ops::update_caches$")
            de = done_edge(p, uc)
            for o in oks:
                if not p.dominates_edge(de, o):
                    bad.append(("permission-ok-before-caches:%s" % nm.split("::")[-1], "%s returns Ok before the caches were updated" % nm, None))
            inst.sites.append(sp(p, uc.bb))
        u = F.fn("auth::permission_ops::update_caches")
        one(u, r"UserCache::insert$")
        one(u, r"PermissionCache::update_user$")
        return bad
    ctx.run("C13.e", "K1 DOM", "revocation paths", "revoking a key or permission updates the caches consulted by the next request", e)


    # ------------------------------------------------------------------ f
    def f_(inst):
        b = F.fn("handlers::permissions::handle")
        gps = calls(b, r"AuthManager::(grant_permission|update_permission)$", 2)
        bad = []
        for gp in gps:
            loop = {x for x in b.live_blocks() if b.can_reach(x, gp.bb) and b.can_reach(gp.bb, x)}
            if not loop:
                raise AnchorMissing("loop around grant_permission at %s" % sp(b, gp.bb))
            inst.sites.append("%s loop blocks: %d" % (sp(b, gp.bb), len(loop)))
            S = deep_locals(b, gp.args[3])
            for x in sorted(S):
                ds = b.defs().get(x, [])
                inside = [d for d in ds if d[0] in loop]
                outside = [d for d in ds if d[0] not in loop]
                # field-wise or whole re-assignment inside the loop of a variable that also exists before the loop
                if inside and outside and b.local_name(x):
                    bad.append(("grant-loop-carried:%s" % b.local_name(x), "the permission set stored for one event type flows from `%s`, which is updated inside the loop over event types: permissions leak from earlier types of the list to later ones" % b.local_name(x), None))
        # the per-type existing permissions are looked up for the iterated type
        return bad
    ctx.run("C13.f", "K7 PROV (loop independence)", "handlers::permissions::handle GRANT loop", "a GRANT on several event types treats each type independently", f_)

    def g_(inst):
        bad, n = [], 0
        for k in sorted(F.keys()):
            if not k.startswith("engine::auth::") or k.startswith("bin:"):
                continue
            b = F.fn_exact(k)
            for (bb, j, v, dst) in b.aggregates("auth::types::User") + b.aggregates("auth::types::UserKey"):
                fl = v.get("fields", [])
                if "active" not in fl or "secret_key" not in fl:
                    continue
                La = deep_origins(F, b, v["o"][fl.index("active")])
                Ls = deep_origins(F, b, v["o"][fl.index("secret_key")])
                copied = [l for l in Ls if l[0] in ("call", "param", "upvar") and ".secret_key" in [str(p_) for p_ in (l[3] if l[0] == "call" else l[2])]]
                if not copied:
                    continue   # a fresh secret (creation): a constant `active` is the point
                n += 1
                carried = [l for l in La if l[0] in ("call", "param", "upvar") and ".active" in [str(p_) for p_ in (l[3] if l[0] == "call" else l[2])]]
                consts = {l[1] for l in La if l[0] == "const"}
                inst.sites.append("%s @ %s: %s.active <- %s" % (norm_path(k).split("::{closure")[0].split("::")[-1], sp(b, bb), v["adt"].split("::")[-1], fmt_leaves(La)))
                if "true" in consts or (not carried and consts != {"false"}):
                    bad.append(("reactivates-key:%s" % norm_path(k).split("::{closure")[0], "%s rebuilds a user record around an existing secret key with active = %s instead of carrying the record's own flag: a revoked key works again after this update" % (norm_path(k).split("::{closure")[0].split("::")[-1], fmt_leaves(La)), None))
        if bad:
            return bad
        if n < 3:
            raise AnchorMissing("user records rebuilt around an existing secret key in engine::auth (found %d, confirmed 6)" % n)
        return bad
    ctx.run("C13.g", "K7 PROV", "engine::auth: User / UserKey records rebuilt from an existing one", "a permission update cannot re-activate a revoked key", g_)

    def h_(inst):
        """A permission or key update is a read-modify-write of the user record. The copy that is modified must be read under the
        same write guard that writes it back: with a read guard released in between, a GRANT racing with REVOKE KEY writes back
        `active = true` (the revoked key works again) and concurrent GRANTs lose each other's permissions."""
        bad = []
        n = 0
        for nm in ("auth::permission_ops::grant_permission", "auth::permission_ops::revoke_permission", "auth::user_ops::revoke_key"):
            b = F.fn(nm)
            short = nm.split("::")[-1]
            for _ in range(2):
                if any(c.nname.endswith("UserCache::get") for c in b.calls if not c.cleanup):
                    break
                dl = [c for c in b.calls if not c.cleanup and c.callee and re.search(r"auth::(permission_ops|user_ops)::\w+$", norm_path(c.callee)) and F.has(c.callee)]
                if len(dl) == 1:
                    b = F.fn(norm_path(dl[0].callee))
                    short = short + " -> " + b.key.split("::{closure")[0].split("::")[-1]
                else:
                    break
            gets = [c for c in b.calls if not c.cleanup and c.nname.endswith("UserCache::get")]
            if len(gets) != 1:
                raise AnchorMissing("UserCache::get in %s (%d)" % (short, len(gets)))
            g = gets[0]
            wb = [c for c in b.calls if not c.cleanup and c.nname.endswith("UserCache::insert")]
            for c in b.calls:
                if c.cleanup or not c.callee or not F.has(c.callee) or c in wb or "{closure" in c.callee:
                    continue
                cal = F.fn(c.callee) if not c.callee.endswith("}") else F.fn_exact(c.callee)
                fam = [cal] + [F.fn_exact(k) for k in F.keys() if k.startswith(cal.key.split("::{closure")[0] + "::{closure")]
                if any(x.nname.endswith("UserCache::insert") for f_ in fam for x in f_.calls if not x.cleanup) and c.args:
                    wb.append(c)
            if not wb:
                raise AnchorMissing("the write-back of the user record (UserCache::insert, directly or in a helper) in %s" % short)
            gl = b._origin_locals(g.args[0])
            n += 1
            for w in wb:
                common = set()
                for a_ in w.args[:1]:
                    common |= gl & b._origin_locals(a_)
                # the shared local is a guard obtained from RwLock::write (not read)
                ok = any(l[0] == "call" and re.search(r"RwLock(::<\w+>)?::write(::\{closure#\d+\})?$", l[1]) for c_ in common for l in b.origins({"c": [c_]}))
                inst.sites.append("%s: read @ %s, write-back %s @ %s, same write guard: %s" % (short, sp(b, g.bb), w.nname.split("::")[-1], sp(b, w.bb), ok))
                if not ok:
                    bad.append(("user-record-rmw-not-atomic:%s" % short, "%s reads the user record and writes the modified copy back under different lock acquisitions: a concurrent REVOKE KEY / GRANT between the two is overwritten with a stale copy" % short, sp(b, w.bb)))
        if n < 3:
            raise AnchorMissing("the three read-modify-write sites (found %d)" % n)
        return bad
    ctx.run("C13.h", "K5 HELD", "engine::auth: grant_permission / revoke_permission / revoke_key", "a user record is read and written back under one write guard", h_)

    def i_(inst):
        """Revocations are records appended to the auth WAL; replay stops at a frame it cannot step over. Opening the file for append
        must therefore cut off a torn tail first, or everything appended later (a REVOKE KEY) is unreachable for the next start."""
        bad = []
        b = F.fn("AuthWalStorage::new_with_sync")
        seeks = [c for c in b.calls if not c.cleanup and c.nname.endswith("Seek>::seek") or (not c.cleanup and c.nname.endswith("io::Seek::seek"))]
        end_seek = []
        for c in seeks:
            L = b.origins(c.args[1]) if len(c.args) > 1 else []
            if any(l[0] == "agg" and "SeekFrom::End" in l[1] for l in L):
                end_seek.append(c)
        if not end_seek:
            raise AnchorMissing("seek(SeekFrom::End) in AuthWalStorage::new_with_sync")
        # calls on the existing-file path that (transitively, 2 levels) truncate the file
        def truncates(body, depth=2, seen=None):
            seen = seen if seen is not None else set()
            if body.key in seen:
                return False
            seen.add(body.key)
            for c in body.calls:
                if c.cleanup:
                    continue
                if re.search(r"fs::File::set_len$", c.nname):
                    return True
                if depth > 0 and c.callee and F.has(c.callee) and truncates(F.fn_exact(c.callee), depth - 1, seen):
                    return True
            return False
        tr = [c for c in b.calls if not c.cleanup and c.callee and F.has(c.callee) and truncates(F.fn_exact(c.callee))]
        wh = [c for c in b.calls if not c.cleanup and c.nname.endswith("::write_header")]
        if not wh:
            raise AnchorMissing("write_header (the new-file path) in AuthWalStorage::new_with_sync")
        inst.sites += [sp(b, c.bb) for c in end_seek + tr]
        if not tr:
            bad.append(("append-behind-torn-tail", "AuthWalStorage::new_with_sync positions the append cursor at the end of an existing file without cutting off a torn tail frame: records appended later (revocations) lie behind a frame replay cannot step over", sp(b, end_seek[0].bb)))
            return bad
        cut_blocks = [c.bb for c in tr] + [c.bb for c in wh]
        for c in end_seek:
            if c.bb in set(b.reach(0, cut_blocks=cut_blocks)):
                bad.append(("append-behind-torn-tail", "AuthWalStorage::new_with_sync can reach seek(End) for an existing file without the torn-tail truncation", sp(b, c.bb)))
        return bad
    ctx.run("C13.i", "K2 CUT", "AuthWalStorage::new_with_sync", "the auth WAL is appended to only behind its last replayable frame", i_)

    def j_(inst):
        """REVOKE KEY must survive a restart: what revoke_key persists is the record with the key switched off - the User handed to
        store_user_in_db and the UserKey put into the cache both carry `active = false` (a constant), not the flag of the record read."""
        bad = []
        b = F.fn("auth::user_ops::revoke_key")
        st = one(b, r"db_ops::store_user_in_db$")
        ins = [c for c in b.calls if not c.cleanup and c.nname.endswith("UserCache::insert")]
        if not ins:
            raise AnchorMissing("UserCache::insert in revoke_key")

        def active_of(op, depth=3):
            """provenance of the `active` field of the record an operand denotes"""
            out = set()
            for l in b.origins(op):
                if l[0] == "agg" and re.search(r"auth::types::User(Key)?::User(Key)?$|auth::types::User(Key)?$", l[1]):
                    for (bb, jx, v, dst) in b.aggregates("User") + b.aggregates("UserKey"):
                        if bb == l[2]:
                            o = dict(zip(v.get("fields", []), v["o"])).get("active")
                            if o is not None:
                                out |= {fmt_leaves([x]) for x in b.origins(o)}
                elif l[0] == "call" and depth > 0 and re.search(r"From<.*>>::from$|Into<.*>>::into$|Clone>::clone$", l[1]):
                    cc = b.call_at(l[2])
                    if cc.args:
                        sub = active_of(cc.args[0], depth - 1)
                        out |= sub if sub else {"as in " + fmt_leaves(b.origins(cc.args[0]))}
                else:
                    out.add("as in " + fmt_leaves([l]))
            return out
        pa = active_of(st.args[1])
        inst.sites += [sp(b, st.bb), "persisted record: active <- %s" % sorted(pa)]
        if pa != {"const:false"}:
            bad.append(("revocation-not-persisted", "revoke_key persists a record whose `active` is %s, not the constant false: the auth WAL never records the revocation and the key works again after a restart" % sorted(pa), sp(b, st.bb)))
        for c in ins:
            ca = active_of(c.args[1])
            inst.sites.append("cached record @ %s: active <- %s" % (sp(b, c.bb), sorted(ca)))
            if ca != {"const:false"}:
                bad.append(("revocation-not-cached", "revoke_key caches a record whose `active` is %s, not the constant false" % sorted(ca), sp(b, c.bb)))
        return bad
    ctx.run("C13.j", "K7 PROV + K11", "engine::auth::user_ops::revoke_key", "a revocation is persisted and cached as active = false", j_)

    def k_(inst):
        """GRANT / REVOKE of one permission bit is a read-modify-write of the user's permission set. The set written must not be
        computed from a copy the HANDLER read in an earlier call (get_permissions): two requests that each read, merge and write
        lose one another's bit, and a GRANT resurrects a bit a concurrent REVOKE cleared. What the handler passes down derives
        from the command only; the merge happens under the lock (C13.h)."""
        bad = []
        b = F.fn("handlers::permissions::handle")
        writes = [c for c in b.calls if not c.cleanup and re.search(r"AuthManager::(grant_permission|update_permission|revoke_permission)$", c.nname)]
        reads = [c for c in b.calls if not c.cleanup and re.search(r"AuthManager::get_permissions$", c.nname)]
        if not writes:
            raise AnchorMissing("AuthManager::grant_permission / update_permission in handlers::permissions::handle")
        rl = set()
        for r in reads:
            pl, aw = b.result_value_place(r)
            start = [aw[0].dest[0]] if aw is not None else pl
            rl |= {l for l, _ in b.flow_forward(start)}
        inst.sites = [sp(b, c.bb) for c in writes] + ["permission reads in the handler: %d" % len(reads)]
        def from_read(op, depth=6, seen=None):
            """does the operand derive from the result of get_permissions, through adaptor calls (ok / and_then / unwrap_or_else ...)?"""
            seen = seen if seen is not None else set()
            for l in b.origins(op):
                if l[0] != "call" or l[2] in seen:
                    continue
                seen.add(l[2])
                if "get_permissions" in l[1]:
                    return True
                cc = b.call_at(l[2])
                if depth > 0 and cc is not None and any(from_read(a2, depth - 1, seen) for a2 in cc.args[:1]):
                    return True
            return False
        # switches on a value read from get_permissions (`existing.read || requested.read` is control flow, not data flow)
        rsw = []
        for i_ in sorted(b.live_blocks()):
            if b.blocks[i_]["t"]["t"] != "switch":
                continue
            si = b.switch_info(i_)
            if si and si["kind"] == "bool" and ((b._origin_locals(si["op"]) & rl) or from_read(si["op"])):
                rsw.append((i_, si))

        def control_dep(locals_):
            for l_ in locals_:
                for (bb_, j_, dpl, rv) in b.defs().get(l_, []):
                    for i_, si in rsw:
                        t_, f_ = si["true"], si["false"]
                        dt = t_ is not None and b.dominates_edge((i_, t_), bb_)
                        df = f_ is not None and b.dominates_edge((i_, f_), bb_)
                        if dt != df:
                            return True
            return False
        for w in writes:
            for a_ in w.args[1:]:
                W_ = wide_all(b, a_) | b._origin_locals(a_)
                if (W_ & rl) or control_dep(W_) or from_read(a_):
                    bad.append(("permission-set-merged-outside-lock:%s" % w.nname.split("::")[-1], "handlers::permissions::handle hands %s a permission set computed from an earlier get_permissions: a concurrent GRANT / REVOKE of the other bit between the two calls is overwritten (lost READ / WRITE bit, resurrected permission)" % w.nname.split("::")[-1], sp(b, w.bb)))
                    break
        return bad
    ctx.run("C13.k", "K7 PROV", "handlers::permissions::handle", "the handler does not write back a permission set it read earlier", k_)

    def l_(inst):
        # a session's expiry is fixed when the token is issued: nothing stores to SessionToken.expires_at afterwards
        adt = F.adts.get("engine::auth::types::SessionToken")
        if not adt or "expires_at" not in adt["variants"][0]["f"]:
            raise AnchorMissing("SessionToken.expires_at")
        vt = F.fn("AuthManager::validate_session_token")
        if not cmp_guard(vt, [bb for (bb, j, v, dst) in vt.aggregates("option::Option", "Some") if dst == [0]][0],
                         lambda op, A, B, truth: has_origin(A, None, proj_contains=[".expires_at"]) or has_origin(B, None, proj_contains=[".expires_at"])):
            raise AnchorMissing("expiry comparison in validate_session_token")
        bad, n = [], 0
        for k in F.keys():
            if "engine::auth" not in k or "_test" in k or "::tests::" in k:
                continue
            b = F.fn_exact(k)
            n += 1
            for i in sorted(b.live_blocks()):
                for st in b.blocks[i]["s"]:
                    p_ = st.get("a") if "v" in st else None
                    if p_ and ".expires_at" in [e for e in p_[1:] if isinstance(e, str)]:
                        bad.append(("expiry-rewritten:%s" % k.split("engine::auth::")[-1], "%s stores to SessionToken.expires_at: a token's lifetime is no longer the one fixed when it was issued (an expired or revoked-by-time token can be brought back)" % k, sp(b, i)))
        inst.sites = ["%d engine::auth bodies scanned for stores to .expires_at" % n]
        seen, out = set(), []
        for x in bad:
            if x[0] not in seen:
                seen.add(x[0])
                out.append(x)
        return out
    ctx.run("C13.l", "K4 EFFECT", "SessionToken.expires_at", "a session token's expiry is written once, when the token is issued", l_)

    def m_(inst):
        # the front end's auth manager is always present: an error while opening the auth storage must not
        # turn into a server that runs without authentication
        bs = [F.fn_exact(k) for k in F.find(r"^frontend::context::FrontendContext::") if F.fn_exact(k).aggregates("FrontendContext", None)]
        if not bs:
            raise AnchorMissing("constructor of FrontendContext")
        bad = []
        for b in bs:
            for (bb, j, v, d) in b.aggregates("FrontendContext", None):
                idx = v["fields"].index("auth_manager")
                L = b.origins(v["o"][idx])
                inst.sites.append(sp(b, bb) + " auth_manager <- " + fmt_leaves(L))
                for l in L:
                    if l[0] == "agg" and l[1].endswith("Option::Some"):
                        continue
                    # a None (or anything else) that is chosen on the failure edge of a fallible call
                    nb = l[2] if l[0] == "agg" else None
                    on_err = False
                    if nb is not None:
                        for i in sorted(b.live_blocks()):
                            if b.blocks[i]["t"]["t"] != "switch":
                                continue
                            si = b.switch_info(i)
                            if si and si["kind"] == "enum":
                                for var in ("Err", "Break"):
                                    for t in edges_for_variant(si, var):
                                        if b.dominates_edge((i, t), nb):
                                            on_err = True
                    if on_err or l[0] != "agg":
                        bad.append(("auth-manager-dropped-on-error", "FrontendContext.auth_manager can be %s, chosen when a start-up step failed: every gate treats a missing manager as \"authentication not configured\" and lets the request through" % fmt_leaves({l}), sp(b, bb)))
        return bad
    ctx.run("C13.m", "K7 PROV", "FrontendContext::from_config", "a start-up failure never leaves the front end without its auth manager", m_)

    def n_(inst):
        # the wildcard event type "*" stands for every defined type: whoever asks can_read has to expand it
        # (an entry named "*" does not exist, so the literal falls back to the role and skips explicit denials)
        bad, n = [], 0
        for k in F.keys():
            if k.startswith("bin:") or "_test" in k or "::tests::" in k or not norm_path(k).startswith("command::"):
                continue
            b = F.fn_exact(k)
            if not b.find_calls(r"AuthManager::can_read$"):
                continue
            n += 1
            fam = [b] + [F.fn_exact(k2) for k2 in F.keys() if k2.startswith(k + "::{closure#")]
            star = any(not c_.cleanup and re.search(r"::(eq|ne)$", c_.nname) and any(l[0] == "const" and l[1].strip('"') == "*" for a_ in c_.args for l in fb.origins(a_)) for fb in fam for c_ in fb.calls)
            expand = any(fb.find_calls(r"SchemaRegistry::get_all$") for fb in fam)
            short = norm_path(k).split("::{closure")[0]
            inst.sites.append("%s: wildcard test=%s registry expansion=%s" % (short, star, expand))
            if not (star and expand):
                bad.append(("wildcard-checked-literally:%s" % short.split("::")[-1], "%s asks can_read about the event type as written: for the wildcard \"*\" the answer is the role's, an explicit denial of one type is skipped and the rows of every type are returned" % short, None))
        if n < 1:
            raise AnchorMissing("read-permission sites in command:: (%d; 2 counted: QUERY handler, dispatcher gate)" % n)
        return bad
    ctx.run("C13.n", "K10 READS", "can_read sites (QUERY handler, dispatcher gate)", "the wildcard event type is expanded before read permission is asked", n_)
