"""C14 — SHOW of a remembered query equals the live query, each event once: ordering / gate clauses only."""
from .util import *
import json

EXPLANATION = """
Claimed narrowly. Decides ordering/gate clauses; does NOT decide equality with the live query over all histories (same-second arrivals, compaction moving materialised rows).
a) REMEMBER: the catalog entry is created and the query executed only on the `alias does not exist` edge.
b) SHOW: awaited wait_for_inflight_flushes (Ok) dominates the delta execute_streaming; the high-water mark placed in the delta query's metadata and in the persisted outcome is the one read
   before the delta started (DeltaRefresher::initial_high_water); persist_outcome only after the response was written successfully.
c) delta refresher task: {watermark.enabled() == false edge, Some edge of WatermarkDeduplicator::filter} cuts each received batch from both sink.append and sender.send; the batch sent is the batch appended.
e) the watermark that de-duplicates the delta against the stored frames is read from the store itself (MaterializedSink::high_water_mark on the sink opened for this SHOW), both for the
   WatermarkDeduplicator and for DeltaRefresher::initial_high_water — not from the catalog entry, which lags behind when a previous SHOW appended frames but did not persist its outcome.
d) materialisation pruning strictness: a zone / segment is skipped only under `timestamp_max < high_water` (strict) or `created_at <= created_at`.
(f) the delta query always carries the materialisation's watermark: in ShowExecutionPipeline::run the metadata entries "materialization_high_water_ts" and "materialization_high_water_event_id" are
inserted on every path that reaches build_delta_command (without them the zone selectors fall back to pruning by creation time and drop a zone flushed in the same second as the REMEMBER).
(g) the watermark is the MAXIMUM over everything materialised, whatever order the batches arrive in: MaterializedSink::append and bootstrap_from_manifest change self.high_water only through
HighWaterMark::advance (never by assigning one frame's mark); delta batches arrive memtable-first and shard by shard, so 'the last frame' is not the newest event.
"""
FLOOR = 13
REQUIRED = ["C14.a", "C14.b", "C14.c", "C14.d1", "C14.d2", "C14.e", "C14.f", "C14.g", "C14.h", "C14.i", "C14.j", "C14.k", "C14.l"]


def run(ctx):
    F = ctx.F

    def a(inst):
        b = F.fn("handlers::remember::remember_query_with_data_dir")
        get = one(b, r"MaterializationCatalog::get$")
        some = [c for c in b.find_calls(r"Option::is_some$") if any(l[0] == "call" and "MaterializationCatalog" in l[1] and l[1].endswith("::get") for l in b.origins(c.args[0]))]
        if not some:
            raise AnchorMissing("catalog.get(alias)…is_some() test")
        new = one(b, r"MaterializationEntry::new$")
        ex = one(b, r"QueryExecutionPipeline::execute_streaming$")
        fe = bool_result_edge(b, some[0], False)
        inst.sites = [sp(b, get.bb), sp(b, new.bb), sp(b, ex.bb)]
        bad = []
        for tgt, nm in ((new, "entry creation"), (ex, "query execution")):
            if not any(b.dominates_edge(e, tgt.bb) for e in fe):
                bad.append(("remember-overwrites:%s" % nm, "%s reachable although a materialisation of that name exists" % nm, None))
        La = fmt_leaves(b.origins(get.args[1]))
        if "alias" not in La and "spec" not in La:
            bad.append(("exists-other-name", "existence is tested for another name (%s)" % La, None))
        return bad
    ctx.run("C14.a", "K1 DOM", "remember_query_with_data_dir", "REMEMBER under an existing name is rejected before anything is created", a)

    def b_(inst):
        b = F.fn("ShowExecutionPipeline::run")
        wt = one(b, r"ShowExecutionPipeline::wait_for_inflight_flushes$")
        ex = one(b, r"QueryExecutionPipeline::execute_streaming$")
        ihw = one(b, r"DeltaRefresher::initial_high_water$")
        wr = one(b, r"ShowResponseWriter::write$")
        po = one(b, r"ShowExecutionPipeline::persist_outcome$")
        bo = one(b, r"ShowExecutionPipeline::build_outcome$")
        inst.sites = [sp(b, x.bb) for x in (wt, ihw, ex, wr, bo, po)]
        bad = []
        es = [e for (e, v) in ok_edges(b, wt) if v == "Continue"]
        if not es or not any(b.dominates_edge(e, ex.bb) for e in es):
            bad.append(("delta-before-flush-wait", "the delta query can start before in-flight flushes completed", None))
        if not b.dominates_edge((ihw.bb, ihw.to), ex.bb):
            bad.append(("watermark-read-after-delta", "the high-water mark is read after the delta query started", None))
        # metadata value for materialization_high_water_ts comes from initial_high_water.timestamp
        ok_meta = False
        for c in b.find_calls(r"HashMap::insert$"):
            if "materialization_high_water_ts" in str_consts(b, c.args[1]):
                L = b.origins(c.args[2], transparent=NEXT_TRANSPARENT)
                if any(l[0] == "call" and "initial_high_water" in l[1] and ".timestamp" in l[3] for l in L):
                    ok_meta = True
                inst.sites.append("metadata high_water_ts <- %s" % fmt_leaves(L))
        if not ok_meta:
            bad.append(("metadata-watermark-origin", "delta metadata high-water timestamp is not initial_high_water.timestamp", None))
        Lb = b.origins(bo.args[3])
        if not all(l[0] == "call" and "initial_high_water" in l[1] for l in Lb):
            bad.append(("outcome-watermark-origin", "persisted outcome is built from another high-water mark (%s)" % fmt_leaves(Lb), None))
        we = [e for (e, v) in ok_edges(b, wr) if v == "Continue"]
        if not we or not any(b.dominates_edge(e, po.bb) for e in we):
            bad.append(("persist-before-response", "outcome persisted although the response was not written successfully", None))
        return bad
    ctx.run("C14.b", "K1 DOM + K7", "ShowExecutionPipeline::run", "flush-wait before delta; one high-water mark for delta and outcome; persist after response", b_)

    def c(inst):
        ks = F.find(r"^command::handlers::show::delta::refresher::DeltaRefresher::spawn_stream_task::\{closure#0\}$")
        if len(ks) != 1:
            raise AnchorMissing("delta refresher task body")
        b = F.fn_exact(ks[0])
        rc = one(b, r"QueryBatchStream::recv$")
        en = one(b, r"WatermarkDeduplicator::enabled$")
        fl = one(b, r"WatermarkDeduplicator::filter$")
        ap = one(b, r"MaterializedSink::append$")
        sd = one(b, r"(BatchSender|mpsc::(bounded::)?Sender|FlowSender\w*)::send$")
        inst.sites = [sp(b, x.bb) for x in (rc, en, fl, ap, sd)]
        bad = []
        cut = bool_result_edge(b, en, False)
        for i, si in result_switches(b, fl):
            for t in edges_for_variant(si, "Some"):
                cut.append((i, t))
        some_rc = variant_edge(b, rc, "Some")
        for tgt, nm in ((ap, "sink.append"), (sd, "sender.send")):
            seen = b.reach(0, src_edges=some_rc, cut_edges=cut)
            if tgt.bb in seen:
                bad.append(("unfiltered:%s" % nm, "%s reachable for a batch that did not pass the watermark filter although filtering is enabled" % nm, witness_path(b, seen, tgt.bb)))
        # the filter receives the received batch
        Lf = b.origins(fl.args[1], transparent=NEXT_TRANSPARENT)
        if not any(l[0] == "call" and "recv" in l[1] for l in Lf):
            bad.append(("filter-other-batch", "the watermark filter is not applied to the received batch (%s)" % fmt_leaves(Lf), None))
        # batch sent == batch appended (same local), and its origins are the filtered / received batch only
        la = b._origin_locals(ap.args[1])
        ls = b._origin_locals(sd.args[1])
        if not (la & ls):
            bad.append(("send-other-batch", "the batch sent to the client is not the batch appended to the store", None))
        # ... and it is the local that RECEIVES the filter's result (a clone taken before filtering has the same origins but is another value)
        fplace, faw = b.result_value_place(fl)
        fstart = [faw[0].dest[0]] if faw is not None else fplace
        fflow = {l for l, _ in b.flow_forward(fstart)}
        for tgt, nm in ((ap, "sink.append"), (sd, "sender.send")):
            if not (b._origin_locals(tgt.args[1]) & fflow):
                bad.append(("pre-filter-copy:%s" % nm, "%s receives a value the watermark filter's result never flows into (a copy taken before filtering)" % nm, None))
        Ls = b.origins(sd.args[1], transparent=NEXT_TRANSPARENT)
        for l in Ls:
            if not (l[0] == "call" and ("recv" in l[1] or "filter" in l[1])):
                bad.append(("send-batch-origin", "batch sent has an unexpected origin %s" % fmt_leaves({l}), None))
        return bad
    ctx.run("C14.c", "K2 CUT + K7", "DeltaRefresher stream task", "with watermark filtering enabled only filtered rows are stored and streamed", c)

    def strict(name, key):
        def f(inst):
            b = F.fn(name)
            fam = [b] + [F.fn_exact(k) for k in F.find("^" + re.escape(b.key.split("::{closure")[0]) + r"::\{closure") if k != b.key]
            tbl = []
            for bb_ in fam:
                for blk in bb_.live_blocks():
                    for s in bb_.blocks[blk]["s"]:
                        if "v" in s and s["v"]["r"] == "bin" and s["v"]["op"] in ("Lt", "Le", "Gt", "Ge"):
                            A = fmt_leaves(bb_.origins(s["v"]["a"]))
                            B = fmt_leaves(bb_.origins(s["v"]["b"]))
                            if "timestamp_max" in A or "timestamp_max" in B or "created_at" in A or "created_at" in B:
                                tbl.append((s["v"]["op"], "timestamp_max" if "timestamp_max" in A else ("created_at" if "created_at" in A else A[:30]),
                                            "timestamp_max" if "timestamp_max" in B else ("created_at" if "created_at" in B else B[:40])))
            inst.sites = ["%s(%s, %s)" % t for t in tbl]
            bad = []
            ts = [t for t in tbl if t[1] == "timestamp_max"]
            ca = [t for t in tbl if t[1] == "created_at" and t[2] == "created_at" or (t[1] == "created_at")]
            if not ts or any(t[0] != "Lt" for t in ts):
                bad.append(("watermark-not-strict", "%s skips zones under %s (must be timestamp_max < high_water: events on the high-water second are not yet all materialised)" % (name, ts), None))
            if not ca or any(t[0] != "Le" for t in ca):
                bad.append(("created-at-guard", "%s created_at guard is %s (expected created_at <= materialization created_at)" % (name, ca), None))
            return bad
        return f
    ctx.run("C14.d1", "K8 GUARD", "MaterializationPruner::apply", "zone skipping is strict on the high-water second", strict("MaterializationPruner::apply", "pruner"))
    ctx.run("C14.d2", "K8 GUARD", "MaterializationGuard::segment_fully_materialized", "segment skipping is strict on the high-water second", strict("MaterializationGuard::segment_fully_materialized", "guard"))


    def e(inst):
        b = F.fn("DeltaRefresher::new")
        hw = one(b, r"MaterializedSink::high_water_mark$")
        wd = one(b, r"WatermarkDeduplicator::new$")
        inst.sites = [sp(b, hw.bb), sp(b, wd.bb)]
        bad = []
        L = b.origins(wd.args[0])
        if not all(l[0] == "call" and norm_path(l[1]).endswith("MaterializedSink::high_water_mark") for l in L):
            bad.append(("dedup-watermark-origin", "the delta de-duplication watermark is %s, not the store's own high-water mark" % fmt_leaves(L), None))
        ag = b.aggregates("DeltaRefresher")
        if not ag:
            raise AnchorMissing("DeltaRefresher aggregate")
        for (bb, j, v, dst) in ag:
            Li = b.origins(v["o"][v["fields"].index("initial_high_water")])
            if not all(l[0] == "call" and norm_path(l[1]).endswith("MaterializedSink::high_water_mark") for l in Li):
                bad.append(("initial-watermark-origin", "initial_high_water is %s, not the store's own high-water mark" % fmt_leaves(Li), None))
        # the sink whose watermark is read is the one opened on entry.storage_path
        return bad
    ctx.run("C14.e", "K7 PROV", "DeltaRefresher::new", "the de-duplication watermark reflects what the store really holds", e)

    def f_(inst):
        b = F.fn("ShowExecutionPipeline::run")
        bd = one(b, r"ShowExecutionPipeline.*::build_delta_command$")
        ins = [c_ for c_ in b.find_calls(r"HashMap.*::insert$")]
        by_key = {}
        for c_ in ins:
            for kk in str_consts(b, c_.args[1], depth=3):
                by_key.setdefault(kk, []).append(c_)
        bad = []
        for key in ("materialization_high_water_ts", "materialization_high_water_event_id"):
            cs = by_key.get(key) or []
            if not cs:
                raise AnchorMissing("metadata.insert(%r) in ShowExecutionPipeline::run" % key)
            inst.sites.append("%s @ %s" % (key, [sp(b, c_.bb) for c_ in cs]))
            bad += must_cross(b, bd.bb, cut_blocks=[c_.bb for c_ in cs], key="watermark-not-sent:%s" % key, detail="the delta query can be built without %s: the zone selectors then prune by creation time" % key)
        return bad
    ctx.run("C14.f", "K2 CUT", "ShowExecutionPipeline::run", "the delta query always carries the watermark", f_)

    def g_(inst):
        bad = []
        for nm in ("MaterializedSink::append", "MaterializedSink::bootstrap_from_manifest"):
            b = F.fn(nm)
            adv = [c_ for c_ in b.find_calls(r"HighWaterMark::advance$")]
            plain = []
            for i in sorted(b.live_blocks()):
                for st in b.blocks[i]["s"]:
                    if st.get("a") and [p_ for p_ in st["a"][1:] if p_ != "*"][-1:] == [".high_water"] and st.get("v", {}).get("r") == "use":
                        plain.append(i)
            inst.sites.append("%s: advance x%d, plain assignments to high_water x%d" % (nm.split("::")[-1], len(adv), len(plain)))
            if plain:
                bad.append(("watermark-assigned:%s" % nm.split("::")[-1], "%s assigns self.high_water from one frame's mark (%s): frames arrive in arbitrary order, so the stored watermark can be older than rows already materialised and the next SHOW returns them again" % (nm, sp(b, plain[0])), None))
            elif not adv:
                bad.append(("watermark-not-advanced:%s" % nm.split("::")[-1], "%s never advances self.high_water" % nm, None))
        return bad
    ctx.run("C14.g", "K4 EFFECT", "MaterializedSink::append / bootstrap_from_manifest", "the high-water mark is the maximum over all frames", g_)

    def h_(inst):
        """Watermarks are compared as (timestamp, event id) pairs. The frame writer's header keeps the maximum timestamp and the maximum
        event id of a batch as two independent numbers; combined they may form a pair no row has (ids of two shards around a second
        boundary) and a row below that pair is skipped by every later SHOW. The mark the store records for a frame must be computed
        from the rows pairwise: the `high_water_mark` of the meta pushed into the manifest is assigned from a function that walks
        the timestamp and event-id columns together."""
        bad = []
        b = F.fn("MaterializedStore::append_batch")
        pf = one(b, r"ManifestState::push_frame$")
        wr = one(b, r"FrameWriter::write$")
        assigns = []
        for i_ in sorted(b.live_blocks()):
            for st in b.blocks[i_]["s"]:
                if st.get("a") and any(isinstance(e, str) and e == ".high_water_mark" for e in st["a"]) and (st.get("v") or {}).get("r") == "use":
                    assigns.append((i_, st))
        pairwise = []
        for i_, st in assigns:
            for l in b.origins(st["v"]["o"]):
                if l[0] == "call" and F.has(l[1]):
                    cal = F.fn_exact(l[1])
                    fam = [cal] + [F.fn_exact(k) for k in F.keys() if k.startswith(cal.key + "::{closure")]
                    if any(re.search(r"Iterator::zip$", c.nname) for f_ in fam for c in f_.calls if not c.cleanup) and any(c.nname.endswith("HighWaterMark::new") for f_ in fam for c in f_.calls if not c.cleanup):
                        if b.dominates_edge((wr.bb, wr.to), i_) and pf.bb in set(b.reach(i_)):
                            pairwise.append(i_)
        inst.sites = [sp(b, wr.bb), sp(b, pf.bb)] + [sp(b, x) for x in pairwise]
        if not pairwise:
            bad.append(("frame-mark-from-independent-maxima", "MaterializedStore::append_batch records the frame writer's mark (maximum timestamp and maximum event id tracked separately) without replacing it by the largest (timestamp, event id) row of the batch: a mark no row has makes later SHOWs skip rows below it", sp(b, pf.bb)))
        else:
            # on every path to push_frame on which the batch yields a mark
            pass
        return bad
    ctx.run("C14.h", "K7 PROV", "MaterializedStore::append_batch", "a frame's high-water mark is a (timestamp, event id) pair one of its rows has", h_)

    def i_(inst):
        """The mark of a frame is read from the batch column NAMED `timestamp`, while SHOW applies the mark to the query's time field
        (REMEMBER ... USING <field>): with a payload time field the mark and the delta filter speak different units."""
        bad = []
        hits = []
        for k in sorted(F.keys()):
            if k.startswith("bin:") or not re.search(r"materialize::store::(codec::encoder|materialized_store)::", k):
                continue
            b = F.fn_exact(k)
            for c in b.calls:
                if c.cleanup:
                    continue
                if not re.search(r"::eq$|::ne$", c.nname):
                    continue
                for a_ in c.args:
                    if ("k" in a_ and str(a_["k"]).strip('"') == "timestamp") or any(l[0] == "const" and l[1].strip('"') == "timestamp" for l in b.origins(a_)):
                        hits.append((b, c))
        orch = [k for k in F.keys() if re.search(r"show::orchestrator::", k) and not k.startswith("bin:")]
        uses_tf = any(".time_field" in json.dumps(F.fn_exact(k).rec.get("blocks")) for k in orch)
        inst.sites.append("mark column looked up by the constant name `timestamp`: %d site(s); SHOW derives the delta's time column from the query's time field: %s" % (len(hits), uses_tf))
        if hits and uses_tf:
            bad.append(("mark-column-fixed-name", "the frame high-water mark is computed from the column named `timestamp` while SHOW applies it to the remembered query's USING field", sp(hits[0][0], hits[0][1].bb)))
        return bad
    ctx.run("C14.i", "K11 SIB", "materialize::store::codec::encoder vs show::orchestrator", "the mark and the delta filter refer to the same time column", i_)

    def j_(inst):
        # the SHOW pruner finds a zone's metadata by position (metas[zone_id]); the metadata writer therefore
        # has to keep the entries in zone-plan order
        pr = F.fn("MaterializationPruner::apply")
        positional = []
        for c in pr.find_calls(r"slice::get$"):
            if has_origin(pr.origins(c.args[1]), None, proj_contains=[".zone_id"]):
                positional.append(c)
        inst.sites = [sp(pr, c.bb) + " metas.get(zone_id)" for c in positional]
        if not positional:
            # lookup by key: order on disk is free
            inst.sites.append("pruner no longer looks zone metadata up by position: nothing to require of the writer")
            return []
        bad = []
        writers = [k for k in F.find(r"zone_metadata_writer::ZoneMetadataWriter::<'a>::write(_async)?(::\{closure#0\})?$") if F.fn_exact(k).find_calls(r"ZoneMeta::save(_async)?$")]
        if len(writers) < 2:
            raise AnchorMissing("ZoneMetadataWriter::write / write_async handing ZoneMeta::save(_async) the metadata (found %d)" % len(writers))
        for k in writers:
            b = F.fn_exact(k)
            inst.sites.append(sp(b, b.find_calls(r"ZoneMeta::save(_async)?$")[0].bb))
            for (sb_, c) in sort_sites(F, b, 3):
                if "ZoneMeta::save" in sb_.key or "ZoneMeta::load" in sb_.key:
                    continue
                bad.append(("metadata-reordered:%s" % k.split("::<'a>::")[-1].split("::{")[0], "%s reorders the zone metadata (%s in %s) before it is saved: MaterializationPruner::apply reads the entry at position zone_id, so SHOW judges a zone by another zone's time range and skips zones with rows it has not materialised" % (k.split("::{")[0].split("::")[-1], c.nname.split("::")[-1], sb_.key.split("::{")[0].split("::")[-1]), sp(sb_, c.bb)))
        seen, out = set(), []
        for x in bad:
            if x[0] not in seen:
                seen.add(x[0])
                out.append(x)
        return out
    ctx.run("C14.j", "K11 SIB + K4", "MaterializationPruner::apply vs ZoneMetadataWriter", "zone metadata is stored in zone-id order, the order the SHOW pruner indexes it by", j_)

    def k_(inst):
        # a stored frame gives back the value that went in: a zero-length cell is null only where the null bitmap says so;
        # for a String column a zero length is the empty string
        b = F.fn("codec::decoder::Decoder::decode")
        nulls = [bb for (bb, j_, v_, d_) in b.aggregates("ScalarValue", "Null")]
        zero = []
        for i_ in sorted(b.live_blocks()):
            if b.blocks[i_]["t"]["t"] != "switch":
                continue
            si = b.switch_info(i_)
            if si and si["kind"] == "bool" and si.get("def", {}).get("r") == "bin" and si["def"]["op"] == "Eq" and str(si["def"]["b"].get("k", "")).startswith("0_"):
                zero.append((i_, si))
        inst.sites = ["null cells built at %d sites, zero-length tests: %d" % (len(nulls), len(zero))]
        if not nulls:
            raise AnchorMissing("ScalarValue::Null in Decoder::decode")
        strcmp = []
        for c_ in b.calls:
            if not c_.cleanup and re.search(r"::(eq|ne)$", c_.nname) and any(l[0] == "const" and l[1].strip('"') == "String" for a_ in c_.args for l in b.origins(a_)):
                strcmp += bool_result_edge(b, c_, c_.nname.endswith("ne"))
        bad = []
        for i_, si in zero:
            for nb in nulls:
                if b.dominates_edge((i_, si["true"]), nb) and not any(b.dominates_edge(e, nb) for e in strcmp):
                    bad.append(("empty-string-read-as-null", "Decoder::decode turns every zero-length variable-size cell into Null, whatever the column type: an empty string (\"\") that QUERY returns comes back as null from SHOW once it is served from a stored frame", sp(b, nb)))
        return bad[:1]
    ctx.run("C14.k", "K8 GUARD", "materialize::store::codec::decoder::Decoder::decode", "an empty string survives the frame round trip", k_)

    def l_(inst):
        # REMEMBER keeps a row-based incremental view: a sequence query (pairs, LIMIT counted in sequences) cannot be refreshed
        # that way and is refused before anything is stored
        b = F.fn("remember::remember_query_with_data_dir")
        load = one(b, r"MaterializationCatalog::load$")
        seq = enum_switches_on(b, lambda L: has_origin(L, None, proj_contains=[".event_sequence"]), r"option::Option")
        lnk = enum_switches_on(b, lambda L: has_origin(L, None, proj_contains=[".link_field"]), r"option::Option")
        inst.sites = [sp(b, load.bb)] + [sp(b, i_) + " sequence test" for i_, _ in seq]
        if not seq:
            return [("remember-accepts-sequence", "REMEMBER stores the result of a sequence query like a selection: LIMIT is re-applied to rows (one sequence of a LIMIT 2), every SHOW appends further pairs as delta and a pair that straddles the high-water mark is returned by halves", sp(b, load.bb))]
        # after "has an event sequence" (and, if tested, "has a link field") the catalog is out of reach
        src = []
        for i_, si in seq:
            for t_ in edges_for_variant(si, "Some"):
                src.append((i_, t_))
        inner = [(i_, t_) for i_, si in lnk for t_ in edges_for_variant(si, "Some") if any(b.dominates_edge(e, i_) for e in src)]
        if inner:
            src = inner
        src = through_bool_join(b, src)
        if load.bb in b.reach(0, src_edges=src):
            return [("remember-accepts-sequence", "a command with an event sequence and a link field reaches the materialization catalog in remember_query_with_data_dir", sp(b, load.bb))]
        return []
    ctx.run("C14.l", "K2 CUT", "remember::remember_query_with_data_dir", "only selection queries are remembered", l_)
