"""C15 — sequence queries return exactly the linked, correctly ordered pairs: guard clauses only."""
from .util import *

EXPLANATION = """
Claimed narrowly. Decides guard shapes; does NOT decide the 'if and only if' (a later qualifying partner when the nearest fails WHERE) nor independence from storage placement.
a) match_followed_by: a pair is pushed only under Ge(ts_b, ts_a) and only on the true edge of matches_where_clause; match_preceded_by: only under Lt(ts_b, ts_a) and matches_where_clause == true;
   ts_a / ts_b are the timestamps of the head row and the partner row respectively; the WHERE check receives (a-row, b-row) in that order.
b) match_in_group routes FollowedBy -> match_followed_by and PrecededBy -> match_preceded_by (link table).
c) match_sequences tests `all_matches.len() >= limit` before processing a group and truncates after extending (LIMIT bounds the number of matched sequences).
"""
FLOOR = 4
REQUIRED = ["C15.a1", "C15.a2", "C15.b", "C15.c"]


def run(ctx):
    F = ctx.F

    def pair(name, want_op):
        def f(inst):
            b = F.fn(name)
            push = [p for p in b.find_calls(r"Vec::push$") if "MatchedSequenceIndices" in b.local_ty((p.args[1].get("m") or p.args[1].get("c"))[0])]
            if len(push) != 1:
                raise AnchorMissing("results.push(MatchedSequenceIndices) in %s (%d)" % (name, len(push)))
            p = push[0]
            wc = one(b, r"SequenceMatcher::matches_where_clause$")
            gts = calls(b, r"SequenceMatcher::get_timestamp$", 2)
            inst.sites = [sp(b, p.bb), sp(b, wc.bb)] + [sp(b, g.bb) for g in gts]

            # parameters: (&self, group, event_type_a, event_type_b, zones_by_event_type) -> locals 3 and 4 are the two sides
            def side_of(op):
                d = deep_locals(b, op, wide=True) | wide_all(b, op)
                s_ = set()
                if 3 in d:
                    s_.add("a")
                if 4 in d:
                    s_.add("b")
                return s_

            def side(L):
                for l in L:
                    if l[0] == "call" and "get_timestamp" in l[1]:
                        c = b.call_at(l[2])
                        s_ = side_of(c.args[2]) & side_of(c.args[1])
                        if len(s_) == 1:
                            return list(s_)[0]
                return None
            flip = {"Ge": "Le", "Le": "Ge", "Gt": "Lt", "Lt": "Gt"}
            neg = {"Ge": "Lt", "Lt": "Ge", "Gt": "Le", "Le": "Gt"}
            seen_guard = []

            def acc(op, A, B, truth):
                sa, sb = side(A), side(B)
                if sa is None or sb is None or sa == sb or op not in flip:
                    return False
                # normalise to op(ts_b, ts_a)
                o = op if (sa, sb) == ("b", "a") else flip[op]
                if not truth:
                    o = neg[o]
                seen_guard.append(o)
                return o == want_op
            g = cmp_guard(b, p.bb, acc)
            bad = []
            if not g:
                bad.append(("time-guard", "%s pushes a pair without the guard %s(ts_b, ts_a) (guards seen: %s)" % (name, want_op, sorted(set(seen_guard))), None))
            te = bool_result_edge(b, wc, True)
            if not any(b.dominates_edge(e, p.bb) for e in te):
                bad.append(("where-guard", "%s pushes a pair that did not pass matches_where_clause" % name, None))
            # WHERE gets two consistent (event type, zones, row) triples, one per side
            def sides(op):
                return side_of(op)
            tri = [[sides(wc.args[i]) for i in (1, 2, 3)], [sides(wc.args[i]) for i in (4, 5, 6)]]
            ok = all(len(x) == 1 for t in tri for x in t) and all(t[0] == t[1] == t[2] for t in tri) and tri[0][0] != tri[1][0]
            inst.sites.append("WHERE triples: %s" % tri)
            if not ok:
                bad.append(("where-args", "matches_where_clause is called with mixed-up (type, zones, row) triples %s" % tri, None))
            return bad
        return f
    ctx.run("C15.a1", "K8 GUARD + K1", "SequenceMatcher::match_followed_by", "FOLLOWED BY: partner at the same time or later, both sides pass WHERE", pair("SequenceMatcher::match_followed_by", "Ge"))
    ctx.run("C15.a2", "K8 GUARD + K1", "SequenceMatcher::match_preceded_by", "PRECEDED BY: partner strictly earlier, both sides pass WHERE", pair("SequenceMatcher::match_preceded_by", "Lt"))

    def b_(inst):
        b = F.fn("SequenceMatcher::match_in_group")
        sw = [(i, b.switch_info(i)) for i in sorted(b.live_blocks()) if b.blocks[i]["t"]["t"] == "switch"]
        sw = [(i, si) for i, si in sw if si and si["kind"] == "enum" and (si.get("adt") or "").endswith("SequenceLink")]
        if not sw:
            raise AnchorMissing("match on link_type")
        i, si = sw[0]
        a = arms(b, i)
        bad = []
        for v, fn in (("FollowedBy", "match_followed_by"), ("PrecededBy", "match_preceded_by")):
            got = sorted({c.nname.split("::")[-1] for c in calls_in(b, a.get(v, set()), r"SequenceMatcher::match_\w+_by$")})
            inst.sites.append("%s -> %s" % (v, got))
            if got != [fn]:
                bad.append(("link-table:%s" % v, "SequenceLink::%s is matched by %s" % (v, got), None))
        return bad
    ctx.run("C15.b", "K6 TABLE", "SequenceMatcher::match_in_group", "each link kind uses its own matcher", b_)

    def c(inst):
        b = F.fn("SequenceMatcher::match_sequences")
        mg = one(b, r"SequenceMatcher::match_in_group$")
        ext = one(b, r"Extend<.*>>::extend$|Vec::extend$|Extend>::extend$")
        tr = one(b, r"Vec::truncate$")
        inst.sites = [sp(b, mg.bb), sp(b, ext.bb), sp(b, tr.bb)]
        bad = []

        def acc(op, A, B, truth):
            la = any(l[0] == "call" and norm_path(l[1]).endswith("Vec::len") for l in A)
            lb = has_origin(B, "param", "limit") or "limit" in fmt_leaves(B)
            return la and lb and ((op == "Ge" and truth) or (op == "Lt" and not truth))
        if not cmp_guard(b, tr.bb, acc):
            bad.append(("truncate-guard", "truncate is not guarded by all_matches.len() >= limit", None))
        Lt = b.origins(tr.args[1])
        if "limit" not in fmt_leaves(Lt):
            bad.append(("truncate-to-limit", "matches are truncated to %s, not to the limit" % fmt_leaves(Lt), None))
        if not (b.can_reach(ext.bb, tr.bb)):
            bad.append(("truncate-before-extend", "truncate does not follow the extend of a group's matches", None))
        # pre-check: a Ge(len, limit) true edge leads out of the loop before match_in_group
        def acc2(op, A, B, truth):
            la = any(l[0] == "call" and norm_path(l[1]).endswith("Vec::len") for l in A)
            lb = "limit" in fmt_leaves(B)
            return la and lb and ((op == "Ge" and not truth) or (op == "Lt" and truth))
        lim_none = enum_switches_on(b, lambda L: has_origin(L, "param", "limit"), r"option::Option")
        cut = [(i, t) for i, si in lim_none for t in edges_for_variant(si, "None")]
        g = cmp_guard(b, mg.bb, acc2)
        if not g:
            # dominated by either the None edge of limit or the `< limit` edge: test as a cut
            cands = []
            for i in b.live_blocks():
                if b.blocks[i]["t"]["t"] != "switch":
                    continue
                si = b.switch_info(i)
                d = si.get("def") if si and si["kind"] == "bool" else None
                if d and d.get("r") == "bin" and acc2(d["op"], b.origins(d["a"]), b.origins(d["b"]), False) and si["false"] is not None:
                    cands.append((i, si["false"]))
                if d and d.get("r") == "bin" and acc2(d["op"], b.origins(d["a"]), b.origins(d["b"]), True) and si["true"] is not None:
                    cands.append((i, si["true"]))
            if not cands or mg.bb in b.reach(0, cut_edges=cut + cands):
                bad.append(("limit-precheck", "a group is matched although the limit was already reached", None))
        return bad
    ctx.run("C15.c", "K1 DOM", "SequenceMatcher::match_sequences", "LIMIT bounds the number of matched sequences", c)
