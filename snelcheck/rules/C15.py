"""C15 — sequence queries return exactly the linked, correctly ordered pairs: guard clauses only."""
from .util import *

EXPLANATION = """
Claimed narrowly. Decides guard shapes; does NOT decide the 'if and only if' (a later qualifying partner when the nearest fails WHERE) nor independence from storage placement.
a) match_followed_by: a pair is pushed only under Ge(ts_b, ts_a) and only on the true edge of matches_where_clause; match_preceded_by: only under Lt(ts_b, ts_a) and matches_where_clause == true;
   ts_a / ts_b are the timestamps of the head row and the partner row respectively; the WHERE check receives (a-row, b-row) in that order.
   a3: EVERY decision that compares an a-timestamp with a b-timestamp in either matcher - in the function or in a closure it passes to a search helper
   (partition_point, position, take_while ...) - tests the one boundary both link kinds share, {ts_b < ts_a | ts_b >= ts_a}; a comparison that lumps 'equal' with 'earlier'
   (Le(ts_b,ts_a), Gt(ts_b,ts_a) and their mirrored forms) moves a same-time partner to the wrong side whichever way the result is used. Comparisons that are only logged are ignored.
b) match_in_group routes FollowedBy -> match_followed_by and PrecededBy -> match_preceded_by (link table).
d) transform_where_clause_for_event_type (used by the per-type sub-query push-down AND by the matcher's WHERE evaluator) addresses a leaf to an event type only through
   parse_event_field: the field name of every Compare / In it builds comes either from the part after the first '.' returned by parse_event_field - and then only under
   `event_type_part == target_event_type` (whole-string equality; prefix / substring tests address `order_paid.x` to `order`) - or is the original, unqualified field.
   Followed through same-module helpers and Option::map-style closures, so extracting the leaf rewrite into a helper is not reported.
c) match_sequences tests `all_matches.len() >= limit` before processing a group and truncates after extending (LIMIT bounds the number of matched sequences).
"""
FLOOR = 6
REQUIRED = ["C15.a1", "C15.a2", "C15.a3", "C15.b", "C15.c", "C15.d"]


def run(ctx):
    F = ctx.F

    def pair(name, want_op):
        def f(inst):
            b = F.fn(name)
            push = [p for p in b.find_calls(r"Vec::push$") if "MatchedSequenceIndices" in b.local_ty((p.args[1].get("m") or p.args[1].get("c"))[0])]
            if len(push) != 1:
                raise AnchorMissing("results.push(MatchedSequenceIndices) in %s (%d)" % (name, len(push)))
            p = push[0]
            wc = one(b, r"SequenceMatcher::matches_where_clause$")
            gts = calls(b, r"SequenceMatcher::get_timestamp$", 2)
            inst.sites = [sp(b, p.bb), sp(b, wc.bb)] + [sp(b, g.bb) for g in gts]

            # parameters: (&self, group, event_type_a, event_type_b, zones_by_event_type) -> locals 3 and 4 are the two sides
            def side_of(op):
                d = deep_locals(b, op, wide=True) | wide_all(b, op)
                s_ = set()
                if 3 in d:
                    s_.add("a")
                if 4 in d:
                    s_.add("b")
                return s_

            def side(L):
                for l in L:
                    if l[0] == "call" and "get_timestamp" in l[1]:
                        c = b.call_at(l[2])
                        s_ = side_of(c.args[2]) & side_of(c.args[1])
                        if len(s_) == 1:
                            return list(s_)[0]
                return None
            flip = {"Ge": "Le", "Le": "Ge", "Gt": "Lt", "Lt": "Gt"}
            neg = {"Ge": "Lt", "Lt": "Ge", "Gt": "Le", "Le": "Gt"}
            seen_guard = []

            def acc(op, A, B, truth):
                sa, sb = side(A), side(B)
                if sa is None or sb is None or sa == sb or op not in flip:
                    return False
                # normalise to op(ts_b, ts_a)
                o = op if (sa, sb) == ("b", "a") else flip[op]
                if not truth:
                    o = neg[o]
                seen_guard.append(o)
                return o == want_op
            g = cmp_guard(b, p.bb, acc)
            bad = []
            if not g:
                bad.append(("time-guard", "%s pushes a pair without the guard %s(ts_b, ts_a) (guards seen: %s)" % (name, want_op, sorted(set(seen_guard))), None))
            te = bool_result_edge(b, wc, True)
            if not any(b.dominates_edge(e, p.bb) for e in te):
                bad.append(("where-guard", "%s pushes a pair that did not pass matches_where_clause" % name, None))
            # WHERE gets two consistent (event type, zones, row) triples, one per side
            def sides(op):
                return side_of(op)
            tri = [[sides(wc.args[i]) for i in (1, 2, 3)], [sides(wc.args[i]) for i in (4, 5, 6)]]
            ok = all(len(x) == 1 for t in tri for x in t) and all(t[0] == t[1] == t[2] for t in tri) and tri[0][0] != tri[1][0]
            inst.sites.append("WHERE triples: %s" % tri)
            if not ok:
                bad.append(("where-args", "matches_where_clause is called with mixed-up (type, zones, row) triples %s" % tri, None))
            return bad
        return f
    ctx.run("C15.a1", "K8 GUARD + K1", "SequenceMatcher::match_followed_by", "FOLLOWED BY: partner at the same time or later, both sides pass WHERE", pair("SequenceMatcher::match_followed_by", "Ge"))
    ctx.run("C15.a2", "K8 GUARD + K1", "SequenceMatcher::match_preceded_by", "PRECEDED BY: partner strictly earlier, both sides pass WHERE", pair("SequenceMatcher::match_preceded_by", "Lt"))

    def a3(inst):
        bad = []
        flip = {"Ge": "Le", "Le": "Ge", "Gt": "Lt", "Lt": "Gt"}
        n_cmp = 0
        for name in ("SequenceMatcher::match_followed_by", "SequenceMatcher::match_preceded_by"):
            P = F.fn(name)
            gts = calls(P, r"SequenceMatcher::get_timestamp$", 2)

            def side_of_parent(op):
                d = deep_locals(P, op, wide=True) | wide_all(P, op)
                return {s_ for s_, l in (("a", 3), ("b", 4)) if l in d}

            def ts_side_parent(op, seen=None):
                """'a' / 'b' when the operand is (derived from) get_timestamp(zones_<side>, row_<side>) in the parent"""
                out = set()
                for l in P.origins(op):
                    if l[0] == "call" and "get_timestamp" in l[1]:
                        c = P.call_at(l[2])
                        s_ = side_of_parent(c.args[1]) & side_of_parent(c.args[2])
                        out |= s_ if len(s_) == 1 else {"?"}
                return out
            # closures created in the parent: upvar name -> parent operand
            clos = []
            for i, blk in enumerate(P.blocks):
                for st in blk["s"]:
                    v = st.get("v")
                    if v and v.get("r") == "agg" and v.get("ak") == "closure":
                        ck = v.get("def")
                        clos.append((ck, v))
            bodies = [(P, None)]
            for ck, v in clos:
                if not ck or not F.has(ck):
                    continue
                C = F.fn_exact(ck)
                ups = C.rec.get("upvars") or []
                env = {}
                for idx, u in enumerate(ups):
                    nm = u if isinstance(u, str) else (u.get("n") if isinstance(u, dict) else None)
                    if nm is not None and idx < len(v["o"]):
                        env[nm] = v["o"][idx]
                bodies.append((C, env))

            def ts_side(B, env, op):
                if env is None:
                    return ts_side_parent(op)
                out = set()
                for l in B.origins(op):
                    if l[0] == "call" and "get_timestamp" in l[1]:
                        c = B.call_at(l[2])
                        ss = []
                        for a_ in (c.args[1], c.args[2]):
                            s_ = set()
                            for l2 in B.origins(a_):
                                if l2[0] == "upvar" and l2[1] in env:
                                    s_ |= side_of_parent(env[l2[1]])
                            ss.append(s_)
                        known = [x for x in ss if x]
                        s_ = set.intersection(*known) if known else set()
                        out |= s_ if len(s_) == 1 else {"?"}
                    elif l[0] == "upvar" and l[1] in env:
                        out |= ts_side_parent(env[l[1]])
                return out
            for B, env in bodies:
                decided = set()
                for i in B.live_blocks():
                    if B.blocks[i]["t"]["t"] == "switch":
                        si = B.switch_info(i)
                        if si and si["kind"] == "bool" and si.get("def") is not None:
                            decided.add(id(si["def"]))
                for i in sorted(B.live_blocks()):
                    for st in B.blocks[i]["s"]:
                        v = st.get("v")
                        if not v or v.get("r") != "bin" or v.get("op") not in flip:
                            continue
                        is_ret = env is not None and st["a"] == [0]
                        if id(v) not in decided and not is_ret:
                            continue
                        sa, sb = ts_side(B, env, v["a"]), ts_side(B, env, v["b"])
                        if not sa or not sb:
                            continue
                        n_cmp += 1
                        where = "%s @ %s" % (B.key.split("::")[-1] if env is not None else name.split("::")[-1], sp(B, i))
                        if "?" in sa | sb or len(sa) != 1 or len(sb) != 1 or sa == sb:
                            if sa == sb and len(sa) == 1:
                                continue  # b-vs-b / a-vs-a ordering, not a pairing decision
                            bad.append(("ts-cmp-unresolved:%s" % name.split("::")[-1], "cannot attribute the sides of a timestamp comparison at %s (%s vs %s)" % (where, sorted(sa), sorted(sb)), None))
                            continue
                        o = v["op"] if (list(sa)[0], list(sb)[0]) == ("b", "a") else flip[v["op"]]
                        inst.sites.append("%s: %s(ts_b, ts_a)" % (where, o))
                        if o not in ("Lt", "Ge"):
                            bad.append(("ts-boundary:%s:%s" % (name.split("::")[-1], o), "%s decides on %s(ts_b, ts_a): a partner at exactly the same time falls on the wrong side (both link kinds split at ts_b < ts_a | ts_b >= ts_a)" % (where, o), None))
        if n_cmp < 3:
            raise AnchorMissing("a/b timestamp decisions in the matchers (found %d, confirmed 3)" % n_cmp)
        return bad
    ctx.run("C15.a3", "K8 GUARD", "SequenceMatcher::match_{followed,preceded}_by (+closures)", "every a-vs-b time decision splits at ts_b < ts_a | ts_b >= ts_a", a3)

    def b_(inst):
        b = F.fn("SequenceMatcher::match_in_group")
        sw = [(i, b.switch_info(i)) for i in sorted(b.live_blocks()) if b.blocks[i]["t"]["t"] == "switch"]
        sw = [(i, si) for i, si in sw if si and si["kind"] == "enum" and (si.get("adt") or "").endswith("SequenceLink")]
        if not sw:
            raise AnchorMissing("match on link_type")
        i, si = sw[0]
        a = arms(b, i)
        bad = []
        for v, fn in (("FollowedBy", "match_followed_by"), ("PrecededBy", "match_preceded_by")):
            got = sorted({c.nname.split("::")[-1] for c in calls_in(b, a.get(v, set()), r"SequenceMatcher::match_\w+_by$")})
            inst.sites.append("%s -> %s" % (v, got))
            if got != [fn]:
                bad.append(("link-table:%s" % v, "SequenceLink::%s is matched by %s" % (v, got), None))
        return bad
    ctx.run("C15.b", "K6 TABLE", "SequenceMatcher::match_in_group", "each link kind uses its own matcher", b_)

    def c(inst):
        b = F.fn("SequenceMatcher::match_sequences")
        mg = one(b, r"SequenceMatcher::match_in_group$")
        ext = one(b, r"Extend<.*>>::extend$|Vec::extend$|Extend>::extend$")
        tr = one(b, r"Vec::truncate$")
        inst.sites = [sp(b, mg.bb), sp(b, ext.bb), sp(b, tr.bb)]
        bad = []

        def acc(op, A, B, truth):
            la = any(l[0] == "call" and norm_path(l[1]).endswith("Vec::len") for l in A)
            lb = has_origin(B, "param", "limit") or "limit" in fmt_leaves(B)
            return la and lb and ((op == "Ge" and truth) or (op == "Lt" and not truth))
        if not cmp_guard(b, tr.bb, acc):
            bad.append(("truncate-guard", "truncate is not guarded by all_matches.len() >= limit", None))
        Lt = b.origins(tr.args[1])
        if "limit" not in fmt_leaves(Lt):
            bad.append(("truncate-to-limit", "matches are truncated to %s, not to the limit" % fmt_leaves(Lt), None))
        if not (b.can_reach(ext.bb, tr.bb)):
            bad.append(("truncate-before-extend", "truncate does not follow the extend of a group's matches", None))
        # pre-check: a Ge(len, limit) true edge leads out of the loop before match_in_group
        def acc2(op, A, B, truth):
            la = any(l[0] == "call" and norm_path(l[1]).endswith("Vec::len") for l in A)
            lb = "limit" in fmt_leaves(B)
            return la and lb and ((op == "Ge" and not truth) or (op == "Lt" and truth))
        lim_none = enum_switches_on(b, lambda L: has_origin(L, "param", "limit"), r"option::Option")
        cut = [(i, t) for i, si in lim_none for t in edges_for_variant(si, "None")]
        g = cmp_guard(b, mg.bb, acc2)
        if not g:
            # dominated by either the None edge of limit or the `< limit` edge: test as a cut
            cands = []
            for i in b.live_blocks():
                if b.blocks[i]["t"]["t"] != "switch":
                    continue
                si = b.switch_info(i)
                d = si.get("def") if si and si["kind"] == "bool" else None
                if d and d.get("r") == "bin" and acc2(d["op"], b.origins(d["a"]), b.origins(d["b"]), False) and si["false"] is not None:
                    cands.append((i, si["false"]))
                if d and d.get("r") == "bin" and acc2(d["op"], b.origins(d["a"]), b.origins(d["b"]), True) and si["true"] is not None:
                    cands.append((i, si["true"]))
            if not cands or mg.bb in b.reach(0, cut_edges=cut + cands):
                bad.append(("limit-precheck", "a group is matched although the limit was already reached", None))
        return bad
    ctx.run("C15.c", "K1 DOM", "SequenceMatcher::match_sequences", "LIMIT bounds the number of matched sequences", c)

    def d(inst):
        T = F.fn("sequence::utils::transform_where_clause_for_event_type")
        mod = T.key.rsplit("::", 1)[0]
        # family: T, same-module functions it (transitively) calls, and the closures of all of them
        fam, todo = [], [T.key]
        while todo:
            k = todo.pop()
            if k in fam or not F.has(k):
                continue
            fam.append(k)
            B = F.fn_exact(k)
            for c in B.calls:
                if c.cleanup:
                    continue
                nn = c.nname
                if c.local and F.has(nn) and nn.rsplit("::", 1)[0] == mod:
                    todo.append(nn)
            for blk in B.blocks:
                for st in blk["s"]:
                    v = st.get("v")
                    if v and v.get("r") == "agg" and v.get("ak") == "closure" and v.get("def"):
                        todo.append(v["def"])
        bad, n_leaf, n_pef = [], 0, 0
        for k in fam:
            B = F.fn_exact(k)
            short = k[len(mod) + 2:]
            # (1) provenance of the field of every rewritten leaf
            for i in sorted(B.live_blocks()):
                for st in B.blocks[i]["s"]:
                    v = st.get("v")
                    if not v or v.get("r") != "agg" or v.get("ak") != "adt" or not str(v.get("adt", "")).endswith("types::Expr") or v.get("var") not in ("Compare", "In"):
                        continue
                    n_leaf += 1
                    fi = v["fields"].index("field")
                    L = deep_origins(F, B, v["o"][fi], stop=r"utils::parse_event_field$")
                    why = []
                    for l in L:
                        if l[0] == "call" and norm_path(l[1]).endswith("utils::parse_event_field"):
                            pr = [p_ for p_ in l[3] if p_ != "*"]
                            if ".1" not in pr:
                                why.append("the event-type part of parse_event_field")
                        elif l[0] == "param" and (l[2] and l[2][-1] == ".field" or not l[2]):
                            pass  # the original field (of the matched leaf, or a helper's own &str parameter mapped back by deep_origins)
                        elif l[0] == "upvar-of-closure":
                            pass
                        else:
                            why.append(fmt_leaves({l}))
                    inst.sites.append("%s @ %s: Expr::%s.field <- %s" % (short, sp(B, i), v.get("var"), fmt_leaves(L)))
                    if why:
                        bad.append(("leaf-field:%s" % v.get("var"), "%s builds Expr::%s whose field name comes from %s, not from parse_event_field / the original field" % (short, v.get("var"), "; ".join(sorted(set(why)))), None))
            # (2) the part after '.' is used only when the part before it EQUALS the target event type
            for c in B.find_calls(r"utils::parse_event_field$"):
                if c.cleanup:
                    continue
                n_pef += 1
                dl = c.dest[0]
                eqs = []
                for e in B.find_calls(r"PartialEq.*::eq$|PartialEq.*::ne$"):
                    oa, ob = B.origins(e.args[0]), B.origins(e.args[1])

                    def is_et(Ls):
                        return any(l[0] == "call" and l[2] == c.bb and ".0" in [p_ for p_ in l[3]][-1:] + [p_ for p_ in l[3]] and [p_ for p_ in l[3] if p_ in (".0", ".1")][-1:] == [".0"] for l in Ls)

                    def is_param(Ls):
                        return any(l[0] in ("param", "upvar") and not (l[2] and l[2][-1] == ".field") for l in Ls)
                    if (is_et(oa) and is_param(ob)) or (is_et(ob) and is_param(oa)):
                        eqs.append(e)
                te = []
                for e in eqs:
                    te += bool_result_edge(B, e, not e.nname.endswith("::ne"))
                # uses of the field-name part: statements moving/copying <dest>@Some.0.1
                for i in sorted(B.live_blocks()):
                    for st in B.blocks[i]["s"]:
                        v = st.get("v")
                        if not v or v.get("r") != "use":
                            continue
                        pl = v["o"].get("m") or v["o"].get("c")
                        if pl and pl[0] == dl and [p_ for p_ in pl[1:] if p_ in (".0", ".1")][-1:] == [".1"]:
                            tgt = st["a"][0]
                            if not eqs:
                                bad.append(("addressed-by-equality", "%s uses the part after '.' but never compares the part before it (%s) with the target event type by equality" % (short, sp(B, c.bb)), None))
                                continue
                            # where is the moved field name consumed?
                            for j in sorted(B.live_blocks()):
                                for st2 in B.blocks[j]["s"]:
                                    v2 = st2.get("v")
                                    if v2 and v2.get("r") in ("use", "agg") and j != i or (v2 and j == i and st2 is not st):
                                        ops = [v2["o"]] if v2.get("r") == "use" else (v2.get("o") or []) if v2.get("r") == "agg" else []
                                        for o_ in ops:
                                            p2 = (o_.get("m") or o_.get("c")) if isinstance(o_, dict) else None
                                            if p2 and p2[0] == tgt and not any(B.dominates_edge(e_, j) for e_ in te):
                                                bad.append(("field-name-without-equality", "%s uses the part after '.' (%s) on a path where the part before it was not found equal to the target event type" % (short, sp(B, j)), None))
        inst.sites.append("family: %s" % [k[len(mod) + 2:] for k in fam])
        if n_leaf < 2 or n_pef < 1:
            raise AnchorMissing("leaf rewrites in transform_where_clause_for_event_type (leaves built %d, parse_event_field calls %d; confirmed 4 / 2)" % (n_leaf, n_pef))
        return bad
    ctx.run("C15.d", "K7 PROV + K8 GUARD", "sequence::utils::transform_where_clause_for_event_type", "a WHERE leaf is addressed to an event type by whole-name equality only", d)
