"""C15 — sequence queries return exactly the linked, correctly ordered pairs: guard clauses only."""
from .util import *
from ..callgraph import CallGraph

EXPLANATION = """
Claimed narrowly. Decides guard shapes; does NOT decide the 'if and only if' (a later qualifying partner when the nearest fails WHERE) nor independence from storage placement.
a) match_followed_by: a pair is pushed only under Ge(ts_b, ts_a) and only on the true edge of matches_where_clause; match_preceded_by: only under Lt(ts_b, ts_a) and matches_where_clause == true;
   ts_a / ts_b are the timestamps of the head row and the partner row respectively; the WHERE check receives (a-row, b-row) in that order.
   a3: EVERY decision that compares an a-timestamp with a b-timestamp in either matcher - in the function or in a closure it passes to a search helper
   (partition_point, position, take_while ...) - tests the one boundary both link kinds share, {ts_b < ts_a | ts_b >= ts_a}; a comparison that lumps 'equal' with 'earlier'
   (Le(ts_b,ts_a), Gt(ts_b,ts_a) and their mirrored forms) moves a same-time partner to the wrong side whichever way the result is used. Comparisons that are only logged are ignored.
b) match_in_group routes FollowedBy -> match_followed_by and PrecededBy -> match_preceded_by (link table).
d) transform_where_clause_for_event_type (used by the per-type sub-query push-down AND by the matcher's WHERE evaluator) addresses a leaf to an event type only through
   parse_event_field: the field name of every Compare / In it builds comes either from the part after the first '.' returned by parse_event_field - and then only under
   `event_type_part == target_event_type` (whole-string equality; prefix / substring tests address `order_paid.x` to `order`) - or is the original, unqualified field.
   Followed through same-module helpers and Option::map-style closures, so extracting the leaf rewrite into a helper is not reported.
c) match_sequences tests `all_matches.len() >= limit` before processing a group and truncates after extending (LIMIT bounds the number of matched sequences).
"""
FLOOR = 18
REQUIRED = ["C15.a1", "C15.a2", "C15.a3", "C15.b", "C15.c", "C15.d", "C15.e", "C15.f", "C15.g", "C15.h", "C15.i", "C15.j", "C15.k", "C15.l", "C15.m", "C15.n", "C15.o", "C15.p"]


def run(ctx):
    F = ctx.F

    def where_site(b):
        """How a matcher applies WHERE to a candidate pair. Either it calls matches_where_clause itself ('direct'), or it hands
        a closure that calls it to a search adaptor (Iterator::find / position / rfind ...: 'search') and goes on with the
        candidate found. Returns dict(mode, wc, body (where wc lives), env (upvar name -> parent operand), guard (edges in b on
        which WHERE is known to have passed), fc (the search call), closure (its body))."""
        direct = [c for c in b.calls if not c.cleanup and c.nname.endswith("SequenceMatcher::matches_where_clause")]
        if len(direct) == 1:
            return {"mode": "direct", "wc": direct[0], "body": b, "env": None, "guard": bool_result_edge(b, direct[0], True), "fc": None}
        if len(direct) > 1:
            raise AnchorMissing("one matches_where_clause call in %s (%d)" % (b.key, len(direct)))
        found = []
        for i, blk in enumerate(b.blocks):
            for st in blk["s"]:
                v = st.get("v")
                if v and v.get("r") == "agg" and v.get("ak") == "closure" and v.get("def") and F.has(v["def"]):
                    C = F.fn_exact(v["def"])
                    wcs = [c for c in C.calls if not c.cleanup and c.nname.endswith("SequenceMatcher::matches_where_clause")]
                    if wcs:
                        found.append((C, wcs, v, st["a"][0]))
        if len(found) != 1 or len(found[0][1]) != 1:
            raise AnchorMissing("matches_where_clause in %s or in one closure it passes to a search adaptor (%d)" % (b.key, len(found)))
        C, wcs, v, cl_local = found[0]
        ups = C.rec.get("upvars") or []
        env = {}
        for idx, u in enumerate(ups):
            nm = u if isinstance(u, str) else (u.get("n") if isinstance(u, dict) else None)
            if nm is not None and idx < len(v["o"]):
                env[nm] = v["o"][idx]
        fcs = [c for c in b.calls if not c.cleanup and re.search(r"Iterator>::(find|rfind|position|rposition|find_map)$|Iterator::(find|rfind|position|find_map)$", c.nname)
               and any(cl_local in b._origin_locals(a_) for a_ in c.args[1:])]
        if len(fcs) != 1:
            raise AnchorMissing("the search adaptor the WHERE closure of %s is passed to (%d)" % (b.key, len(fcs)))
        fc = fcs[0]
        # the closure answers true only with the answer of matches_where_clause
        rets = C.origins({"m": [0]}) | C.origins({"c": [0]})
        okret = all((l[0] == "const" and str(l[1]).startswith("false")) or (l[0] == "call" and l[2] == wcs[0].bb) for l in rets)
        guard = []
        try:
            guard += variant_edge(b, fc, "Some", all_=True)
        except AnchorMissing:
            pass
        for c in b.calls:
            if not c.cleanup and c.nname.endswith("Option::is_some") and (b._origin_locals(c.args[0]) & {l for l, _ in b.flow_forward(fc.dest)}):
                guard += bool_result_edge(b, c, True)
        return {"mode": "search", "wc": wcs[0], "body": C, "env": env, "guard": guard if okret else [], "fc": fc, "okret": okret}

    def pair(name, want_op):
        def f(inst):
            b = F.fn(name)
            push = [p for p in b.find_calls(r"Vec::push$") if "MatchedSequenceIndices" in b.local_ty((p.args[1].get("m") or p.args[1].get("c"))[0])]
            if len(push) != 1:
                raise AnchorMissing("results.push(MatchedSequenceIndices) in %s (%d)" % (name, len(push)))
            p = push[0]
            ws = where_site(b)
            wc = ws["wc"]
            gts = calls(b, r"SequenceMatcher::get_timestamp$", 2)
            inst.sites = [sp(b, p.bb), "WHERE applied %s @ %s" % ("in the matcher" if ws["mode"] == "direct" else "by a closure handed to %s" % ws["fc"].nname.split("::")[-1], sp(ws["body"], wc.bb))] + [sp(b, g.bb) for g in gts]

            # parameters: (&self, group, event_type_a, event_type_b, zones_by_event_type) -> locals 3 and 4 are the two sides
            def side_of(op):
                d = deep_locals(b, op, wide=True) | wide_all(b, op)
                s_ = set()
                if 3 in d:
                    s_.add("a")
                if 4 in d:
                    s_.add("b")
                return s_

            def side(L):
                for l in L:
                    if l[0] == "call" and "get_timestamp" in l[1]:
                        c = b.call_at(l[2])
                        s_ = side_of(c.args[2]) & side_of(c.args[1])
                        if len(s_) == 1:
                            return list(s_)[0]
                return None
            flip = {"Ge": "Le", "Le": "Ge", "Gt": "Lt", "Lt": "Gt"}
            neg = {"Ge": "Lt", "Lt": "Ge", "Gt": "Le", "Le": "Gt"}
            seen_guard = []

            def acc(op, A, B, truth):
                sa, sb = side(A), side(B)
                if sa is None or sb is None or sa == sb or op not in flip:
                    return False
                # normalise to op(ts_b, ts_a)
                o = op if (sa, sb) == ("b", "a") else flip[op]
                if not truth:
                    o = neg[o]
                seen_guard.append(o)
                return o == want_op
            g = cmp_guard(b, p.bb, acc)
            bad = []
            if not g:
                bad.append(("time-guard", "%s pushes a pair without the guard %s(ts_b, ts_a) (guards seen: %s)" % (name, want_op, sorted(set(seen_guard))), None))
            te = ws["guard"]
            if not te or not any(b.dominates_edge(e, p.bb) for e in te):
                bad.append(("where-guard", "%s pushes a pair that did not pass matches_where_clause" % name, None))
            # WHERE gets two consistent (event type, zones, row) triples, one per side
            def sides(op):
                if ws["mode"] == "direct":
                    return side_of(op)
                C = ws["body"]
                out = set()
                for l2 in C.origins(op):
                    if l2[0] == "upvar" and l2[1] in ws["env"]:
                        out |= side_of(ws["env"][l2[1]])
                    elif l2[0] == "param" and l2[1] != "self":
                        # the candidate the adaptor feeds the closure: an element of the searched list
                        out |= side_of(ws["fc"].args[0])
                return out
            tri = [[sides(wc.args[i]) for i in (1, 2, 3)], [sides(wc.args[i]) for i in (4, 5, 6)]]
            ok = all(len(x) == 1 for t in tri for x in t) and all(t[0] == t[1] == t[2] for t in tri) and tri[0][0] != tri[1][0]
            inst.sites.append("WHERE triples: %s" % tri)
            if not ok:
                bad.append(("where-args", "matches_where_clause is called with mixed-up (type, zones, row) triples %s" % tri, None))
            return bad
        return f
    ctx.run("C15.a1", "K8 GUARD + K1", "SequenceMatcher::match_followed_by", "FOLLOWED BY: partner at the same time or later, both sides pass WHERE", pair("SequenceMatcher::match_followed_by", "Ge"))
    ctx.run("C15.a2", "K8 GUARD + K1", "SequenceMatcher::match_preceded_by", "PRECEDED BY: partner strictly earlier, both sides pass WHERE", pair("SequenceMatcher::match_preceded_by", "Lt"))

    def a3(inst):
        bad = []
        flip = {"Ge": "Le", "Le": "Ge", "Gt": "Lt", "Lt": "Gt"}
        n_cmp = 0
        for name in ("SequenceMatcher::match_followed_by", "SequenceMatcher::match_preceded_by"):
            P = F.fn(name)
            gts = calls(P, r"SequenceMatcher::get_timestamp$", 2)

            def side_of_parent(op):
                d = deep_locals(P, op, wide=True) | wide_all(P, op)
                return {s_ for s_, l in (("a", 3), ("b", 4)) if l in d}

            def ts_side_parent(op, seen=None):
                """'a' / 'b' when the operand is (derived from) get_timestamp(zones_<side>, row_<side>) in the parent"""
                out = set()
                for l in P.origins(op):
                    if l[0] == "call" and "get_timestamp" in l[1]:
                        c = P.call_at(l[2])
                        s_ = side_of_parent(c.args[1]) & side_of_parent(c.args[2])
                        out |= s_ if len(s_) == 1 else {"?"}
                return out
            # closures created in the parent: upvar name -> parent operand
            clos = []
            for i, blk in enumerate(P.blocks):
                for st in blk["s"]:
                    v = st.get("v")
                    if v and v.get("r") == "agg" and v.get("ak") == "closure":
                        ck = v.get("def")
                        clos.append((ck, v))
            bodies = [(P, None)]
            for ck, v in clos:
                if not ck or not F.has(ck):
                    continue
                C = F.fn_exact(ck)
                ups = C.rec.get("upvars") or []
                env = {}
                for idx, u in enumerate(ups):
                    nm = u if isinstance(u, str) else (u.get("n") if isinstance(u, dict) else None)
                    if nm is not None and idx < len(v["o"]):
                        env[nm] = v["o"][idx]
                bodies.append((C, env))

            def ts_side(B, env, op):
                if env is None:
                    return ts_side_parent(op)
                out = set()
                for l in B.origins(op):
                    if l[0] == "call" and "get_timestamp" in l[1]:
                        c = B.call_at(l[2])
                        ss = []
                        for a_ in (c.args[1], c.args[2]):
                            s_ = set()
                            for l2 in B.origins(a_):
                                if l2[0] == "upvar" and l2[1] in env:
                                    s_ |= side_of_parent(env[l2[1]])
                            ss.append(s_)
                        known = [x for x in ss if x]
                        s_ = set.intersection(*known) if known else set()
                        out |= s_ if len(s_) == 1 else {"?"}
                    elif l[0] == "upvar" and l[1] in env:
                        out |= ts_side_parent(env[l[1]])
                return out
            for B, env in bodies:
                decided = set()
                for i in B.live_blocks():
                    if B.blocks[i]["t"]["t"] == "switch":
                        si = B.switch_info(i)
                        if si and si["kind"] == "bool" and si.get("def") is not None:
                            decided.add(id(si["def"]))
                for i in sorted(B.live_blocks()):
                    for st in B.blocks[i]["s"]:
                        v = st.get("v")
                        if not v or v.get("r") != "bin" or v.get("op") not in flip:
                            continue
                        is_ret = env is not None and st["a"] == [0]
                        if id(v) not in decided and not is_ret:
                            continue
                        sa, sb = ts_side(B, env, v["a"]), ts_side(B, env, v["b"])
                        if not sa or not sb:
                            continue
                        n_cmp += 1
                        where = "%s @ %s" % (B.key.split("::")[-1] if env is not None else name.split("::")[-1], sp(B, i))
                        if "?" in sa | sb or len(sa) != 1 or len(sb) != 1 or sa == sb:
                            if sa == sb and len(sa) == 1:
                                continue  # b-vs-b / a-vs-a ordering, not a pairing decision
                            bad.append(("ts-cmp-unresolved:%s" % name.split("::")[-1], "cannot attribute the sides of a timestamp comparison at %s (%s vs %s)" % (where, sorted(sa), sorted(sb)), None))
                            continue
                        o = v["op"] if (list(sa)[0], list(sb)[0]) == ("b", "a") else flip[v["op"]]
                        inst.sites.append("%s: %s(ts_b, ts_a)" % (where, o))
                        if o not in ("Lt", "Ge"):
                            bad.append(("ts-boundary:%s:%s" % (name.split("::")[-1], o), "%s decides on %s(ts_b, ts_a): a partner at exactly the same time falls on the wrong side (both link kinds split at ts_b < ts_a | ts_b >= ts_a)" % (where, o), None))
        if n_cmp < 3:
            raise AnchorMissing("a/b timestamp decisions in the matchers (found %d, confirmed 3)" % n_cmp)
        return bad
    ctx.run("C15.a3", "K8 GUARD", "SequenceMatcher::match_{followed,preceded}_by (+closures)", "every a-vs-b time decision splits at ts_b < ts_a | ts_b >= ts_a", a3)

    def b_(inst):
        b = F.fn("SequenceMatcher::match_in_group")
        sw = [(i, b.switch_info(i)) for i in sorted(b.live_blocks()) if b.blocks[i]["t"]["t"] == "switch"]
        sw = [(i, si) for i, si in sw if si and si["kind"] == "enum" and (si.get("adt") or "").endswith("SequenceLink")]
        if not sw:
            raise AnchorMissing("match on link_type")
        i, si = sw[0]
        a = arms(b, i)
        bad = []
        for v, fn in (("FollowedBy", "match_followed_by"), ("PrecededBy", "match_preceded_by")):
            got = sorted({c.nname.split("::")[-1] for c in calls_in(b, a.get(v, set()), r"SequenceMatcher::match_\w+_by$")})
            inst.sites.append("%s -> %s" % (v, got))
            if got != [fn]:
                bad.append(("link-table:%s" % v, "SequenceLink::%s is matched by %s" % (v, got), None))
        return bad
    ctx.run("C15.b", "K6 TABLE", "SequenceMatcher::match_in_group", "each link kind uses its own matcher", b_)

    def j_(inst):
        """A sequence result holds events of two types with different payload fields. The result schema must take its payload columns
        from every matched event (a loop over the events), not from the first one."""
        bad = []
        m = F.fn("SequenceStreamMerger::create_result_stream")
        specs = [c for c in m.calls if not c.cleanup and c.nname.endswith("Vec::push") and any(l[0] == "agg" and l[1].endswith("ColumnSpec") for l in m.origins(c.args[1]))]
        if not specs:
            raise AnchorMissing("columns.push(ColumnSpec{..}) in create_result_stream")
        ok = False
        for c in specs:
            # the field name of the pushed spec comes from a payload map ...
            names = set()
            for (bb, jx, v, dst) in m.aggregates("ColumnSpec"):
                if bb != [l for l in m.origins(c.args[1]) if l[0] == "agg"][0][2]:
                    continue
                o = dict(zip(v.get("fields", []), v["o"])).get("name")
                for l in m.origins(o):
                    names.add(l)
            for l in names:
                if l[0] != "call" or not l[1].endswith("::next"):
                    continue
                # ... iterated inside a loop whose map is `.payload` of an element of a loop over the events
                inner = m.call_at(l[2])
                for x in set(m.origins(inner.args[0])) | set(m.origins(inner.args[0], transparent=NEXT_TRANSPARENT)):
                    if x[0] == "call" and x[1].endswith("::next") and len(x) > 3 and ".payload" in x[3]:
                        outer = m.call_at(x[2])
                        if any(y[0] in ("upvar", "param") and y[1] == "events" and not any(str(e).startswith("[") for e in (y[2] if len(y) > 2 else ())) for y in set(m.origins(outer.args[0])) | set(m.origins(outer.args[0], transparent=NEXT_TRANSPARENT))):
                            ok = True
                            inst.sites.append("payload columns from a loop over all events @ %s" % sp(m, outer.bb))
                    elif x[0] in ("upvar", "param") and len(x) > 2 and any(str(e).startswith("[") for e in x[2]):
                        inst.sites.append("payload columns from one indexed event %s" % (x[2],))
                    elif x[0] in ("upvar", "param") and x[1] == "events" and len(x) > 2 and ".payload" in x[2] and "@Some" in x[2]:
                        # seen through the outer loop's next(): an element of a loop over the events
                        ok = True
                        inst.sites.append("payload columns from a loop over all events (%s)" % (x[2],))
        if not ok:
            bad.append(("schema-from-first-event", "create_result_stream takes the payload columns of the result from one event: the fields only the other event type of the sequence has are dropped", sp(m, specs[-1].bb)))
        return bad
    ctx.run("C15.j", "K9 LOOP", "SequenceStreamMerger::create_result_stream", "the result schema covers the payload fields of every matched event", j_)

    def k_(inst):
        # the group key of a row is a function of that row's link value alone: two events with the same link
        # value get the same key whatever zone, shard or position they are read from
        b = F.fn("ColumnarGrouper::process_zones_for_event_type")
        ex = one(b, r"ColumnarGrouper::extract_link_value$")
        ky = one(b, r"ColumnarGrouper::scalar_to_key$")
        cg = CallGraph(F)
        READS = re.compile(r"FieldAccessor>::get_\w+_at$|PreparedAccessor::get_\w+_at$|ColumnValues::get_\w+_at$")
        inst.sites = [sp(b, ex.bb), sp(b, ky.bb)]
        bad = []

        def reads_rows(callee):
            return callee in cg.nodes and any(READS.search(norm_path(t)) for t in cg.reachable([callee]))
        for c in (ex, ky):
            for idx, a_ in enumerate(c.args):
                for l in b.origins(a_):
                    if l[0] != "call":
                        continue
                    lc = b.call_at(l[2])
                    if lc is None or lc.bb == ex.bb:
                        continue
                    if lc.callee and reads_rows(lc.callee):
                        bad.append(("row-key-depends-on-zone:%s" % lc.nname.split("::")[-1], "%s is given a value computed by %s, which reads rows of the zone: the key of a link value then depends on which other rows share its zone (storage context, shard, flush state), and equal link values stop pairing" % (c.nname.split("::")[-1], lc.nname.split("::")[-1]), sp(b, lc.bb)))
        e = F.fn("ColumnarGrouper::extract_link_value")
        nread = 0
        for c in e.calls:
            if c.cleanup or not READS.search(norm_path(c.nname)):
                continue
            nread += 1
            L = e.origins(c.args[-1])
            if not all(l[0] == "param" and l[1] == e.local_name(3) for l in L):
                bad.append(("link-read-at-other-row", "extract_link_value reads the column at %s, not at the row it was asked for" % fmt_leaves(L), sp(e, c.bb)))
        if nread < 3:
            raise AnchorMissing("column reads in extract_link_value (%d)" % nread)
        return bad
    ctx.run("C15.k", "K7 PROV", "ColumnarGrouper::process_zones_for_event_type / extract_link_value", "a row's group key is computed from that row alone", k_)

    def l_(inst):
        # the merged column of a sequence side concatenates the batches of all shards: a position written into a
        # buffer that spans the batches must come from a counter that spans them too
        b = F.fn("SequenceStreamMerger::batches_to_zones")
        bad, n = [], 0
        for c in b.calls:
            if c.cleanup or not re.search(r"IndexMut>::index_mut$|IndexMut::index_mut$", c.nname):
                continue
            n += 1
            allocs = [l[2] for l in b.origins(c.args[0]) if l[0] in ("call", "agg")]
            inst.sites.append(sp(b, c.bb) + " buffer <- " + fmt_leaves(b.origins(c.args[0])))
            AL = arith_origins(b, c.args[1])
            restarting = [l for l in AL if l[0] == "call" and re.search(r"Iterator>::next$|Iterator::next$|range::<impl .*>::next$", l[1])]
            # a running offset added to the per-batch counter (base + row) makes the position global again
            if [l for l in AL if l not in restarting and l[0] != "const"]:
                continue
            for l in restarting:
                nx = b.call_at(l[2])
                for l2 in b.origins(nx.args[0]):
                    if l2[0] in ("call", "agg") and allocs and in_cycle(b, l2[2], cut_blocks=allocs):
                        bad.append(("batch-local-index", "batches_to_zones writes a buffer that spans all batches at a position counted by an iterator that restarts with every batch (%s): a null in a later batch marks a row of the first batch, whose time then reads as 0 and flips the order of an unrelated pair" % fmt_leaves({l2}), sp(b, c.bb)))
        if n < 1:
            raise AnchorMissing("indexed write (null bitmap) in batches_to_zones")
        seen, out = set(), []
        for x in bad:
            if x[0] not in seen:
                seen.add(x[0])
                out.append(x)
        return out
    ctx.run("C15.l", "K9 LOOP + K7", "SequenceStreamMerger::batches_to_zones", "positions in the merged time column count rows across all batches", l_)

    def m_(inst):
        # an event may be the partner in several matched sequences: the response of a sequence query is not de-duplicated by event id
        b = F.fn("QueryCommandHandler::handle")
        nw = one(b, r"QueryResponseWriter::new$")
        wr = [c_ for c_ in b.find_calls(r"QueryResponseWriter::write$")]
        if not wr:
            raise AnchorMissing("QueryResponseWriter::write in QueryCommandHandler::handle")
        rw = F.fn("QueryResponseWriter::try_accept_row")
        dedups = self_fields_read(rw) & {".event_id_idx", ".seen_event_ids", ".seen_ids"}
        inst.sites = [sp(b, nw.bb), "try_accept_row reads %s" % sorted(dedups)]
        if not dedups:
            inst.sites.append("the response writer does not de-duplicate by event id: nothing to require")
            return []
        off = b.find_calls(r"QueryResponseWriter::with_repeated_event_ids$")
        seqs = [c_ for c_ in b.find_calls(r"QueryExecutionPipeline::is_sequence_query$")]
        te = [e for c_ in seqs for e in bool_result_edge(b, c_, True) if any(b.dominates_edge(e, o.bb) for o in off)]
        if not off or not te:
            return [("sequence-rows-deduplicated", "QueryCommandHandler::handle writes a sequence result through a response writer that drops rows with an event id it has already written: an event that is the partner in several sequences is returned once, the other sequences lose half a pair", sp(b, wr[0].bb))]
        # on the sequence edge the write is reached only through the switch-off
        for w in wr:
            seen = b.reach(0, src_edges=te, cut_blocks=[o.bb for o in off])
            if w.bb in seen:
                return [("sequence-rows-deduplicated", "on the sequence path QueryResponseWriter::write can be reached without with_repeated_event_ids()", sp(b, w.bb))]
        return []
    ctx.run("C15.m", "K2 CUT", "QueryCommandHandler::handle (sequence response)", "every matched sequence is returned whole, shared events included", m_)

    def n_(inst):
        # a numeric condition on a float field sees fractional values on both row paths of a sequence query
        bad = []
        b = F.fn("SequenceWhereEvaluator::evaluate_row")
        er = one(b, r"ConditionEvaluator::evaluate_row_at$")
        ty = None
        for a_ in er.args[1:]:
            for l_ in sorted(b._origin_locals(a_)):
                t_ = b.local_ty(l_) or ""
                m_ = re.search(r"([A-Za-z_0-9]+Accessor)\b", t_)
                if m_ and "dyn " not in t_ and not t_.startswith("&"):
                    ty = m_.group(1)
        inst.sites = [sp(b, er.bb) + " accessor type %s" % ty]
        if ty is None:
            raise AnchorMissing("accessor type handed to evaluate_row_at in SequenceWhereEvaluator::evaluate_row")
        gk = F.find(r"^<.*::%s(<'a>)? as .*FieldAccessor>::get_f64_at" % re.escape(ty))
        parses = False
        for k in gk:
            for c_ in F.fn_exact(k).calls:
                if not c_.cleanup and re.search(r"str::parse$|FromStr>::from_str$", c_.nname) and "f64" in (c_.name + " " + str(c_.ga or "")):
                    parses = True
        typed_zone = False
        if not parses:
            # acceptable alternative: the merger keeps float columns typed (then PreparedAccessor's own f64 view works)
            bz = F.fn("SequenceStreamMerger::batches_to_zones")
            typed_zone = any(not c_.cleanup and re.search(r"f64::to_le_bytes$|ColumnValues::new_typed_f64$", c_.nname) for c_ in bz.calls)
        if not parses and not typed_zone:
            bad.append(("float-where-through-i64:%s" % ty, "the sequence WHERE is evaluated on the merger's text zones through %s, whose get_f64_at has no reading for rendered text: a fractional value (80.25) has no i64 reading either, so the row fails every operator" % ty, sp(b, er.bb)))
        ed = F.method("NumericCondition", "Condition", "evaluate_event_direct")
        lanes = sorted({c_.nname.split("::")[-1] for c_ in ed.calls if not c_.cleanup and "get_field_as_" in c_.nname})
        inst.sites.append("evaluate_event_direct lanes: %s" % lanes)
        if "get_field_as_f64" not in lanes:
            bad.append(("float-where-through-i64:memtable", "NumericCondition::evaluate_event_direct reads a memtable row's field as i64 only: a sub-query of a sequence drops unflushed rows with fractional values", None))
        return bad
    ctx.run("C15.n", "K10 READS", "SequenceWhereEvaluator::evaluate_row / NumericCondition::evaluate_event_direct", "fractional float values take part in a sequence WHERE", n_)

    def o_(inst):
        # a link value is keyed by what it is: the text of a string column must not be read as a number first
        e = F.fn("ColumnarGrouper::extract_link_value")
        lf = lambda c_: has_origin(e.origins(c_.args[1]), None, proj_contains=[".link_field"])
        gi = [c_ for c_ in e.calls if not c_.cleanup and re.search(r"get_i64_at$", c_.nname) and lf(c_)]
        gs = [c_ for c_ in e.calls if not c_.cleanup and re.search(r"get_str_at$", c_.nname) and lf(c_)]
        inst.sites = [sp(e, c_.bb) + " i64 reading" for c_ in gi] + [sp(e, c_.bb) + " text reading" for c_ in gs]
        if not gs:
            raise AnchorMissing("text reading of the link field in extract_link_value")
        seen = e.reach(0, cut_blocks=[c_.bb for c_ in gs])
        if any(c_.bb in seen for c_ in gi):
            return [("link-text-read-as-number", "extract_link_value asks for the i64 reading of the link column before its text: the merger's zones hold every column as text and get_i64_at parses it, so the string link values \"007\" and \"7\" (or \"1.50\" and \"1.5\" after FLUSH) fall into one group", sp(e, gi[0].bb))]
        return []
    ctx.run("C15.o", "K10 READS", "ColumnarGrouper::extract_link_value", "string link values are grouped by their text", o_)

    def p_(inst):
        # pushing a WHERE down to one event type: an OR with a side that belongs to the other type restricts nothing for
        # this type (keeping the own side alone turns `A.x OR B.y` into `A.x AND B.y` once both halves are applied)
        b = F.fn("sequence::utils::transform_where_clause_for_event_type")
        sw = param_enum_switches(b, r"types::Expr$", b.local_name(1))
        if not sw:
            raise AnchorMissing("match on the expression in transform_where_clause_for_event_type")
        i_, si = sw[0]
        a = arms(b, i_)
        if "Or" not in a:
            raise AnchorMissing("Or arm")
        bad = []
        for (bb, j_, v_, d_) in b.aggregates("option::Option", "Some"):
            if d_ != [0] or bb not in a["Or"]:
                continue
            L = b.origins(v_["o"][0])
            inst.sites.append(sp(b, bb) + " Or arm returns " + fmt_leaves(L)[:70])
            if any(l[0] == "call" and norm_path(l[1]).endswith("transform_where_clause_for_event_type") for l in L):
                bad.append(("or-half-kept", "for `A.x OR B.y` transform_where_clause_for_event_type keeps `x` alone for type A and `y` alone for type B; both halves are then applied (sub-query and matcher), so the OR is evaluated as AND: a pair that satisfies one side only is lost, and `NOT (A.x AND B.y)` becomes `NOT A.x AND NOT B.y`", sp(b, bb)))
        return bad[:1]
    ctx.run("C15.p", "K6 TABLE", "sequence::utils::transform_where_clause_for_event_type (Or arm)", "a cross-event OR is not narrowed to one of its sides", p_)

    def f_(inst):
        """Times are signed (events before 1970 have negative epoch seconds). The matcher and the grouper order rows by the i64 the
        accessor returns; casting it to u64 makes every negative time sort after all others and breaks the sorted precondition
        of the two-pointer walk."""
        bad = []
        n = 0
        for k in sorted(F.keys()):
            if not re.search(r"^engine::core::read::sequence::(matcher|group)::", k) or k.startswith("bin:") or "_test" in k or "::tests::" in k:
                continue
            b = F.fn_exact(k)
            for c in b.calls:
                if not c.cleanup and c.nname.endswith("get_i64_at"):
                    n += 1
            for i in sorted(b.live_blocks()):
                for st in b.blocks[i]["s"]:
                    v = st.get("v")
                    if not (v and v.get("r") == "cast" and len(st.get("a", [])) == 1 and b.local_ty(st["a"][0]) in ("u64", "usize", "u32")):
                        continue
                    pl = v["o"].get("m") or v["o"].get("c")
                    if not pl or b.local_ty(pl[0]) != "i64":
                        continue
                    L = b.origins(v["o"])
                    src = [l for l in L if l[0] == "call" and norm_path(l[1]).endswith("get_i64_at")]
                    # the time lane: read with the configured time field (self.time_field) or the literal "timestamp"
                    for l in src:
                        c = b.call_at(l[2])
                        fl = b.origins(c.args[1]) if len(c.args) > 1 else []
                        if any((x[0] in ("param", "upvar") and len(x) > 2 and ".time_field" in x[2]) or (x[0] == "const" and "timestamp" in str(x[1])) for x in fl):
                            bad.append(("time-cast-unsigned:%s" % k.split("::{closure")[0].split("::")[-1], "%s casts the i64 time of a row to an unsigned integer: a time before 1970 sorts after every other time" % k.split("::")[-1], sp(b, i)))
        if n < 3:
            raise AnchorMissing("get_i64_at reads in sequence::matcher / sequence::group (found %d)" % n)
        inst.sites.append("%d get_i64_at reads in sequence::{matcher,group}" % n)
        return bad
    ctx.run("C15.f", "K7 PROV", "sequence::matcher / sequence::group time reads", "row times are ordered as signed values", f_)

    def g_(inst):
        """The per-type sub-query results reach the grouper as text zones: batches_to_zones renders every cell through
        scalar_to_string, which spells NULL as a marker text. A row without a link value must not be grouped (`same value of k`):
        extract_link_value has to treat that marker - and the empty text a flushed NULL string comes back as - as `no value`."""
        bad = []
        st_ = F.fn("sequence::utils::scalar_to_string")
        sw = param_enum_switches(st_, r"ScalarValue$", "value")
        if not sw:
            raise AnchorMissing("match on the ScalarValue in scalar_to_string")
        a = arms(st_, sw[0][0])
        markers = set()
        for c in st_.calls:
            if not c.cleanup and c.bb in a.get("Null", set()):
                for x in c.args:
                    if "k" in x and str(x["k"]).startswith('"'):
                        markers.add(x["k"].strip('"'))
        for i in a.get("Null", set()):
            for s2 in st_.blocks[i]["s"]:
                v = s2.get("v")
                if v and v.get("r") == "use" and "k" in v["o"] and str(v["o"]["k"]).startswith('"'):
                    markers.add(v["o"]["k"].strip('"'))
        if not markers:
            inst.sites.append("scalar_to_string has no text for Null: rule vacuous")
            return bad
        g = F.fn("ColumnarGrouper::extract_link_value")
        gs = [c for c in g.calls if not c.cleanup and c.nname.endswith("get_str_at") and any(x[0] == "param" and len(x) > 2 and ".link_field" in x[2] for x in g.origins(c.args[1]))]
        if len(gs) != 1:
            raise AnchorMissing("get_str_at(self.link_field) in extract_link_value (%d)" % len(gs))
        val = {l for l, _ in g.flow_forward(gs[0].dest)}
        somes = [bb for (bb, j, v, dst) in g.aggregates("option::Option", "Some") if g.dominates_edge((gs[0].bb, gs[0].to), bb) and
                 any(x[0] == "call" and x[2] == gs[0].bb for o in v["o"] for x in g.origins(o, transparent=re.compile(r"to_string$|to_owned$|String::from$|Into>::into$|ScalarValue::Utf8|clone$")))]
        if not somes:
            somes = [bb for (bb, j, v, dst) in g.aggregates("option::Option", "Some") if g.dominates_edge((gs[0].bb, gs[0].to), bb) and bb in set(g.reach(0, src_edges=variant_edge(g, gs[0], "Some")))]
        if not somes:
            raise AnchorMissing("Some(Utf8(link text)) in extract_link_value")
        inst.sites += ["NULL marker(s) of scalar_to_string: %s" % sorted(markers), sp(g, gs[0].bb)]
        for mk in sorted(markers):
            eqs = [c for c in g.calls if not c.cleanup and re.search(r"::eq$", c.nname) and any(x[0] == "const" and x[1].strip('"') == mk for a_ in c.args for x in g.origins(a_))
                   and any(x[0] == "call" and x[2] == gs[0].bb for a_ in c.args for x in g.origins(a_))]
            cut = [e for c in eqs for e in bool_result_edge(g, c, False)]
            for sb in somes:
                if not cut or sb in set(g.reach(0, cut_edges=cut)):
                    bad.append(("null-marker-is-a-link-value", "extract_link_value returns the NULL marker text %r as a link value: rows without a link value are grouped with each other (differently per placement)" % mk, sp(g, sb)))
                    break
        emp = [c for c in g.calls if not c.cleanup and c.nname.endswith("str::is_empty") and any(x[0] == "call" and x[2] == gs[0].bb for x in g.origins(c.args[0]))]
        cut = [e for c in emp for e in bool_result_edge(g, c, False)]
        for sb in somes:
            if not cut or sb in set(g.reach(0, cut_edges=cut)):
                bad.append(("empty-text-is-a-link-value", "extract_link_value returns the empty text as a link value: a flushed NULL string comes back as \"\" and such rows are grouped with each other", sp(g, sb)))
                break
        return bad
    ctx.run("C15.g", "K11 SIB + K8 GUARD", "sequence::utils::scalar_to_string / ColumnarGrouper::extract_link_value", "a row without a link value is not grouped", g_)

    def h_(inst):
        """FOLLOWED BY accepts `the same time`, so with the same event type on both sides (both pointers walk the same rows) the
        row itself satisfies ts_b >= ts_a. A pair may be recorded only when the event types differ or the two rows differ."""
        bad = []
        P = F.fn("SequenceMatcher::match_followed_by")
        push = [c for c in P.find_calls(r"Vec::push$") if "MatchedSequenceIndices" in P.local_ty((c.args[1].get("m") or c.args[1].get("c"))[0])]
        if len(push) != 1:
            raise AnchorMissing("results.push(MatchedSequenceIndices) in match_followed_by (%d)" % len(push))
        ty_eq = [c for c in P.calls if not c.cleanup and re.search(r"::(eq|ne)$", c.nname) and len(c.args) == 2 and
                 {x[1] for a_ in c.args for x in P.origins(a_) if x[0] == "param"} >= {"event_type_a", "event_type_b"}]
        gts = calls(P, r"SequenceMatcher::get_timestamp$", 2)
        rows = [P._origin_locals(c.args[2]) for c in gts]
        row_eq = [c for c in P.calls if not c.cleanup and re.search(r"::(eq|ne)$", c.nname) and len(c.args) == 2 and c not in ty_eq and
                  sum(1 for a_ in c.args if any(P._origin_locals(a_) & r for r in rows)) == 2]
        cut = []
        ws = where_site(P)
        if ws["mode"] == "search" and ty_eq:
            # the self-exclusion may live in the partner search: the closure answers with matches_where_clause only behind
            # {captured `types are equal` is false, candidate row differs from the a-row}
            C = ws["body"]
            same_up = {nm for nm, op_ in ws["env"].items() if any(l[0] == "call" and l[2] in {c.bb for c in ty_eq} for l in P.origins(op_))}
            ccut = []
            for i_, si_ in bool_switches_on(C, lambda L: any(l[0] == "upvar" and l[1] in same_up for l in L)):
                if si_["false"] is not None:
                    ccut.append((i_, si_["false"]))
            ceq = [c for c in C.calls if not c.cleanup and re.search(r"::(eq|ne)$", c.nname) and len(c.args) == 2 and
                   any(l[0] == "param" and l[1] != "self" for a_ in c.args for l in C.origins(a_)) and
                   any(l[0] == "upvar" and l[1] in ws["env"] and (P._origin_locals(ws["env"][l[1]]) & set().union(*rows)) for a_ in c.args for l in C.origins(a_))]
            for c in ceq:
                ccut += bool_result_edge(C, c, c.nname.endswith("::ne"))
            inst.sites += ["self-exclusion in the partner search closure: captured type test %s, row test @ %s" % (sorted(same_up), [sp(C, c.bb) for c in ceq])]
            if ccut and ceq and same_up and ws["wc"].bb not in set(C.reach(0, cut_edges=ccut)) and ws.get("okret"):
                return bad
        for c in ty_eq + row_eq:
            try:
                cut += bool_result_edge(P, c, c.nname.endswith("::ne"))
            except AnchorMissing:
                pass
        inst.sites += [sp(P, c.bb) for c in ty_eq + row_eq]
        if not cut or push[0].bb in set(P.reach(0, cut_edges=cut)):
            bad.append(("self-successor", "match_followed_by can record a pair without having established that the two event types or the two rows differ: with A FOLLOWED BY A every event is paired with itself", sp(P, push[0].bb)))
        return bad
    ctx.run("C15.h", "K2 CUT", "SequenceMatcher::match_followed_by", "an event is not its own successor", h_)

    def i_(inst):
        """The per-type sub-queries of a sequence query must deliver the link field and the sequence time field whatever RETURN
        lists: the merger groups on one and orders on the other."""
        bad = []
        b = F.fn("SequenceStreamingDispatcher::create_sub_query")
        ag = [(bb, v) for (bb, j, v, dst) in b.aggregates("command::types::Command", "Query")]
        if len(ag) != 1:
            raise AnchorMissing("the Command::Query built by create_sub_query (%d)" % len(ag))
        bb, v = ag[0]
        o = dict(zip(v.get("fields", []), v["o"])).get("return_fields")
        if o is None:
            raise AnchorMissing("return_fields of the sub-query")
        L = b.origins(o)
        inst.sites.append(sp(b, bb))
        if all(l[0] == "agg" and l[1].endswith("Option::None") for l in L):
            inst.sites.append("sub-queries return every field")
            return bad
        fields = set()
        for l_ in wide_all(b, o) | deep_locals(b, o.get("m") or o.get("c"), wide=True):
            for x in b.origins({"c": [l_]}):
                if x[0] in ("param", "upvar") and len(x) > 2 and x[2]:
                    fields.add(x[2][-1] if not x[2][-1].startswith("@") and x[2][-1] not in (".0",) else next((e for e in reversed(x[2]) if e.startswith(".") and e != ".0"), ""))
        # values that reach the list through an out-parameter (`collect(expr, &mut wanted)`): what the other arguments derive from
        W_ = wide_all(b, o) | deep_locals(b, o.get("m") or o.get("c"), wide=True)
        for c_ in b.calls:
            if c_.cleanup or len(c_.args) < 2 or not c_.callee or not F.has(c_.callee):
                continue
            outp = [a_ for a_ in c_.args if b._origin_locals(a_) & W_]
            if not outp:
                continue
            for a_ in c_.args:
                if a_ in outp:
                    continue
                for l_ in wide_all(b, a_) | b._origin_locals(a_):
                    for x in b.origins({"c": [l_]}):
                        if x[0] in ("param", "upvar") and len(x) > 2 and x[2]:
                            fields.add(next((e for e in reversed(x[2]) if e.startswith(".") and e != ".0"), ""))
                        elif x[0] == "call" and "transform_where_clause_for_event_type" in x[1]:
                            for y in b.origins(b.call_at(x[2]).args[0]):
                                if y[0] in ("param", "upvar") and len(y) > 2 and y[2]:
                                    fields.add(next((e for e in reversed(y[2]) if e.startswith(".") and e != ".0"), ""))
        inst.sites.append("sub-query return_fields derives from base fields %s" % sorted(f for f in fields if f))
        # the loop that adds the needed fields looks at each of them: it is left only by exhaustion (a `break` once one field is found
        # already listed skips the other one)
        fam_ = [F.fn_exact(k) for k in F.keys() if k.startswith(b.key.split("::{closure")[0] + "::{closure")] + [b]
        for C in fam_:
            pushes_ = [c for c in C.calls if not c.cleanup and c.nname.endswith("Vec::push")]
            for h in for_headers(C):
                try:
                    some = variant_edge(C, h, "Some")
                    none = variant_edge(C, h, "None")
                except AnchorMissing:
                    continue
                body_ = set(C.reach(0, src_edges=some, cut_blocks=[h.bb]))
                if not any(p_.bb in body_ for p_ in pushes_):
                    continue
                after = set(C.reach(0, src_edges=none, cut_blocks=[h.bb]))
                inst.sites.append("needed-fields loop @ %s" % sp(C, h.bb))
                if body_ & after:
                    bad.append(("needed-fields-loop-left-early", "the loop of create_sub_query that adds the link / time field to a RETURN list can be left before it has looked at every needed field (break): RETURN [uid, ...] then hides the time column from the matcher", sp(C, h.bb)))
        if ".where_clause" not in fields:
            bad.append(("sub-query-return-hides:where-fields", "create_sub_query builds the sub-query's RETURN list without the fields this event type's part of the WHERE clause reads: the merger re-evaluates WHERE on rows that no longer carry them and the result is empty", sp(b, bb)))
        for need in (".link_field", ".sequence_time_field"):
            if need not in fields:
                bad.append(("sub-query-return-hides:%s" % need[1:], "create_sub_query builds the sub-query's RETURN list without the base query's %s: with RETURN [...] the column the sequence merger needs is projected away and no pair is found" % need[1:], sp(b, bb)))
        return bad
    ctx.run("C15.i", "K7 PROV", "SequenceStreamingDispatcher::create_sub_query", "RETURN never hides the link / time column from the matcher", i_)

    def e_(inst):
        """Two-pointer discipline. Both matchers walk two time-sorted row lists with one pointer each. On an arm of the a-vs-b
        time comparison that records no pair (a `no-match arm`), the only pointer that may advance is the one of the side whose
        time is the lesser (or equal) one under that arm's condition: advancing the other side throws away a row that later rows
        of the first side still need (PRECEDED BY lost every match after the first anchor without an earlier partner)."""
        bad = []
        n_arms = 0
        for name in ("SequenceMatcher::match_followed_by", "SequenceMatcher::match_preceded_by"):
            P = F.fn(name)
            short = name.split("::")[-1]
            push = [c for c in P.find_calls(r"Vec::push$") if "MatchedSequenceIndices" in P.local_ty((c.args[1].get("m") or c.args[1].get("c"))[0])]
            if not push:
                raise AnchorMissing("results.push(MatchedSequenceIndices) in %s" % name)
            # self-increments: x = (x + 1).0
            incs = {}
            for i in P.live_blocks():
                for st in P.blocks[i]["s"]:
                    v = st.get("v")
                    if v and v.get("r") == "bin" and v.get("op") in ("AddWithOverflow", "Add") and "k" in v["b"] and str(v["b"]["k"]).startswith("1_"):
                        src = (v["a"].get("c") or v["a"].get("m") or [None])[0]
                        tmp = st["a"][0]
                        # where does tmp.0 go?
                        for i2 in P.live_blocks():
                            for st2 in P.blocks[i2]["s"]:
                                v2 = st2.get("v")
                                if v2 and v2.get("r") == "use" and (v2["o"].get("m") or v2["o"].get("c") or [None])[0] == tmp and st2["a"] == [src]:
                                    incs.setdefault(src, []).append(i2)
            roots = set(incs)

            def ptrs_of_ts(op):
                out = set()
                for l in P.origins(op):
                    if l[0] == "call" and "get_timestamp" in l[1]:
                        c = P.call_at(l[2])
                        for rl in P._origin_locals(c.args[2]):
                            for (bb, j, dpl, rv) in P.defs().get(rl, []):
                                if rv.get("r") == "ref":
                                    for e in rv.get("p", []):
                                        m_ = re.match(r"\[_(\d+)\]$", e) if isinstance(e, str) else None
                                        if m_:
                                            out |= (P._origin_locals({"c": [int(m_.group(1))]}) | {int(m_.group(1))}) & roots
                return out
            hdrs = set()
            for i in sorted(P.live_blocks()):
                if P.blocks[i]["t"]["t"] != "switch":
                    continue
                si = P.switch_info(i)
                d = si.get("def") if si and si["kind"] == "bool" else None
                if not d or d.get("r") != "bin" or d.get("op") not in ("Lt", "Le", "Gt", "Ge"):
                    continue
                pa, pb = ptrs_of_ts(d["a"]), ptrs_of_ts(d["b"])
                if not pa or not pb or pa & pb:
                    continue

                def opside(op_):
                    out = set()
                    for l in P.origins(op_):
                        if l[0] == "call" and "get_timestamp" in l[1]:
                            c = P.call_at(l[2])
                            ds = [deep_locals(P, a_, wide=True) | wide_all(P, a_) for a_ in (c.args[1], c.args[2])]
                            for nm, loc in (("a", 3), ("b", 4)):
                                if all(loc in d_ for d_ in ds):
                                    out.add(nm)
                    return out
                sa_, sb_ = opside(d["a"]), opside(d["b"])
                partner = pa if sa_ == {"b"} else (pb if sb_ == {"b"} else None)
                for truth, tgt in ((True, si["true"]), (False, si["false"])):
                    if tgt is None:
                        continue
                    # the arm: blocks reachable from the edge until the comparison is reached again
                    region = set(P.reach(0, src_edges=[(i, tgt)], cut_blocks=[i]))
                    op = d["op"]
                    lesser_ = {("Lt", True): "a", ("Lt", False): "b", ("Le", True): "a", ("Le", False): "b",
                               ("Gt", True): "b", ("Gt", False): "a", ("Ge", True): "b", ("Ge", False): "a"}[(op, truth)]
                    # the partner list's pointer (side b) moves only when the partner's time is the lesser one: a partner whose
                    # time qualifies for this anchor may be the partner of later anchors too (also when it is skipped for
                    # another reason, e.g. because it is the anchor row itself)
                    if partner is not None and (pa if lesser_ == "a" else pb) != partner:
                        # any write that moves the partner pointer (an increment, or an assignment such as `b_ptr = index of the partner found`)
                        writes = {r_: list(bl) for r_, bl in incs.items()}
                        for r_ in partner:
                            for i2 in region:
                                for st2 in P.blocks[i2]["s"]:
                                    if st2.get("a") == [r_] and "v" in st2 and i2 not in writes.get(r_, []):
                                        # not the initialisation in front of the loop
                                        if P.can_reach(i, i2):
                                            writes.setdefault(r_, []).append(i2)
                        for r_, bl in writes.items():
                            fam = (P._origin_locals({"c": [r_]}) | {r_}) & roots
                            if r_ in partner and any(x in region for x in bl) or (fam & partner and any(x in region for x in bl)):
                                n_arms += 0
                                bad.append(("partner-advanced-while-qualifying:%s" % short, "%s: the pointer into the partner list (%s) is advanced on an arm where the partner's time qualifies (%s is %s): that partner is lost for later anchors, and with equal times which pairs come back depends on the arrival order" % (
                                    short, P.local_name(r_) or "_%d" % r_, op, truth), sp(P, i)))
                    if any(c.bb in region for c in push):
                        continue
                    # which operand is the lesser (or equal) one on this arm
                    lesser = {("Lt", True): "a", ("Lt", False): "b", ("Le", True): "a", ("Le", False): "b",
                              ("Gt", True): "b", ("Gt", False): "a", ("Ge", True): "b", ("Ge", False): "a"}[(op, truth)]
                    lp, gp = (pa, pb) if lesser == "a" else (pb, pa)
                    n_arms += 1
                    moved = {r for r, bl in incs.items() if any(x in region for x in bl)}
                    inst.sites.append("%s: no-match arm %s(%s)=%s @ %s advances %s" % (short, op, "x,y", truth, sp(P, i), sorted(P.local_name(m) or "_%d" % m for m in moved)))
                    for m in moved:
                        fam = (P._origin_locals({"c": [m]}) | {m}) & roots
                        if fam & gp and not fam & lp:
                            bad.append(("advances-later-side:%s" % short, "%s: on the arm where no pair is recorded (%s is %s) the pointer of the later side (%s) is advanced: the row it skips is the partner later rows of the other side need" % (
                                short, op, truth, P.local_name(m) or "_%d" % m), sp(P, i)))
        if n_arms < 2:
            raise AnchorMissing("no-match arms of the a-vs-b time comparison in the two matchers (found %d)" % n_arms)
        return bad
    ctx.run("C15.e", "K9 LOOP", "SequenceMatcher::match_{followed,preceded}_by", "on a no-match arm only the side with the lesser time advances", e_)

    def c(inst):
        b = F.fn("SequenceMatcher::match_sequences")
        mg = one(b, r"SequenceMatcher::match_in_group$")
        ext = one(b, r"Extend<.*>>::extend$|Vec::extend$|Extend>::extend$")
        tr = one(b, r"Vec::truncate$")
        inst.sites = [sp(b, mg.bb), sp(b, ext.bb), sp(b, tr.bb)]
        bad = []

        def acc(op, A, B, truth):
            la = any(l[0] == "call" and norm_path(l[1]).endswith("Vec::len") for l in A)
            lb = has_origin(B, "param", "limit") or "limit" in fmt_leaves(B)
            return la and lb and ((op == "Ge" and truth) or (op == "Lt" and not truth))
        if not cmp_guard(b, tr.bb, acc):
            bad.append(("truncate-guard", "truncate is not guarded by all_matches.len() >= limit", None))
        Lt = b.origins(tr.args[1])
        if "limit" not in fmt_leaves(Lt):
            bad.append(("truncate-to-limit", "matches are truncated to %s, not to the limit" % fmt_leaves(Lt), None))
        if not (b.can_reach(ext.bb, tr.bb)):
            bad.append(("truncate-before-extend", "truncate does not follow the extend of a group's matches", None))
        # pre-check: a Ge(len, limit) true edge leads out of the loop before match_in_group
        def acc2(op, A, B, truth):
            la = any(l[0] == "call" and norm_path(l[1]).endswith("Vec::len") for l in A)
            lb = "limit" in fmt_leaves(B)
            return la and lb and ((op == "Ge" and not truth) or (op == "Lt" and truth))
        lim_none = enum_switches_on(b, lambda L: has_origin(L, "param", "limit"), r"option::Option")
        cut = [(i, t) for i, si in lim_none for t in edges_for_variant(si, "None")]
        g = cmp_guard(b, mg.bb, acc2)
        if not g:
            # dominated by either the None edge of limit or the `< limit` edge: test as a cut
            cands = []
            for i in b.live_blocks():
                if b.blocks[i]["t"]["t"] != "switch":
                    continue
                si = b.switch_info(i)
                d = si.get("def") if si and si["kind"] == "bool" else None
                if d and d.get("r") == "bin" and acc2(d["op"], b.origins(d["a"]), b.origins(d["b"]), False) and si["false"] is not None:
                    cands.append((i, si["false"]))
                if d and d.get("r") == "bin" and acc2(d["op"], b.origins(d["a"]), b.origins(d["b"]), True) and si["true"] is not None:
                    cands.append((i, si["true"]))
            if not cands or mg.bb in b.reach(0, cut_edges=cut + cands):
                bad.append(("limit-precheck", "a group is matched although the limit was already reached", None))
        return bad
    ctx.run("C15.c", "K1 DOM", "SequenceMatcher::match_sequences", "LIMIT bounds the number of matched sequences", c)

    def d(inst):
        T = F.fn("sequence::utils::transform_where_clause_for_event_type")
        mod = T.key.rsplit("::", 1)[0]
        # family: T, same-module functions it (transitively) calls, and the closures of all of them
        fam, todo = [], [T.key]
        while todo:
            k = todo.pop()
            if k in fam or not F.has(k):
                continue
            fam.append(k)
            B = F.fn_exact(k)
            for c in B.calls:
                if c.cleanup:
                    continue
                nn = c.nname
                if c.local and F.has(nn) and nn.rsplit("::", 1)[0] == mod:
                    todo.append(nn)
            for blk in B.blocks:
                for st in blk["s"]:
                    v = st.get("v")
                    if v and v.get("r") == "agg" and v.get("ak") == "closure" and v.get("def"):
                        todo.append(v["def"])
        bad, n_leaf, n_pef = [], 0, 0
        for k in fam:
            B = F.fn_exact(k)
            short = k[len(mod) + 2:]
            # (1) provenance of the field of every rewritten leaf
            for i in sorted(B.live_blocks()):
                for st in B.blocks[i]["s"]:
                    v = st.get("v")
                    if not v or v.get("r") != "agg" or v.get("ak") != "adt" or not str(v.get("adt", "")).endswith("types::Expr") or v.get("var") not in ("Compare", "In"):
                        continue
                    n_leaf += 1
                    fi = v["fields"].index("field")
                    L = deep_origins(F, B, v["o"][fi], stop=r"utils::parse_event_field$")
                    why = []
                    for l in L:
                        if l[0] == "call" and norm_path(l[1]).endswith("utils::parse_event_field"):
                            pr = [p_ for p_ in l[3] if p_ != "*"]
                            if ".1" not in pr:
                                why.append("the event-type part of parse_event_field")
                        elif l[0] == "param" and (l[2] and l[2][-1] == ".field" or not l[2]):
                            pass  # the original field (of the matched leaf, or a helper's own &str parameter mapped back by deep_origins)
                        elif l[0] == "upvar-of-closure":
                            pass
                        else:
                            why.append(fmt_leaves({l}))
                    inst.sites.append("%s @ %s: Expr::%s.field <- %s" % (short, sp(B, i), v.get("var"), fmt_leaves(L)))
                    if why:
                        bad.append(("leaf-field:%s" % v.get("var"), "%s builds Expr::%s whose field name comes from %s, not from parse_event_field / the original field" % (short, v.get("var"), "; ".join(sorted(set(why)))), None))
            # (2) the part after '.' is used only when the part before it EQUALS the target event type
            for c in B.find_calls(r"utils::parse_event_field$"):
                if c.cleanup:
                    continue
                n_pef += 1
                dl = c.dest[0]
                eqs = []
                for e in B.find_calls(r"PartialEq.*::eq$|PartialEq.*::ne$"):
                    oa, ob = B.origins(e.args[0]), B.origins(e.args[1])

                    def is_et(Ls):
                        return any(l[0] == "call" and l[2] == c.bb and ".0" in [p_ for p_ in l[3]][-1:] + [p_ for p_ in l[3]] and [p_ for p_ in l[3] if p_ in (".0", ".1")][-1:] == [".0"] for l in Ls)

                    def is_param(Ls):
                        return any(l[0] in ("param", "upvar") and not (l[2] and l[2][-1] == ".field") for l in Ls)
                    if (is_et(oa) and is_param(ob)) or (is_et(ob) and is_param(oa)):
                        eqs.append(e)
                te = []
                for e in eqs:
                    te += bool_result_edge(B, e, not e.nname.endswith("::ne"))
                # uses of the field-name part: statements moving/copying <dest>@Some.0.1
                for i in sorted(B.live_blocks()):
                    for st in B.blocks[i]["s"]:
                        v = st.get("v")
                        if not v or v.get("r") != "use":
                            continue
                        pl = v["o"].get("m") or v["o"].get("c")
                        if pl and pl[0] == dl and [p_ for p_ in pl[1:] if p_ in (".0", ".1")][-1:] == [".1"]:
                            tgt = st["a"][0]
                            if not eqs:
                                bad.append(("addressed-by-equality", "%s uses the part after '.' but never compares the part before it (%s) with the target event type by equality" % (short, sp(B, c.bb)), None))
                                continue
                            # where is the moved field name consumed?
                            for j in sorted(B.live_blocks()):
                                for st2 in B.blocks[j]["s"]:
                                    v2 = st2.get("v")
                                    if v2 and v2.get("r") in ("use", "agg") and j != i or (v2 and j == i and st2 is not st):
                                        ops = [v2["o"]] if v2.get("r") == "use" else (v2.get("o") or []) if v2.get("r") == "agg" else []
                                        for o_ in ops:
                                            p2 = (o_.get("m") or o_.get("c")) if isinstance(o_, dict) else None
                                            if p2 and p2[0] == tgt and not any(B.dominates_edge(e_, j) for e_ in te):
                                                bad.append(("field-name-without-equality", "%s uses the part after '.' (%s) on a path where the part before it was not found equal to the target event type" % (short, sp(B, j)), None))
        inst.sites.append("family: %s" % [k[len(mod) + 2:] for k in fam])
        if n_leaf < 2 or n_pef < 1:
            raise AnchorMissing("leaf rewrites in transform_where_clause_for_event_type (leaves built %d, parse_event_field calls %d; confirmed 4 / 2)" % (n_leaf, n_pef))
        return bad
    ctx.run("C15.d", "K7 PROV + K8 GUARD", "sequence::utils::transform_where_clause_for_event_type", "a WHERE leaf is addressed to an event type by whole-name equality only", d)
