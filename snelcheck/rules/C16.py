"""C16 — one instant, one value on every path: single-parser layering only."""
from .util import *
import json
from ..callgraph import CallGraph

EXPLANATION = """
Claimed narrowly. Decides layering: (a) string-to-instant parsing entry points of chrono (parse_from_rfc3339 / parse_from_rfc2822 / parse_from_str / FromStr) and the epoch-magnitude heuristic
(normalize_integer_epoch) are called only from shared::time::TimeParser; (b) every site that turns a user-supplied time literal into a stored or compared value (STORE payload normalisation,
WHERE literal normalisation for zone pruning, row-condition building for WHERE and SINCE, temporal pruning, materialisation spec) reaches TimeParser::{parse_str_to_epoch_seconds, normalize_json_value};
(c) SINCE is parsed by the same function at the row-condition site and at the pruning site (the SINCE value flows unparsed into the filter whose literal is normalised by the same parser).
(d) a full RFC3339 instant denotes `dt.timestamp()` whatever the field kind: on the success path of parse_from_rfc3339 the returned value is computed only by
with_timezone / timestamp - no calendar truncation (date_naive, and_hms…) and no second construction, which would make one instant stored differently depending on its spelling
(numeric spellings never see the kind);
(e) PER buckets are wall-clock aligned: each CalendarTimeBucketer::bucket_{hour,day,week,month,year} builds the bucket start from dt's LOCAL calendar fields
(date_naive(dt) + and_hms_opt(hour(dt) | 0, 0, 0)), that naive time is interpreted in dt's own timezone (and_local_timezone(.., dt.timezone()), directly or through a
same-module helper), and bucket_of maps each granularity to its own sibling in both the cached-timezone and the UTC branch;
(f) the bucketers never unwrap the LocalResult of a local-time interpretation (and_local_timezone / from_local_datetime / with_ymd_and_hms; panics for every instant whose bucket start is a repeated or skipped local time - DST).
(g) a float spelled time is range-checked: in TimeParser::normalize_json_value every store into the value that uses the result of a float-to-int cast (saturating in Rust) is control-dependent on a test
of that same result (today: chrono can represent it) - 1e300 would otherwise be accepted and stored as i64::MAX.
(h) at every literal-to-instant site of (b), a raw numeric parse of the literal text (str::parse) is only the fallback behind the shared parser: it sits on the None edge of
TimeParser::parse_str_to_epoch_seconds - taking an all-digit literal verbatim skips the unit heuristic, so an epoch in ms / us / ns is read as seconds on that path only (pruner vs row filter disagree).
(i) every spelling floors: the unit lanes of TimeParser::normalize_integer_epoch divide with div_euclid, not with `/` (which truncates toward zero: an instant before 1970 in ms / us / ns would land one
second later than its ISO-8601 and float spellings).
(j) SINCE accepts the spellings the documentation shows: the QUERY grammar's since_clause reaches both string_literal and integer.
Does NOT decide the parser's arithmetic (digit-count boundaries, pre-1970, offsets), float epochs, or how ambiguous/skipped local times are resolved.
"""
FLOOR = 12
REQUIRED = ["C16.a", "C16.b", "C16.c", "C16.d", "C16.e", "C16.f", "C16.g", "C16.h", "C16.i", "C16.j", "C16.k", "C16.l"]

CHRONO_PARSE = re.compile(r"^chrono::.*(parse_from_rfc3339|parse_from_rfc2822|parse_from_str|parse_and_remainder|FromStr>::from_str)$|^(time|humantime|dateparser|iso8601)::")
PARSER_FNS = {"shared::time::TimeParser::parse_str_to_epoch_seconds", "shared::time::TimeParser::normalize_json_value"}


def run(ctx):
    F = ctx.F
    cg = CallGraph(F)

    def a(inst):
        bad = []
        users = {}
        for k in cg.nodes:
            hit = sorted({norm_path(t) for t in cg.edges[k] if CHRONO_PARSE.search(norm_path(t))})
            if hit:
                users[k] = hit
        inst.sites = ["%s -> %s" % (norm_path(k), v) for k, v in sorted(users.items())]
        if not any(norm_path(k).startswith("shared::time::TimeParser::") for k in users):
            raise AnchorMissing("TimeParser no longer calls a chrono parsing entry point")
        for k, v in users.items():
            if not norm_path(k).startswith("shared::time::TimeParser::"):
                bad.append(("second-time-parser:%s" % norm_path(k.split("::{closure")[0]), "%s parses time strings on its own (%s) instead of going through shared::time::TimeParser" % (k, v), None))
        heur = "shared::time::TimeParser::normalize_integer_epoch"
        if heur not in cg.nodes:
            raise AnchorMissing(heur)
        for k in cg.callers(heur):
            if not norm_path(k).startswith("shared::time::TimeParser::"):
                bad.append(("heuristic-caller:%s" % norm_path(k), "%s calls the epoch-magnitude heuristic directly" % k, None))
        return bad
    ctx.run("C16.a", "K4 REACH", "crate call graph", "one string-to-instant parser", a)

    SITES = [
        ("STORE payload", "engine::schema::normalization::PayloadTimeNormalizer::<'a>::normalize", "normalize_json_value"),
        ("WHERE literal for pruning", "engine::core::filter::filter_group_builder::FilterGroupBuilder", "parse_str_to_epoch_seconds"),
        ("WHERE row condition", "engine::core::filter::condition_evaluator_builder::ConditionEvaluatorBuilder::add_where_clause", "parse_str_to_epoch_seconds"),
        ("SINCE row condition", "engine::core::filter::condition_evaluator_builder::ConditionEvaluatorBuilder::add_special_fields", "parse_str_to_epoch_seconds"),
        ("temporal pruning", "engine::core::zone::selector::pruner::temporal_pruner::TemporalPruner::<'a>::apply_temporal_only", "parse_str_to_epoch_seconds"),
    ]

    def b_(inst):
        bad = []
        for nm, prefix, fn in SITES:
            ks = [k for k in cg.nodes if k == prefix or k.startswith(prefix + "::")]
            if not ks:
                raise AnchorMissing(prefix)
            direct = sorted({norm_path(k) for k in ks if any(t.endswith("TimeParser::" + fn) for t in cg.edges[k])})
            inst.sites.append("%s: %s" % (nm, [d.split("::")[-1] if "closure" not in d else "::".join(d.split("::")[-2:]) for d in direct]))
            if not direct:
                bad.append(("site-bypasses-parser:%s" % nm, "%s (%s) no longer calls TimeParser::%s" % (nm, prefix, fn), None))
        return bad
    ctx.run("C16.b", "K4 REACH", "time normalisation sites", "every literal-to-instant site uses the one parser", b_)

    def c(inst):
        bad = []
        # pruning side: add_time_filter wraps SINCE unparsed (Utf8) so that normalize_temporal_literals parses it
        atf = F.fn("FilterGroupBuilder::add_time_filter")
        ag = [v for (bb, j, v, dst) in atf.aggregates("types::ScalarValue", "Utf8")]
        fam = [atf] + [F.fn_exact(k) for k in F.find("^" + re.escape(atf.key) + r"::\{closure")]
        utf = any(bb_.aggregates("types::ScalarValue", "Utf8") or bb_.find_calls(r"ScalarValue::Utf8$") for bb_ in fam)
        if not utf:
            bad.append(("since-prune-form", "add_time_filter no longer hands the SINCE literal on as a string to be normalised by the shared parser", None))
        other = [c_.nname for bb_ in fam for c_ in bb_.calls if not c_.cleanup and re.search(r"str::parse$|FromStr>::from_str$|chrono::", c_.nname)]
        if other:
            bad.append(("since-prune-own-parse", "add_time_filter parses SINCE on its own: %s" % other, None))
        # row side: add_special_fields parses `since` with the shared parser first; a raw integer parse is only the fallback on its None edge
        sf = F.fn("ConditionEvaluatorBuilder::add_special_fields")
        ps = [c_ for c_ in sf.find_calls(r"TimeParser::parse_str_to_epoch_seconds$")]
        if not ps:
            raise AnchorMissing("parse_str_to_epoch_seconds in add_special_fields")
        p0 = ps[0]
        raw = sf.find_calls(r"str::parse$")
        none_e = variant_edge(sf, p0, "None")
        for r_ in raw:
            if not any(sf.dominates_edge(e, r_.bb) for e in none_e):
                bad.append(("since-raw-parse-first", "add_special_fields parses SINCE as a raw integer without trying the shared parser first", None))
        L = fmt_leaves(sf.origins(p0.args[0]))
        inst.sites = [sp(sf, p0.bb), "parsed value: %s" % L]
        if "since" not in L:
            bad.append(("since-other-value", "the value parsed for the SINCE condition is %s" % L, None))
        # the comparison added is >= on the time field
        adds = sf.find_calls(r"ConditionEvaluator::add_numeric_condition$")
        ops = set()
        for a_ in adds:
            for l in sf.origins(a_.args[2]):
                if l[0] == "agg":
                    ops.add(l[1].split("::")[-1])
        return bad
    ctx.run("C16.c", "K11 SIB", "SINCE at pruning and row-condition sites", "SINCE is interpreted by the same parser on both sides", c)

    def slice_calls(b, op):
        ls = wide_all(b, op)
        return [c_ for c_ in b.calls if not c_.cleanup and c_.dest and c_.dest[0] in ls]

    def d(inst):
        b = F.fn("shared::time::TimeParser::parse_str_to_epoch_seconds")
        rfc = one(b, r"parse_from_rfc3339$")
        oke = [e for e, v in ok_edges(b, rfc) if v == "Ok"]
        if not oke:
            raise AnchorMissing("Ok edge of parse_from_rfc3339")
        bad, n = [], 0
        ALLOWED = re.compile(r"parse_from_rfc3339$|::with_timezone$|DateTime::timestamp$|str::trim$")
        for (bb, j, v, dst) in b.aggregates("option::Option", "Some"):
            if dst[0] != 0 or not any(b.dominates_edge(e, bb) for e in oke):
                continue
            n += 1
            cs = slice_calls(b, v["o"][0])
            names = sorted({c_.nname for c_ in cs})
            inst.sites.append("%s: Some(..) <- %s" % (sp(b, bb), [x.split("::")[-1] for x in names]))
            extra = [x for x in names if not ALLOWED.search(x) and not TRANSPARENT.match(x)]
            if not any(x.endswith("DateTime::timestamp") for x in names):
                bad.append(("rfc3339-not-timestamp", "the value returned for an RFC3339 string is not dt.timestamp()", None))
            if extra:
                bad.append(("rfc3339-recomputed:%s" % ",".join(x.split("::")[-1] for x in extra), "the value returned for a full RFC3339 instant is recomputed through %s: the same instant is then stored differently depending on spelling / field kind" % extra, None))
        # the same on the paths that return something else than a literal Some(..): a call result, or a value chosen by the field kind
        for c_ in b.calls:
            if not c_.cleanup and c_.dest == [0] and any(b.dominates_edge(e, c_.bb) for e in oke):
                n += 1
                bad.append(("rfc3339-recomputed:%s" % c_.nname.split("::")[-1], "on the RFC3339 path parse_str_to_epoch_seconds returns the result of %s instead of dt.timestamp(): the same instant is then stored differently depending on spelling / field kind" % c_.nname, sp(b, c_.bb)))
        for i_, si_ in enum_switches_on(b, lambda L: has_origin(L, "param", "kind"), r"TimeKind$"):
            if any(b.dominates_edge(e, i_) for e in oke):
                bad.append(("rfc3339-depends-on-kind", "for a full RFC3339 instant parse_str_to_epoch_seconds branches on the field kind: a date field stores another value for the same instant than a datetime field, a numeric spelling or the query side (which always asks for DateTime)", sp(b, i_)))
        if n < 1:
            raise AnchorMissing("return Some(..) on the RFC3339 path")
        return bad
    ctx.run("C16.d", "K7 PROV", "TimeParser::parse_str_to_epoch_seconds", "an RFC3339 instant is its timestamp(), independent of the field kind", d)

    GRAN = {"Hour": "bucket_hour", "Day": "bucket_day", "Week": "bucket_week", "Month": "bucket_month", "Year": "bucket_year"}

    def e(inst):
        bad = []
        bo = F.fn("CalendarTimeBucketer::bucket_of")
        sws = [(i, si) for i, si in ((i, bo.switch_info(i)) for i in sorted(bo.live_blocks()) if bo.blocks[i]["t"]["t"] == "switch") if si and si["kind"] == "enum" and (si.get("adt") or "").endswith("TimeGranularity")]
        if len(sws) < 2:
            raise AnchorMissing("two `match gran` in bucket_of (cached timezone / UTC), found %d" % len(sws))
        for i, si in sws:
            a = arms(bo, i)
            for var, fn in GRAN.items():
                got = sorted({c_.nname.split("::")[-1] for c_ in calls_in(bo, a.get(var, set()), r"CalendarTimeBucketer::bucket_\w+$")})
                if got != [fn]:
                    bad.append(("gran-table:%s" % var, "bucket_of (%s) sends TimeGranularity::%s to %s" % (sp(bo, i), var, got), None))
        for var, fn in GRAN.items():
            b = F.fn("CalendarTimeBucketer::" + fn)
            hms = b.find_calls(r"NaiveDate::and_hms_opt$")
            if len(hms) != 1:
                bad.append(("local-fields:%s" % fn, "%s does not build its bucket start with exactly one date.and_hms_opt(h, 0, 0) (%d)" % (fn, len(hms)), None))
                continue
            h = hms[0]
            date_calls = {c_.nname for c_ in slice_calls(b, h.args[0])}
            if not any(x.endswith("::date_naive") for x in date_calls) or 2 not in (wide_all(b, h.args[0])):
                bad.append(("local-date:%s" % fn, "%s: the date of the bucket start is not derived from dt.date_naive() (the LOCAL date)" % fn, None))
            hl = b.origins(h.args[1])
            want_hour = fn == "bucket_hour"
            is_hour = any(l[0] == "call" and norm_path(l[1]).endswith("Timelike>::hour") for l in hl)
            is_zero = all(l[0] == "const" and l[1].startswith("0_") for l in hl)
            rest_zero = all(l[0] == "const" and l[1].startswith("0_") for a_ in h.args[2:4] for l in b.origins(a_))
            inst.sites.append("%s @ %s: and_hms_opt(%s, %s)" % (fn, sp(b, h.bb), fmt_leaves(hl), "0, 0" if rest_zero else "?"))
            if (want_hour and not is_hour) or (not want_hour and not is_zero) or not rest_zero:
                bad.append(("local-hms:%s" % fn, "%s starts its bucket at (%s, ..) instead of %s" % (fn, fmt_leaves(hl), "(dt.hour(), 0, 0)" if want_hour else "(0, 0, 0)"), None))
            # the naive local time reaches and_local_timezone(naive, dt.timezone()) and the result is what is returned
            ret = deep_origins(F, b, [0])
            for l in list(ret):
                if l[0] == "call" and re.search(r"LocalResult::(unwrap|single|earliest|latest)$", norm_path(l[1])):
                    c0 = b.call_at(l[2])
                    if c0 is not None and c0.nname == norm_path(l[1]):
                        ret |= b.origins(c0.args[0])
            alt = [l for l in ret if l[0] == "call" and norm_path(l[1]).endswith("and_local_timezone")]
            if not alt:
                bad.append(("local-interpretation:%s" % fn, "%s does not return the naive local bucket start interpreted by and_local_timezone (returns %s)" % (fn, fmt_leaves(ret)), None))
                continue
            # where is that call: here or in a same-module helper receiving the naive value
            direct = b.find_calls(r"and_local_timezone$")
            if direct:
                hosts = [(b, c_, None) for c_ in direct]
            else:
                hosts = []
                for c_ in b.calls:
                    if c_.cleanup or not c_.local or not F.has(c_.nname):
                        continue
                    H = F.fn_exact(c_.nname)
                    for c2 in H.find_calls(r"and_local_timezone$"):
                        hosts.append((H, c2, c_))
            ok_flow = False
            for H, c2, via in hosts:
                if via is None:
                    naive_ok = h.dest[0] in wide_all(H, c2.args[0])
                    tz_calls = {x.nname for x in slice_calls(H, c2.args[1])}
                    tz_ok = any(x.endswith("::timezone") for x in tz_calls) and 2 in wide_all(H, c2.args[1])
                else:
                    # helper(naive, &dt, ..): first call argument carries the naive value, and the helper feeds its own parameters to and_local_timezone
                    pn = [k_ for k_, a_ in enumerate(via.args) if h.dest[0] in wide_all(b, a_)]
                    pd = [k_ for k_, a_ in enumerate(via.args) if 2 in wide_all(b, a_) and h.dest[0] not in wide_all(b, a_)]
                    naive_ok = any((k_ + 1) in wide_all(H, c2.args[0]) for k_ in pn)
                    tz_calls = {x.nname for x in slice_calls(H, c2.args[1])}
                    tz_ok = any(x.endswith("::timezone") for x in tz_calls) and any((k_ + 1) in wide_all(H, c2.args[1]) for k_ in pd)
                if naive_ok and tz_ok:
                    ok_flow = True
            if not ok_flow:
                bad.append(("local-timezone:%s" % fn, "%s: and_local_timezone does not receive (the naive bucket start, dt.timezone())" % fn, None))
        return bad
    ctx.run("C16.e", "K11 SIB + K7 PROV", "CalendarTimeBucketer::bucket_{hour,day,week,month,year}", "PER buckets start on local calendar boundaries of the configured timezone", e)

    def f(inst):
        bad = []
        mod = "shared::datetime::time_bucketing::"
        ks = [k for k in F.find("^" + re.escape(mod) + r"CalendarTimeBucketer::") if not k.endswith("::new")]
        if len(ks) < 6:
            raise AnchorMissing("CalendarTimeBucketer bodies (%d)" % len(ks))
        n = 0
        for k in ks:
            B = F.fn_exact(k)
            for c_ in B.calls:
                if c_.cleanup:
                    continue
                if re.search(r"LocalResult::unwrap$", c_.nname) and any(l[0] == "call" and re.search(r"and_local_timezone$|from_local_datetime$|with_ymd_and_hms$", norm_path(l[1])) for l in B.origins(c_.args[0])):
                    bad.append(("localresult-unwrap:%s" % k[len(mod):], "%s unwraps a chrono LocalResult (%s): panics whenever the bucket start is a repeated or skipped local time" % (k[len(mod):], sp(B, c_.bb)), None))
                if re.search(r"and_local_timezone$|from_local_datetime$|with_ymd_and_hms$", c_.nname):
                    n += 1
        inst.sites.append("%d bodies, %d local-time interpretations" % (len(ks), n))
        if n < 1:
            raise AnchorMissing("a local-time interpretation in the bucketers")
        return bad
    ctx.run("C16.f", "K3 NOPATH", "CalendarTimeBucketer::*", "bucketing is total at DST transitions (no LocalResult::unwrap)", f)

    def g_(inst):
        b = F.fn("shared::time::TimeParser::normalize_json_value")
        casts = []
        for i in sorted(b.live_blocks()):
            for st in b.blocks[i]["s"]:
                v = st.get("v")
                if v and v.get("r") == "cast" and "FloatToInt" in json.dumps(v) and len(st.get("a", [])) == 1:
                    casts.append((i, st["a"][0]))
        if not casts:
            inst.sites.append("no float-to-int cast (floats are not accepted as times, or converted checked)")
            return []
        bad = []
        for (cb, cl) in casts:
            flow = {l for l, _ in b.flow_forward([cl])}
            # stores through the `value` parameter fed by the cast
            for i in sorted(b.live_blocks()):
                for st in b.blocks[i]["s"]:
                    if not st.get("a") or st["a"][0] != 1 or "*" not in st["a"]:
                        continue
                    v = st.get("v") or {}
                    src = wide_all(b, v.get("o") or {}, partial=False) if v.get("r") == "use" else set()
                    if not (src & (flow | {cl})):
                        continue
                    # control dependence on a test over the cast value
                    ok = False
                    for j in sorted(b.live_blocks()):
                        if b.blocks[j]["t"]["t"] != "switch":
                            continue
                        si = b.switch_info(j)
                        if not si:
                            continue
                        opl = None
                        if si["kind"] == "bool":
                            opl = si["op"]
                        elif si["kind"] == "enum":
                            opl = si.get("place")
                        if opl is None:
                            continue
                        dep = wide_all(b, opl, partial=False)
                        if cl in dep or (flow & dep):
                            t = b.blocks[j]["t"]
                            tg = [x[1] for x in t["v"]] + [t["else"]]
                            if any(x is not None and b.dominates_edge((j, x), i) for x in tg):
                                ok = True
                    inst.sites.append("cast @ %s -> store @ %s: range-tested=%s" % (sp(b, cb), sp(b, i), ok))
                    if not ok:
                        bad.append(("float-time-unchecked", "normalize_json_value stores the result of a saturating float-to-int cast (%s) without testing its range: 1e300 is accepted as a time and stored as i64::MAX" % sp(b, cb), None))
        return bad
    ctx.run("C16.g", "K1 DOM", "TimeParser::normalize_json_value", "a float time is range-checked before it is stored", g_)

    def h_(inst):
        bad, n = [], 0
        for nm, prefix, fn in SITES:
            ks = [k for k in cg.nodes if k == prefix or k.startswith(prefix + "::")]
            for k in ks:
                b = F.fn_exact(k)
                ps = b.find_calls(r"TimeParser::parse_str_to_epoch_seconds$")
                raws = [c_ for c_ in b.find_calls(r"str::parse$") if re.search(r"u64|i64|u128|i128|f64", (c_.ga or "") + c_.nname)]
                if not raws:
                    continue
                for r_ in raws:
                    # does this raw parse read a value the shared parser also reads (the literal)?
                    shared = [p_ for p_ in ps if wide_all(b, p_.args[0], partial=False) & wide_all(b, r_.args[0], partial=False)]
                    if not shared:
                        continue
                    n += 1
                    none_e = []
                    for p_ in shared:
                        try:
                            none_e += variant_edge(b, p_, "None")
                        except AnchorMissing:
                            pass
                    ok = any(b.dominates_edge(e_, r_.bb) for e_ in none_e)
                    inst.sites.append("%s @ %s: raw parse behind the shared parser's None edge=%s" % (nm, sp(b, r_.bb), ok))
                    if not ok:
                        bad.append(("raw-epoch-first:%s" % nm, "%s parses the literal as a raw integer before (or instead of) the shared time parser (%s): an epoch spelled in ms / us / ns is taken as seconds on this path" % (nm, sp(b, r_.bb)), None))
        if n < 1:
            inst.sites.append("no site parses a time literal as a raw integer")
        return bad
    ctx.run("C16.h", "K1 DOM", "time normalisation sites", "a raw integer parse of a time literal is only the fallback of the shared parser", h_)

    def i_(inst):
        b = F.fn("shared::time::TimeParser::normalize_integer_epoch")
        de = b.find_calls(r"div_euclid$")
        trunc = []
        for i in sorted(b.live_blocks()):
            for st in b.blocks[i]["s"]:
                v = st.get("v")
                if v and v.get("r") == "bin" and v.get("op") == "Div" and "i128" in (v["b"].get("k") or "") + b.local_ty(st["a"][0]):
                    trunc.append(i)
        inst.sites = ["div_euclid x%d, truncating `/` on i128 x%d" % (len(de), len(trunc))]
        if trunc:
            return [("epoch-truncates-toward-zero", "normalize_integer_epoch scales a signed epoch with `/` (%s): a pre-1970 instant in ms / us / ns is stored one second later than its ISO-8601 spelling" % sp(b, trunc[0]), None)]
        if len(de) < 3:
            raise AnchorMissing("the three unit lanes of normalize_integer_epoch (div_euclid x%d)" % len(de))
        return []
    ctx.run("C16.i", "K6 TABLE", "TimeParser::normalize_integer_epoch", "integer epochs are floored to the second like the other spellings", i_)

    def j_(inst):
        k = "command::parser::commands::query::sneldb_query::__parse_since_clause"
        if not F.has(k):
            raise AnchorMissing(k)
        b = F.fn_exact(k)
        callees = sorted({c_.nname.split("::")[-1] for c_ in b.calls if not c_.cleanup and "sneldb_query::__parse_" in c_.nname})
        inst.sites = ["since_clause -> %s" % callees]
        miss = [x for x in ("__parse_string_literal", "__parse_integer") if x not in callees]
        if miss:
            return [("since-spelling-rejected:%s" % ",".join(m_[8:] for m_ in miss), "the SINCE clause of QUERY does not accept %s (docs/src/commands/query.md shows both a quoted literal and a bare epoch)" % [m_[8:] for m_ in miss], None)]
        return []
    ctx.run("C16.j", "K4 REACH", "QUERY grammar: since_clause", "SINCE accepts quoted literals and bare epochs", j_)

    def k_(inst):
        """`one instant, one value`: a JSON number in a time field is an epoch in s / ms / us / ns whatever its spelling. All numeric
        branches of TimeParser::normalize_json_value (as_i64, as_u64, as_f64) go through normalize_integer_epoch: the value stored
        for a float derives from that call, like the value stored for an integer."""
        bad = []
        n = F.fn("TimeParser::normalize_json_value")
        nie = [c for c in n.calls if not c.cleanup and c.nname.endswith("TimeParser::normalize_integer_epoch")]
        views = {}
        for c in n.calls:
            if not c.cleanup and re.search(r"Number::as_(i64|u64|f64)$", c.nname):
                views[c.nname.split("::")[-1]] = c
        if "as_f64" not in views or not nie:
            raise AnchorMissing("as_f64 / normalize_integer_epoch in TimeParser::normalize_json_value")

        def scaled(view):
            """a normalize_integer_epoch call whose argument derives from this view of the number (through floor / casts)"""
            fl = {l for l, _ in n.flow_forward(view.dest)}
            for c in nie:
                src = c.args[0]
                for _ in range(4):
                    if n._origin_locals(src) & fl:
                        return c
                    L = [l for l in n.origins(src) if l[0] == "call"]
                    if not L:
                        break
                    if L[0][2] == view.bb:
                        return c
                    cc = n.call_at(L[0][2])
                    if not cc.args:
                        break
                    src = cc.args[0]
            return None
        for nm, v in sorted(views.items()):
            c = scaled(v)
            inst.sites.append("%s @ %s -> normalize_integer_epoch: %s" % (nm, sp(n, v.bb), bool(c)))
            if c is None:
                bad.append(("numeric-spelling-not-scaled:%s" % nm, "TimeParser::normalize_json_value stores the %s view of a number without the s / ms / us / ns scaling of normalize_integer_epoch: the same instant written as a float (1709652600000.0) and as an integer is stored as two different values" % nm, sp(n, v.bb)))
        return bad
    ctx.run("C16.k", "K11 SIB", "TimeParser::normalize_json_value", "integer and float spellings of an epoch are scaled alike", k_)

    def l_(inst):
        # a calendar day / week / month / year is one bucket even when its first local time occurs twice
        # (clocks set back at midnight): only an hour bucket may start at the second occurrence
        bad = []
        grains = {}
        for g in ("hour", "day", "week", "month", "year"):
            grains[g] = F.fn("CalendarTimeBucketer::bucket_%s" % g)
        checked = 0
        for g in ("day", "week", "month", "year"):
            b = grains[g]
            locs = []
            for c in b.calls:
                if c.cleanup or not c.callee or not F.has(c.callee):
                    continue
                L = F.fn_exact(c.callee)
                if enum_switches_on(L, lambda leaves: True, adt_re=r"chrono::offset::LocalResult"):
                    locs.append((c, L))
            if not locs:
                raise AnchorMissing("bucket_%s: the helper that interprets the bucket's local start (a switch on chrono LocalResult)" % g)
            for c, L in locs:
                checked += 1
                inst.sites.append(sp(b, c.bb) + " bucket_%s -> %s" % (g, L.key.split("::")[-1]))
                for i in sorted(L.live_blocks()):
                    for st in L.blocks[i]["s"]:
                        if st.get("a") != [0] or "v" not in st or st["v"].get("r") != "use":
                            continue
                        lv = L.origins(st["v"]["o"])
                        if not any(isinstance(l[-1], tuple) and "@Ambiguous" in l[-1] and ".1" in l[-1] for l in lv):
                            continue
                        # block i returns the second occurrence: which parameter switches it on, and what does bucket_<g> pass?
                        guards = [(j, si) for (j, si) in bool_switches_on(L, lambda leaves: any(l[0] == "param" for l in leaves)) if L.dominates_edge((j, si["true"]), i)]
                        off = False
                        for j, si in guards:
                            for l in L.origins(si["op"]):
                                if l[0] != "param":
                                    continue
                                pidx = [n_ for n_ in range(1, len(c.args) + 1) if L.local_name(n_) == l[1]]
                                if pidx and c.args[pidx[0] - 1].get("k") == "false":
                                    off = True
                        if not off:
                            bad.append(("second-occurrence:%s" % g, "bucket_%s can start a bucket at the second occurrence of a repeated local time: in a zone that sets its clocks back at midnight the %s is split into two buckets" % (g, g), sp(L, i)))
        if checked < 4:
            raise AnchorMissing("localising helper calls of the four calendar granularities (%d)" % checked)
        seen, out = set(), []
        for x in bad:
            if x[0] not in seen:
                seen.add(x[0])
                out.append(x)
        return out
    ctx.run("C16.l", "K8 GUARD + K6", "CalendarTimeBucketer::bucket_{day,week,month,year}", "a repeated local midnight does not split a calendar bucket", l_)
