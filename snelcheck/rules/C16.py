"""C16 — one instant, one value on every path: single-parser layering only."""
from .util import *
from ..callgraph import CallGraph

EXPLANATION = """
Claimed narrowly. Decides layering: (a) string-to-instant parsing entry points of chrono (parse_from_rfc3339 / parse_from_rfc2822 / parse_from_str / FromStr) and the epoch-magnitude heuristic
(normalize_integer_epoch) are called only from shared::time::TimeParser; (b) every site that turns a user-supplied time literal into a stored or compared value (STORE payload normalisation,
WHERE literal normalisation for zone pruning, row-condition building for WHERE and SINCE, temporal pruning, materialisation spec) reaches TimeParser::{parse_str_to_epoch_seconds, normalize_json_value};
(c) SINCE is parsed by the same function at the row-condition site and at the pruning site (the SINCE value flows unparsed into the filter whose literal is normalised by the same parser).
Does NOT decide the parser's arithmetic (digit-count boundaries, pre-1970, offsets), float epochs, or PER bucket alignment.
"""
FLOOR = 3
REQUIRED = ["C16.a", "C16.b", "C16.c"]

CHRONO_PARSE = re.compile(r"^chrono::.*(parse_from_rfc3339|parse_from_rfc2822|parse_from_str|parse_and_remainder|FromStr>::from_str)$|^(time|humantime|dateparser|iso8601)::")
PARSER_FNS = {"shared::time::TimeParser::parse_str_to_epoch_seconds", "shared::time::TimeParser::normalize_json_value"}


def run(ctx):
    F = ctx.F
    cg = CallGraph(F)

    def a(inst):
        bad = []
        users = {}
        for k in cg.nodes:
            hit = sorted({norm_path(t) for t in cg.edges[k] if CHRONO_PARSE.search(norm_path(t))})
            if hit:
                users[k] = hit
        inst.sites = ["%s -> %s" % (norm_path(k), v) for k, v in sorted(users.items())]
        if not any(norm_path(k).startswith("shared::time::TimeParser::") for k in users):
            raise AnchorMissing("TimeParser no longer calls a chrono parsing entry point")
        for k, v in users.items():
            if not norm_path(k).startswith("shared::time::TimeParser::"):
                bad.append(("second-time-parser:%s" % norm_path(k.split("::{closure")[0]), "%s parses time strings on its own (%s) instead of going through shared::time::TimeParser" % (k, v), None))
        heur = "shared::time::TimeParser::normalize_integer_epoch"
        if heur not in cg.nodes:
            raise AnchorMissing(heur)
        for k in cg.callers(heur):
            if not norm_path(k).startswith("shared::time::TimeParser::"):
                bad.append(("heuristic-caller:%s" % norm_path(k), "%s calls the epoch-magnitude heuristic directly" % k, None))
        return bad
    ctx.run("C16.a", "K4 REACH", "crate call graph", "one string-to-instant parser", a)

    SITES = [
        ("STORE payload", "engine::schema::normalization::PayloadTimeNormalizer::<'a>::normalize", "normalize_json_value"),
        ("WHERE literal for pruning", "engine::core::filter::filter_group_builder::FilterGroupBuilder", "parse_str_to_epoch_seconds"),
        ("WHERE row condition", "engine::core::filter::condition_evaluator_builder::ConditionEvaluatorBuilder::add_where_clause", "parse_str_to_epoch_seconds"),
        ("SINCE row condition", "engine::core::filter::condition_evaluator_builder::ConditionEvaluatorBuilder::add_special_fields", "parse_str_to_epoch_seconds"),
        ("temporal pruning", "engine::core::zone::selector::pruner::temporal_pruner::TemporalPruner::<'a>::apply_temporal_only", "parse_str_to_epoch_seconds"),
    ]

    def b_(inst):
        bad = []
        for nm, prefix, fn in SITES:
            ks = [k for k in cg.nodes if k == prefix or k.startswith(prefix + "::")]
            if not ks:
                raise AnchorMissing(prefix)
            direct = sorted({norm_path(k) for k in ks if any(t.endswith("TimeParser::" + fn) for t in cg.edges[k])})
            inst.sites.append("%s: %s" % (nm, [d.split("::")[-1] if "closure" not in d else "::".join(d.split("::")[-2:]) for d in direct]))
            if not direct:
                bad.append(("site-bypasses-parser:%s" % nm, "%s (%s) no longer calls TimeParser::%s" % (nm, prefix, fn), None))
        return bad
    ctx.run("C16.b", "K4 REACH", "time normalisation sites", "every literal-to-instant site uses the one parser", b_)

    def c(inst):
        bad = []
        # pruning side: add_time_filter wraps SINCE unparsed (Utf8) so that normalize_temporal_literals parses it
        atf = F.fn("FilterGroupBuilder::add_time_filter")
        ag = [v for (bb, j, v, dst) in atf.aggregates("types::ScalarValue", "Utf8")]
        fam = [atf] + [F.fn_exact(k) for k in F.find("^" + re.escape(atf.key) + r"::\{closure")]
        utf = any(bb_.aggregates("types::ScalarValue", "Utf8") or bb_.find_calls(r"ScalarValue::Utf8$") for bb_ in fam)
        if not utf:
            bad.append(("since-prune-form", "add_time_filter no longer hands the SINCE literal on as a string to be normalised by the shared parser", None))
        other = [c_.nname for bb_ in fam for c_ in bb_.calls if not c_.cleanup and re.search(r"str::parse$|FromStr>::from_str$|chrono::", c_.nname)]
        if other:
            bad.append(("since-prune-own-parse", "add_time_filter parses SINCE on its own: %s" % other, None))
        # row side: add_special_fields parses `since` with the shared parser first; a raw integer parse is only the fallback on its None edge
        sf = F.fn("ConditionEvaluatorBuilder::add_special_fields")
        ps = [c_ for c_ in sf.find_calls(r"TimeParser::parse_str_to_epoch_seconds$")]
        if not ps:
            raise AnchorMissing("parse_str_to_epoch_seconds in add_special_fields")
        p0 = ps[0]
        raw = sf.find_calls(r"str::parse$")
        none_e = variant_edge(sf, p0, "None")
        for r_ in raw:
            if not any(sf.dominates_edge(e, r_.bb) for e in none_e):
                bad.append(("since-raw-parse-first", "add_special_fields parses SINCE as a raw integer without trying the shared parser first", None))
        L = fmt_leaves(sf.origins(p0.args[0]))
        inst.sites = [sp(sf, p0.bb), "parsed value: %s" % L]
        if "since" not in L:
            bad.append(("since-other-value", "the value parsed for the SINCE condition is %s" % L, None))
        # the comparison added is >= on the time field
        adds = sf.find_calls(r"ConditionEvaluator::add_numeric_condition$")
        ops = set()
        for a_ in adds:
            for l in sf.origins(a_.args[2]):
                if l[0] == "agg":
                    ops.add(l[1].split("::")[-1])
        return bad
    ctx.run("C16.c", "K11 SIB", "SINCE at pruning and row-condition sites", "SINCE is interpreted by the same parser on both sides", c)
