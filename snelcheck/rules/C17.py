"""C17 — parsing and dispatch are total."""
from .util import *
import json
from ..callgraph import CallGraph

EXPLANATION = """
Decides: (a) explicit-panic sweep: from the roots parse_command, the JSON command conversion and dispatch_command, every explicit panic site (Option/Result unwrap/expect, panic!, unreachable!, assert failures,
unwrap_unchecked) in the parser layer (command::parser, frontend::http::json_command) and in the dispatch layer (command::* reachable from dispatch_command) must be on the reviewed allow-list;
where the allow-list reason is structural it is machine-checked (unwrap dominated by the matching is_some / !is_empty / peek-Some edge; `unreachable!` on Ok(None) justified by every Ok of execute_streaming wrapping Some).
(b) dispatcher totality: every Command variant a parser constructs either has an explicit arm in dispatch_command or falls into a wildcard arm that writes a response and cannot panic.
(c) unbounded recursion: every call-graph cycle inside the parser layer that is reachable from parse_command must carry a depth guard (reported per cycle).
Not decided: termination of the peg runtime, implicit panics (arithmetic overflow, slice indexing, allocation), the engine below the handlers (reported as a count only), print/parse round trip (sneldb has no command printer).
(d) byte offsets: wherever the parser layer slices a string (`s[a..b]`, split_at, get(range)) at a position found by searching (find / rfind / match_indices / char_indices / position), the string searched is
the sliced string itself or a byte-for-byte congruent copy of it (to_ascii_uppercase / to_ascii_lowercase); a Unicode case mapping (to_uppercase / to_lowercase) changes byte lengths, so its offsets
slice the original off a char boundary (panic) or at the wrong place. Decides the congruence of the searched and the sliced string, not that the arithmetic on the offset is right.
(e) precedence is encoded by layering of the generated grammar functions (query and PlotQL): or_expr takes its operands from and_expr / or_expr, and_expr from factor / and_expr and never from or_expr / expr,
factor (NOT) from factor, and a looser level is re-entered from factor only after a matched "(" literal; each level's action builds its own node (Or / And / Not).
(f) work per command is bounded by the data, not by a value in it: TemporalCalendarIndex::add_zone_range walks every hour bucket between its two bounds, so every call site passes either one value twice
or a range that a comparison with a constant has bounded (a zone holding two time values centuries apart otherwise makes FLUSH - and every later FLUSH / QUERY of the shard - hang).
(g) the nesting guard reads a command the way the grammar does: check_expr_nesting skips string literals, so it must end a literal exactly where the grammars' string_literal rule ends it - the
guard treats a backslash as an escape if and only if the rule does (today neither does). A guard that skips `\"` while the grammar ends the literal there never counts the parentheses that follow.
(h) keywords are whole words: in every peg grammar the generated __parse_ci (the case-insensitive keyword matcher) looks at the character after the run of letters and refuses a digit or '_'
(otherwise `not_x` is the keyword NOT followed by `_x`, `by_region` is BY `_region`, `for_x` is FOR `_x`).
(i) numbers are not narrowed silently: every narrowing or float-to-int `as` cast in the parser layer is dominated by a comparison of the same value with a bound of the target type
(`TOP 4294967296` must be an error, not 0).
(j) a string literal that is never closed is not a string: the tokenizer's parse_string_literal returns a StringLiteral only on a path that consumed the closing quote.
"""
FLOOR = 12
REQUIRED = ["C17.a1", "C17.a2", "C17.b", "C17.c", "C17.d", "C17.e", "C17.f", "C17.g", "C17.h", "C17.i", "C17.j", "C17.k", "C17.l"]

PANIC = re.compile(r"(option::Option::(unwrap|expect|unwrap_unchecked)|result::Result::(unwrap|expect|unwrap_err|expect_err|unwrap_unchecked)|"
                   r"panicking::(panic\w*|unreachable_display|assert_failed\w*|begin_panic\w*)|rt::(begin_panic|panic_fmt)\w*)$")
TRACING = {"$crate::event", "tracing::event", "$crate::valueset", "event", "info", "debug", "warn", "error", "trace", "$crate::span", "span"}


def in_parser(n):
    return n.startswith("command::parser::") or n.startswith("frontend::http::json_command::") or ("frontend::http::json_command" in n and n.startswith("<"))


def in_dispatch(n):
    return (n.startswith("command::") or n.startswith("<command::")) and not n.startswith("command::parser::")


def base(k):
    return norm_path(k.split("::{closure")[0])


def panic_sites(F, cg, keys):
    out = []
    for k in sorted(keys):
        if "__CALLSITE" in k:
            continue
        for (bb, p, u, virt, sp_, mac, cu, st) in F.cg[k]["c"]:
            n = norm_path(p or u or "")
            if cu or not PANIC.search(n) or (set(mac) & TRACING):
                continue
            out.append((k, bb, n, sp_, mac))
    return out


# ---- machine-checked reasons ------------------------------------------------------------------------------------
def guarded_by(body, bb, test_re, truth):
    for c in body.find_calls(test_re):
        for e in bool_result_edge(body, c, truth):
            if body.dominates_edge(e, bb):
                return True
    return False


def in_some_arm_of(body, bb, call_re):
    for c in body.find_calls(call_re):
        for i, si in result_switches(body, c):
            for t in edges_for_variant(si, "Some"):
                if body.dominates_edge((i, t), bb):
                    return True
    return False


def ok_always_some(F, names):
    for nm in names:
        b = F.fn(nm)
        oks = [(bb, v) for (bb, j, v, dst) in b.aggregates("result::Result", "Ok") if dst == [0]]
        if not oks:
            return False
        for bb, v in oks:
            L = b.origins(v["o"][0])
            if not all(l[0] == "agg" and l[1].endswith("Option::Some") for l in L):
                return False
    return True


ALLOW_PARSER = {
    # (base function, callee tail): (reason, machine check or None)
    ("command::parser::commands::define::parse", "unwrap"): ("peek().unwrap() only after peek().is_some()", lambda F, b, bb: guarded_by(b, bb, r"Option::is_some$", True)),
    ("command::parser::tokenizer::tokenize", "unwrap"): ("chars.next().unwrap() inside the Some(c) arm of chars.peek()", lambda F, b, bb: in_some_arm_of(b, bb, r"Peekable.*::peek$")),
    ("frontend::http::json_command::from", "unwrap"): ("reduce(..).unwrap() only when the vector is non-empty", lambda F, b, bb: guarded_by(b, bb, r"Vec::is_empty$", False)),
}
PEG_ENTRY = re.compile(r"^command::parser::commands::\w+::(sneldb_\w+|plotql_parser)::\w+$")

ALLOW_DISPATCH = {
    ("command::handlers::query::handler::QueryCommandHandler::handle", "panic_fmt"):
        ("unreachable!() on Ok(None): every Ok of execute_streaming / execute_sequence_streaming wraps Some",
         lambda F, b, bb: ok_always_some(F, ["QueryExecutionPipeline::execute_streaming", "QueryExecutionPipeline::execute_sequence_streaming"])),
    ("command::handlers::query::merge::aggregate_stream::AggregateStreamMerger::new", "expect"):
        ("constructed only by StreamMergerKind::for_context under its aggregate branch", "callers:StreamMergerKind::for_context"),
    ("command::handlers::query::merge::sequence_stream::SequenceStreamMerger::create_result_stream", "unwrap"):
        ("builder_opt.take().unwrap() directly after builder_opt was observed Some in the same iteration", None),
    ("command::handlers::show::delta::watermark::WatermarkDeduplicator::clone_detached", "expect"):
        ("ColumnBatch::new with the schema, columns and len of an existing valid batch", None),
}


def run(ctx):
    F = ctx.F
    cg = CallGraph(F)

    def sweep(roots, scope):
        seen = cg.reachable(roots, stop=lambda k: k in cg.nodes and not scope(norm_path(k)))
        keys = [k for k in seen if k in cg.nodes and scope(norm_path(k))]
        return seen, keys

    def a1(inst):
        roots = [k for k in cg.nodes if norm_path(k) == "command::parser::command::parse_command"]
        if not roots:
            raise AnchorMissing("parse_command")
        roots += [k for k in cg.nodes if in_parser(norm_path(k)) and "json_command" in k]
        seen, keys = sweep(roots, in_parser)
        sites = panic_sites(F, cg, keys)
        bad = []
        for k, bb, n, sp_, mac in sites:
            tail = n.split("::")[-1]
            bk = base(k)
            if PEG_ENTRY.match(bk) and tail == "panic_fmt" and "panic" in mac:
                inst.sites.append("%s: peg runtime invariant panic (nondeterministic re-parse) — macro generated, allowed" % bk.split("::")[-2])
                continue
            ent = ALLOW_PARSER.get((bk, tail))
            if ent is None:
                bad.append(("panic-site:%s:%s" % (bk, tail), "%s can panic on input: %s at %s is not on the reviewed allow-list" % (bk, n, sp_), None))
                continue
            reason, chk = ent
            body = F.fn_exact(k)
            if chk is not None and not chk(F, body, bb):
                bad.append(("panic-site-unguarded:%s:%s" % (bk, tail), "%s: %s at %s — the allow-list reason (%s) no longer holds structurally" % (bk, n, sp_, reason), None))
            else:
                inst.sites.append("%s %s: %s" % (bk.split("::")[-2] + "::" + bk.split("::")[-1], tail, reason))
        inst.detail = "parser-layer bodies swept: %d; explicit panic sites: %d" % (len(keys), len(sites))
        if len(keys) < 150:
            raise AnchorMissing("parser sweep covers only %d bodies" % len(keys))
        return bad
    ctx.run("C17.a1", "K4 EFFECT", "parser layer (parse_command, JSON conversion)", "no explicit panic site is reachable on user input", a1)

    def a2(inst):
        roots = [k for k in cg.nodes if norm_path(k).startswith("command::dispatcher::dispatch_command")]
        if not roots:
            raise AnchorMissing("dispatch_command")
        seen, keys = sweep(roots, in_dispatch)
        sites = panic_sites(F, cg, keys)
        bad = []
        for k, bb, n, sp_, mac in sites:
            tail = n.split("::")[-1]
            bk = base(k)
            ent = ALLOW_DISPATCH.get((bk, tail))
            if ent is None:
                bad.append(("panic-site:%s:%s" % (bk, tail), "%s can panic while dispatching a command: %s at %s is not on the reviewed allow-list" % (bk, n, sp_), None))
                continue
            reason, chk = ent
            body = F.fn_exact(k)
            ok = True
            if callable(chk):
                ok = chk(F, body, bb)
            elif isinstance(chk, str) and chk.startswith("callers:"):
                want = chk.split(":", 1)[1]
                cs = {base(x) for x in cg.callers(k.split("::{closure")[0]) if "_test" not in x}
                ok = bool(cs) and all(c.endswith(want) for c in cs)
            if not ok:
                bad.append(("panic-site-unguarded:%s:%s" % (bk, tail), "%s: %s at %s — the allow-list reason (%s) no longer holds" % (bk, n, sp_, reason), None))
            else:
                inst.sites.append("%s %s: %s" % (bk.split("::")[-1], tail, reason))
        # below the handlers: count only
        eng = 0
        for k in seen:
            if k in cg.nodes and not in_dispatch(norm_path(k)) and not in_parser(norm_path(k)):
                pass
        inst.detail = "dispatch-layer bodies swept: %d; explicit panic sites: %d" % (len(keys), len(sites))
        if len(keys) < 300:
            raise AnchorMissing("dispatch sweep covers only %d bodies" % len(keys))
        return bad
    ctx.run("C17.a2", "K4 EFFECT", "dispatch layer (command::* from dispatch_command)", "no explicit panic site is reachable while a command is dispatched", a2)

    def b_(inst):
        # variants constructed by the parser layer
        roots = [k for k in cg.nodes if norm_path(k) == "command::parser::command::parse_command"]
        roots += [k for k in cg.nodes if in_parser(norm_path(k)) and "json_command" in k]
        seen, keys = sweep(roots, in_parser)
        built = {}
        fh = open(F.dir + "/bodies.jsonl", "rb")
        for k in keys:
            off, ln = F.idx[k]
            fh.seek(off)
            raw = fh.read(ln)
            if b'"adt":"command::types::Command"' not in raw:
                continue
            for (bb, j, v, dst) in F.fn_exact(k).aggregates("command::types::Command"):
                built.setdefault(v["var"], set()).add(base(k))
        adt = F.adts["command::types::Command"]
        for v in adt["variants"]:
            if not v["f"] and v["n"] not in built:
                # unit variants (Ping, ListUsers, Flush?) appear as constants, not aggregates: find by name in parser bodies
                pass
        d = F.fn("command::dispatcher::dispatch_command")
        sw = param_enum_switches(d, r"types::Command$", "cmd")
        if not sw:
            raise AnchorMissing("match on cmd")
        i, si = sw[0]
        explicit = {k for k in si["edges"] if k != "else"}
        wild = set(si.get("else_variants") or [])
        inst.sites.append("parser builds: %s" % sorted(built))
        inst.sites.append("explicit arms: %s" % sorted(explicit))
        inst.sites.append("wildcard receives: %s" % sorted(wild))
        bad = []
        if len(built) < 8:
            raise AnchorMissing("only %d Command variants seen under the parser" % len(built))
        unhandled = sorted(set(built) & wild)
        if wild:
            blocks = edge_dominated(d, (i, si["edges"]["else"]))
            pan = [c for c in d.calls if c.bb in blocks and not c.cleanup and PANIC.search(c.nname) and not (set(c.mac) & TRACING)]
            rend = [c for c in d.calls if c.bb in blocks and not c.cleanup and re.search(r"Renderer::render$|Response::error$", c.nname)]
            wr = [c for c in d.calls if c.bb in blocks and not c.cleanup and re.search(r"write_all$", c.nname)]
            if pan:
                for v in unhandled or ["<none built today>"]:
                    bad.append(("unhandled-variant-panics:%s" % v, "Command::%s (built by %s) has no dispatcher arm and the wildcard arm panics" % (v, sorted(built.get(v, []))), None))
            elif not (rend and wr):
                for v in unhandled:
                    bad.append(("unhandled-variant-unanswered:%s" % v, "Command::%s has no dispatcher arm and the wildcard arm writes no response" % v, None))
            else:
                inst.sites.append("wildcard arm answers with an error response for %s" % unhandled)
        for v in sorted(set(built) - explicit - wild):
            bad.append(("variant-without-arm:%s" % v, "Command::%s is built by the parser but dispatch_command cannot receive it" % v, None))
        return bad
    ctx.run("C17.b", "K6 TABLE", "parser-built Command variants vs dispatch_command arms", "every command the parser returns is answered", b_)

    def nesting_guarded(b, bb, input_op, strict=False):
        """is the call at bb dominated by the 'not too deep' outcome of a nesting / depth guard applied to the same input?
        Guards are recognised by name (last path segment contains `nesting` or `depth`) and by outcome: bool -> false edge, Result -> Ok/Continue edge."""
        for gcall in b.calls:
            if gcall.cleanup or not re.search(r"nesting|depth", gcall.nname.split("::")[-1]) or not gcall.args:
                continue
            edges = []
            try:
                edges += bool_result_edge(b, gcall, False)
            except Exception:
                pass
            edges += [e_ for (e_, v_) in ok_edges(b, gcall)]
            if not edges or not any(b.dominates_edge(e_, bb) for e_ in edges):
                continue
            if input_op is None:
                return gcall.nname.split("::")[-1]
            if strict:
                # the guard must look at the very text that is deserialised (same value through moves / refs / as_bytes), not at something it was cut out of
                if b._origin_locals(gcall.args[0], depth=12) & b._origin_locals(input_op, depth=12):
                    return gcall.nname.split("::")[-1]
            elif wide_all(b, gcall.args[0]) & wide_all(b, input_op):
                return gcall.nname.split("::")[-1]
        return None

    def c(inst):
        roots = [k for k in cg.nodes if norm_path(k) == "command::parser::command::parse_command"]
        seen, keys = sweep(roots, in_parser)
        keyset = set(keys)
        # Tarjan SCC restricted to parser-layer nodes
        import sys
        sys.setrecursionlimit(20000)
        idx, low, st, on, sccs, cnt = {}, {}, [], set(), [], [0]

        def sc(v):
            idx[v] = low[v] = cnt[0]
            cnt[0] += 1
            st.append(v)
            on.add(v)
            for w in cg.edges.get(v, ()):
                if w not in keyset:
                    continue
                if w not in idx:
                    sc(w)
                    low[v] = min(low[v], low[w])
                elif w in on:
                    low[v] = min(low[v], idx[w])
            if low[v] == idx[v]:
                comp = []
                while True:
                    w = st.pop()
                    on.discard(w)
                    comp.append(w)
                    if w == v:
                        break
                if len(comp) > 1 or v in cg.edges.get(v, ()):
                    sccs.append(comp)
        for v in keys:
            if v not in idx:
                sc(v)
        bad = []
        for comp in sccs:
            names = sorted({base(x) for x in comp})
            rep = names[0]
            guarded = False
            for x in comp:
                b = F.fn_exact(x)
                if any(re.search(r"depth|level|nest", (l.get("n") or "")) for l in b.locals[1:b.argc + 1]):
                    guarded = True
                if any(re.search(r"depth|nesting", c_.nname) for c_ in b.calls):
                    guarded = True
            if not guarded:
                # recursion bounded from outside: every call that enters the cycle's module from another module sits behind a nesting guard on its input
                mods = {x.rsplit("::", 1)[0] for x in comp}
                entries = []
                for f_ in [k for k in cg.nodes if k.rsplit("::", 1)[0] in mods]:
                    for caller in cg.callers(f_):
                        if caller.split("::{closure")[0].rsplit("::", 1)[0] not in mods and not any(caller.startswith(m_ + "::") for m_ in mods):
                            entries.append((caller, f_))
                if entries:
                    ok_all = True
                    for caller, f_ in entries:
                        cb = F.fn_exact(caller)
                        for c_ in cb.calls:
                            if c_.cleanup or c_.nname != norm_path(f_):
                                continue
                            if not nesting_guarded(cb, c_.bb, c_.args[0] if c_.args else None):
                                ok_all = False
                    if ok_all:
                        guarded = True
            inst.sites.append("cycle %s%s" % ([n.split("::")[-1] for n in names], " (depth-guarded)" if guarded else ""))
            if not guarded:
                if rep in BOUNDED_CYCLES:
                    # the recorded reason is a structural fact of batch::parse: the text it rebuilds for the inner
                    # parse_command never contains '[' (no push / push_str of a constant holding one)
                    bp = F.fn("command::parser::commands::batch::parse")
                    opens = []
                    for c_ in bp.calls:
                        if c_.cleanup or not re.search(r"String::(push|push_str)$", c_.nname) or len(c_.args) < 2:
                            continue
                        a1 = c_.args[1]
                        ks = [str(a1.get("k"))] if isinstance(a1, dict) and a1.get("k") is not None else []
                        ks += [str(l[1]) for l in bp.origins(a1) if l[0] == "const"]
                        if any("[" in k_ for k_ in ks):
                            opens.append(c_)
                    if opens:
                        bad.append(("unbounded-recursion:batch-nesting", "batch::parse copies '[' into the text it hands back to parse_command: BATCH [ BATCH [ ... nests without bound (one native frame pair per level, the remaining text re-tokenised at each)", sp(bp, opens[0].bb)))
                    else:
                        ctx.note("parser cycle %s: %s" % (names, BOUNDED_CYCLES[rep]))
                elif rep in ARMED_CYCLES:
                    bad.append(("unbounded-recursion:%s" % rep, "recursive descent %s has no depth bound: nesting in the input is turned into native stack depth" % [n.split("::")[-1] for n in names], None))
                else:
                    ctx.note("parser cycle without depth guard (not armed, not reproduced yet): %s" % names)
        if not sccs:
            raise AnchorMissing("no recursive cycle found under parse_command (the expression grammar is recursive)")
        # recursive-descent deserialisers of external crates applied to user text: serde_json::Value is a recursive type and
        # sonic_rs drives its Deserialize impl without a depth limit
        for k in keys:
            b = None
            for (bb, p, u, virt, sp_, mac, cu, st) in F.cg[k]["c"]:
                n = norm_path(p or u or "")
                if cu or not EXTERNAL_RECURSIVE.match(n):
                    continue
                b = b or F.fn_exact(k)
                c_ = b.call_at(bb)
                target = (c_.ga or "") if c_ else ""
                if "serde_json::Value" in target or "serde_json::value::Value" in target:
                    g_ = nesting_guarded(b, bb, c_.args[0] if c_ and c_.args else None, strict=True)
                    inst.sites.append("%s: %s into serde_json::Value%s" % (base(k), n, " (guarded by %s)" % g_ if g_ else ""))
                    if g_:
                        continue
                    bad.append(("unbounded-recursion:external:%s<Value>@%s" % (n, base(k)),
                                "%s deserialises user text into the recursive serde_json::Value with %s (no depth limit): nested braces become native stack depth" % (base(k), n), None))
        # the same for crate-local RECURSIVE target types (e.g. the HTTP JSON command whose `where` expression nests): the derived Deserialize impls
        # form a cycle over the crate's types; found from the generic arguments / callee paths mentioned inside `<impl Deserialize for T>::deserialize…`
        de = {}
        for k in F.keys():
            m_ = re.search(r"Deserialize<'de> for ([\w:]+)>::deserialize", k)
            if m_ and not k.startswith("bin:"):
                de.setdefault(m_.group(1), []).append(k)
        tg = {}
        for t, ks_ in de.items():
            outs = set()
            for k in ks_:
                for (bb, p_, u_, virt, sp_, mac, cu, st) in F.cg[k]["c"]:
                    if cu:
                        continue
                    txt = (p_ or "") + " " + (u_ or "") + " " + json.dumps(st or "")
                    for t2 in de:
                        if t2 != t and t2 in txt:
                            outs.add(t2)
                        elif t2 == t and re.search(r"(Box|Vec|Option)<[^>]*" + re.escape(t), txt):
                            outs.add(t2)
            tg[t] = outs
        # generic arguments live on the call records of the bodies: use them for precision where the path alone does not name the type
        for t, ks_ in de.items():
            for k in ks_:
                B = F.fn_exact(k)
                for c_ in B.calls:
                    if c_.cleanup:
                        continue
                    g = c_.ga or ""
                    for t2 in de:
                        if t2 in g and (t2 != t or re.search(r"(Box|Vec|Option)<[^>]*" + re.escape(t), g)):
                            tg[t].add(t2)

        def recursive_from(t0):
            seen_, stack_ = set(), [t0]
            while stack_:
                x = stack_.pop()
                for y in tg.get(x, ()):
                    if y == t0 or y in tg.get(y, ()):
                        return y
                    if y not in seen_:
                        seen_.add(y)
                        stack_.append(y)
            # any cycle reachable
            for x in seen_ | {t0}:
                seen2, st2 = set(), list(tg.get(x, ()))
                while st2:
                    y = st2.pop()
                    if y == x:
                        return x
                    if y not in seen2:
                        seen2.add(y)
                        st2 += list(tg.get(y, ()))
            return None
        for k in F.keys():
            if k.startswith("bin:") or not re.match(r"^(frontend|command)::", k):
                continue
            for (bb, p_, u_, virt, sp_, mac, cu, st) in F.cg[k]["c"]:
                n = norm_path(p_ or u_ or "")
                if cu or not EXTERNAL_RECURSIVE.match(n):
                    continue
                b = F.fn_exact(k)
                c_ = b.call_at(bb)
                target = (c_.ga or "") if c_ else ""
                tt = [t for t in de if t in target]
                for t in tt:
                    r_ = recursive_from(t)
                    if not r_:
                        continue
                    # a nesting guard on the same input dominating the call on its "not too deep" edge bounds the recursion
                    guarded = bool(nesting_guarded(b, bb, c_.args[0] if c_.args else None, strict=True))
                    inst.sites.append("%s: %s into %s (recursive through %s)%s" % (base(k), n, t.split("::")[-1], r_.split("::")[-1], " (nesting-guarded)" if guarded else ""))
                    if not guarded:
                        bad.append(("unbounded-recursion:external:%s<%s>@%s" % (n, t.split("::")[-1], base(k)),
                                    "%s deserialises user text into %s, which nests through %s, with %s (no depth limit): nesting in the request becomes native stack depth" % (base(k), t.split("::")[-1], r_.split("::")[-1], n), None))
        return bad
    ctx.run("C17.c", "K4 REACH (cycles)", "parser layer call-graph cycles", "input nesting cannot exhaust the native stack", c)

    SEARCH = re.compile(r"str::(find|rfind|match_indices|rmatch_indices|char_indices|find_map)$|Iterator>::position$|::position$|::rposition$")
    SLICE = re.compile(r"Index<.*> for str>::index$|for str>::index$|str::traits::index(_mut)?$|str::split_at$|str::split_at_checked$|str::get$|str::get_unchecked$|String::truncate$|String::split_off$|String::drain$")
    UNICODE_CASE = re.compile(r"str::(to_uppercase|to_lowercase)$")
    ASCII_CASE = re.compile(r"str::(to_ascii_uppercase|to_ascii_lowercase)$|slice::.*to_ascii_(upper|lower)case$")

    def d(inst):
        bad, n = [], 0
        keys = [k for k in F.keys() if in_parser(norm_path(k)) and not k.startswith("bin:")]
        for k in keys:
            if "::__parse_" in k:
                continue  # peg-generated rule functions only slice at positions peg itself advanced
            b = F.fn_exact(k)
            sl = [c_ for c_ in b.calls if not c_.cleanup and SLICE.search(c_.nname)]
            if not sl:
                continue
            for c_ in sl:
                bound_ops = c_.args[1:]
                locs = set()
                for a_ in bound_ops:
                    locs |= wide_all(b, a_)
                srch = [x for x in b.calls if not x.cleanup and x.dest and x.dest[0] in locs and SEARCH.search(x.nname)]
                if not srch:
                    continue
                n += 1
                for x in srch:
                    # the searched string: receiver of find / the string whose char_indices are taken
                    recv_locs = wide_all(b, x.args[0])
                    conv = [y for y in b.calls if not y.cleanup and y.dest and y.dest[0] in recv_locs and (UNICODE_CASE.search(y.nname) or ASCII_CASE.search(y.nname))]
                    uni = [y for y in conv if UNICODE_CASE.search(y.nname)]
                    inst.sites.append("%s @ %s: sliced at an offset from %s%s" % (base(k).split("::")[-1] if "::" in base(k) else base(k), sp(b, c_.bb), x.nname.split("::")[-1], " over " + conv[0].nname.split("::")[-1] if conv else ""))
                    if not (recv_locs & wide_all(b, c_.args[0])):
                        bad.append(("offset-from-unrelated-string:%s" % base(k), "%s slices a string (%s) at an offset found by %s in a string that is not derived from it" % (base(k), sp(b, c_.bb), x.nname.split("::")[-1]), None))
                    if uni:
                        bad.append(("offset-from-unicode-case-mapping:%s" % base(k), "%s slices a string (%s) at an offset found by %s in a %s copy: Unicode case mapping changes byte lengths, the offset is not valid in the original" % (base(k), sp(b, c_.bb), x.nname.split("::")[-1], uni[0].nname.split("::")[-1]), None))
        if n < 2:
            raise AnchorMissing("search-then-slice sites in the parser layer (found %d, confirmed >= 2 in remember.rs)" % n)
        return bad
    ctx.run("C17.d", "K7 PROV", "parser layer: search-then-slice sites", "offsets used to slice the input come from a byte-congruent string", d)

    def e(inst):
        bad = []
        grammars = [("query", "command::parser::commands::query::sneldb_query::", "__parse_expr"), ("plotql", "command::parser::commands::plotql::plotql_parser::", "__parse_expression")]
        for gname, pre, entry in grammars:
            lv = {entry: 0, "__parse_or_expr": 0, "__parse_and_expr": 1, "__parse_factor": 2}
            node = {"__parse_or_expr": "Or", "__parse_and_expr": "And", "__parse_factor": "Not"}
            for fn in lv:
                if not F.has(pre + fn):
                    raise AnchorMissing(pre + fn)
            for fn, L in lv.items():
                if fn == entry:
                    continue
                b = F.fn_exact(pre + fn)
                rc = [c_ for c_ in b.calls if not c_.cleanup and c_.nname.startswith(pre) and c_.nname[len(pre):] in lv]
                tighter_needed = {0: "__parse_and_expr", 1: "__parse_factor", 2: None}[L]
                called = sorted({c_.nname[len(pre):] for c_ in rc})
                inst.sites.append("%s %s -> %s" % (gname, fn[8:], [x[8:] for x in called]))
                if tighter_needed and tighter_needed not in called:
                    bad.append(("operand-level:%s:%s" % (gname, fn[8:]), "%s grammar: %s does not take an operand from %s" % (gname, fn[8:], tighter_needed[8:]), None))
                paren = []
                for pl in b.find_calls(r"ParseLiteral.*::parse_string_literal$"):
                    if any(l[0] == "const" and l[1].strip('"') == "(" for l in b.origins(pl.args[2])):
                        paren += variant_edge(b, pl, "Matched")
                for c_ in rc:
                    callee = c_.nname[len(pre):]
                    if lv[callee] < L and not any(b.dominates_edge(e_, c_.bb) for e_ in paren):
                        bad.append(("looser-operand:%s:%s->%s" % (gname, fn[8:], callee[8:]), "%s grammar: %s takes an operand from the looser level %s without parentheses (%s): precedence NOT > AND > OR is lost" % (gname, fn[8:], callee[8:], sp(b, c_.bb)), None))
                # the node built by this level's actions
                built = set()
                for ck in F.find("^" + re.escape(pre + fn) + r"::\{closure#\d+\}$"):
                    C = F.fn_exact(ck)
                    for (bb, j, v, dst) in C.aggregates("types::Expr"):
                        built.add(v["var"])
                for (bb, j, v, dst) in b.aggregates("types::Expr"):
                    built.add(v["var"])
                if node[fn] not in built or (built & {"Or", "And", "Not"}) - {node[fn]}:
                    bad.append(("level-node:%s:%s" % (gname, fn[8:]), "%s grammar: %s builds %s (expected Expr::%s only)" % (gname, fn[8:], sorted(built), node[fn]), None))
        return bad
    ctx.run("C17.e", "K4 REACH + K6 TABLE", "generated grammar functions or_expr / and_expr / factor (query, PlotQL)", "NOT binds tighter than AND binds tighter than OR; parentheses override", e)

    def f_(inst):
        bad, n = [], 0
        callers = [k for k in F.keys() if not k.startswith("bin:") and any(norm_path(p_ or u_ or "").endswith("TemporalCalendarIndex::add_zone_range") for (bb, p_, u_, virt, sp_, mac, cu, st) in F.cg[k]["c"] if not cu)]
        for k in callers:
            if "TemporalCalendarIndex::" in k:
                continue
            b = F.fn_exact(k)
            for c_ in b.find_calls(r"TemporalCalendarIndex::add_zone_range$"):
                n += 1
                la, lb = b._origin_locals(c_.args[2], depth=8), b._origin_locals(c_.args[3], depth=8)
                same = bool(la & lb)
                if not same:
                    # the same expression written twice (`t.max(0) as u64, t.max(0) as u64`): both bounds are computed from exactly the same user variables
                    na = {l for l in wide_all(b, c_.args[2], partial=False, depth=8) if b.local_name(l)}
                    nb = {l for l in wide_all(b, c_.args[3], partial=False, depth=8) if b.local_name(l)}
                    same = bool(na) and na == nb

                def acc(op, A, B, truth):
                    # (max - min) <= CONST  (any orientation)
                    def is_sub(L):
                        return any(l[0] == "binop" and l[1].startswith("Sub") for l in L)

                    def is_const(L):
                        return any(l[0] in ("const", "constitem") for l in L)
                    if is_sub(A) and is_const(B):
                        return (op in ("Le", "Lt") and truth) or (op in ("Gt", "Ge") and not truth)
                    if is_sub(B) and is_const(A):
                        return (op in ("Ge", "Gt") and truth) or (op in ("Lt", "Le") and not truth)
                    return False
                bounded = bool(cmp_guard(b, c_.bb, acc))
                # the calendar of the core `timestamp` field holds server-assigned clock values (not taken from the payload): its span is the real time a zone covers
                core = "timestamp" in str_consts(b, c_.args[0], depth=6)
                inst.sites.append("%s @ %s: same value twice=%s, span bounded by a constant=%s%s" % (base(k).split("::")[-1], sp(b, c_.bb), same, bounded, ", core timestamp calendar (server clock)" if core else ""))
                if not same and not bounded and not core:
                    bad.append(("unbounded-bucket-walk:%s" % base(k), "%s calls add_zone_range(min, max) with nothing bounding max - min (%s): one map entry per hour between two values of a zone - two events centuries apart hang the flush worker of the shard" % (base(k), sp(b, c_.bb)), None))
        if n < 1:
            raise AnchorMissing("call sites of TemporalCalendarIndex::add_zone_range")
        return bad
    ctx.run("C17.f", "K8 GUARD", "callers of TemporalCalendarIndex::add_zone_range", "the calendar bucket walk is bounded", f_)

    def g_(inst):
        b = F.fn("commands::query::check_expr_nesting")
        consts = set()
        for i in sorted(b.live_blocks()):
            t = b.blocks[i]["t"]
            if t["t"] == "switch":
                pl = t["d"].get("m") or t["d"].get("c") or []
                if pl and ("[" in "".join(str(x) for x in pl[1:]) or b.local_ty(pl[0]) == "u8"):
                    for v_, _tg in t["v"]:
                        if str(v_).isdigit():
                            consts.add(int(v_))
            for st in b.blocks[i]["s"]:
                v = st.get("v")
                if v and v.get("r") == "bin" and v.get("op") in ("Eq", "Ne"):
                    for o_ in (v["a"], v["b"]):
                        m_ = re.match(r"^(\d+)_u8$", o_.get("k") or "")
                        if m_:
                            consts.add(int(m_.group(1)))
        guard_bs = 92 in consts
        inst.sites.append("check_expr_nesting compares bytes with %s" % sorted(chr(c) for c in consts if 32 <= c < 127))
        if 34 not in consts:
            raise AnchorMissing("the string-literal skip of check_expr_nesting (no comparison with '\"')")
        bad = []
        for gname, pre in (("query", "command::parser::commands::query::sneldb_query::"), ("plotql", "command::parser::commands::plotql::plotql_parser::")):
            k = pre + "__parse_string_literal"
            if not F.has(k):
                raise AnchorMissing(k)
            g = F.fn_exact(k)
            lits = {l[1] for c_ in g.find_calls(r"parse_string_literal$") for l in g.origins(c_.args[2]) if l[0] == "const"}
            rule_bs = any("\\\\" in x for x in lits)
            inst.sites.append("%s string_literal literals: %s" % (gname, sorted(lits)))
            if guard_bs != rule_bs:
                bad.append(("guard-reads-strings-differently:%s" % gname, "check_expr_nesting %s a backslash inside a string literal as an escape while the %s grammar's string_literal rule %s: the guard and the parser disagree on where a literal ends, and nesting after it is not counted" % ("treats" if guard_bs else "does not treat", gname, "does" if rule_bs else "does not"), None))
        return bad
    ctx.run("C17.g", "K11 SIB", "check_expr_nesting vs string_literal (query, PlotQL)", "the nesting guard and the grammar agree on where a string literal ends", g_)

    def h_(inst):
        bad, n = [], 0
        for k in sorted(F.find(r"^command::parser::commands::\w+::\w+::__parse_ci$")):
            b = F.fn_exact(k)
            n += 1
            consts = set()
            for i in sorted(b.live_blocks()):
                t = b.blocks[i]["t"]
                if t["t"] == "switch":
                    for v_, _tg in t["v"]:
                        if str(v_).isdigit():
                            consts.add(int(v_))
                for st in b.blocks[i]["s"]:
                    v = st.get("v")
                    if v and v.get("r") == "bin":
                        for o_ in (v["a"], v["b"]):
                            m_ = re.match(r"^'(.)'$", o_.get("k") or "")
                            if m_:
                                consts.add(ord(m_.group(1)))
            digit = 48 in consts and 57 in consts
            under = 95 in consts
            g = k.split("::")[-2]
            inst.sites.append("%s::ci tests the next character against digits=%s, '_'=%s" % (g, digit, under))
            if not (digit and under):
                bad.append(("keyword-not-whole-word:%s" % g, "the ci rule of the %s grammar accepts a keyword that is followed by an identifier character: `not_x` parses as NOT `_x`, `for_x` as FOR `_x`" % g, None))
        if n < 4:
            raise AnchorMissing("generated __parse_ci functions (found %d, confirmed 4: query, plotql, replay, store)" % n)
        return bad
    ctx.run("C17.h", "K8 GUARD", "peg grammars: ci (keyword matcher)", "a keyword is recognised only as a whole word", h_)

    RANK = {"u8": 8, "i8": 8, "u16": 16, "i16": 16, "u32": 32, "i32": 32, "u64": 64, "i64": 64, "usize": 64, "isize": 64, "u128": 128, "i128": 128, "f64": 1000, "f32": 999}

    def i_(inst):
        bad, n = [], 0
        keys = [k for k in F.keys() if in_parser(norm_path(k)) and not k.startswith("bin:")]
        for k in keys:
            b = F.fn_exact(k)
            for i in sorted(b.live_blocks()):
                for st in b.blocks[i]["s"]:
                    v = st.get("v")
                    if not v or v.get("r") != "cast" or len(st.get("a", [])) != 1:
                        continue
                    pl = v["o"].get("m") or v["o"].get("c")
                    if not pl or len(pl) != 1:
                        continue
                    src, dst = b.local_ty(pl[0]), b.local_ty(st["a"][0])
                    if src not in RANK or dst not in RANK or dst.startswith("f"):
                        continue
                    narrowing = RANK[dst] < RANK[src] or (src[0] == "i" and dst[0] == "u") or (src[0] == "u" and dst[0] == "i" and RANK[dst] <= RANK[src])
                    if not narrowing:
                        continue
                    n += 1
                    srcs = wide_all(b, pl, partial=False, depth=6)
                    lim = (1 << (RANK[dst] - (1 if dst[0] == "i" else 0))) - 1

                    def acc(op, A, B, truth):
                        # one side derives from the cast source, the other is a constant of the magnitude of the target's maximum
                        def big(L):
                            for l in L:
                                if l[0] == "const":
                                    m_ = re.match(r"^(-?\d+)", str(l[1]))
                                    if m_ and abs(int(m_.group(1))) >= lim // 2:
                                        return True
                                if l[0] == "constitem" and re.search(r"MAX$", str(l[1])):
                                    return True
                            return False
                        return big(A) or big(B)
                    guarded = False
                    for j in sorted(b.live_blocks()):
                        if b.blocks[j]["t"]["t"] != "switch":
                            continue
                        si = b.switch_info(j)
                        d = si.get("def") if si and si["kind"] == "bool" else None
                        if not d or d.get("r") != "bin":
                            continue
                        if not ((wide_all(b, d["a"], partial=False, depth=6) | wide_all(b, d["b"], partial=False, depth=6)) & srcs):
                            continue
                        if acc(d["op"], b.origins(d["a"]), b.origins(d["b"]), True) and any(x is not None and b.dominates_edge((j, x), i) for x in (si["true"], si["false"])):
                            guarded = True
                    tf = [c_ for c_ in b.calls if not c_.cleanup and re.search(r"TryFrom.*::try_from$|::try_into$", c_.nname)]
                    inst.sites.append("%s @ %s: %s as %s, range-tested=%s" % (base(k).split("::")[-1], sp(b, i), src, dst, guarded))
                    if not guarded:
                        bad.append(("unchecked-narrowing-cast:%s" % base(k), "%s narrows a parsed number with `as %s` (%s) without a test against the target's range: out-of-range input is altered silently instead of refused" % (base(k), dst, sp(b, i)), None))
        inst.sites.append("narrowing casts in the parser layer: %d" % n)
        return bad
    ctx.run("C17.i", "K8 GUARD", "parser layer: narrowing `as` casts", "numbers beyond the target type are refused, not wrapped", i_)

    def j_(inst):
        b = F.fn("tokenizer::parse_string_literal")
        rets = [(bb, v) for (bb, j, v, dst) in b.aggregates("Token", "StringLiteral") if dst[0] == 0]
        if not rets:
            raise AnchorMissing("Token::StringLiteral return in parse_string_literal")
        # the closing quote: the arm of the char switch on '"' inside the scan loop
        quote_edges = []
        for i in sorted(b.live_blocks()):
            t = b.blocks[i]["t"]
            if t["t"] == "switch":
                for v_, tg in t["v"]:
                    if str(v_) == "34":
                        quote_edges.append((i, tg))
        if not quote_edges:
            raise AnchorMissing("the match arm on '\"' in parse_string_literal")
        bad = []
        quote_edges = sorted(quote_edges)[:1]   # the scan loop's own match; a later `34` arm belongs to the escape handling
        # flag-sensitive reachability: a `closed`-style flag tested before the return can only be true if its `= true` assignment was passed
        cut = list(quote_edges)
        for _round in range(6):
            seen = b.reach(0, cut_edges=cut)
            more = []
            for j in sorted(seen):
                if b.blocks[j]["t"]["t"] != "switch":
                    continue
                si = b.switch_info(j)
                if not si or si["kind"] != "bool" or si["true"] is None:
                    continue
                for l_ in b._origin_locals(si["op"], depth=6):
                    tdefs = [bb2 for (bb2, j2, dpl, rv) in b.defs().get(l_, []) if j2 != -1 and rv.get("r") == "use" and rv["o"].get("k") == "true"]
                    fdefs = [bb2 for (bb2, j2, dpl, rv) in b.defs().get(l_, []) if j2 != -1 and rv.get("r") == "use" and rv["o"].get("k") == "false"]
                    if tdefs and fdefs and not any(x in seen for x in tdefs) and (j, si["true"]) not in cut:
                        more.append((j, si["true"]))
            if not more:
                break
            cut += more
        for (bb, v) in rets:
            seen = b.reach(0, cut_edges=cut)
            if bb in seen:
                bad.append(("unterminated-string-accepted", "parse_string_literal returns a StringLiteral on a path that never saw the closing quote (input ended inside the literal)", witness_path(b, seen, bb)))
        inst.sites = [sp(b, bb) for bb, v in rets]
        return bad
    ctx.run("C17.j", "K2 CUT", "tokenizer::parse_string_literal", "a string literal token exists only if the closing quote was read", j_)

    def k_(inst):
        """Every text command is tokenized before its grammar runs, and a character without an arm of its own becomes the <INVALID>
        word that rejects the whole command. A STORE payload is JSON: the characters a JSON number is made of besides digits and
        letters (`-`, `+`, `.`) must each have an arm of their own in tokenize."""
        bad = []
        b = F.fn("command::parser::tokenizer::tokenize")
        sw = None
        for i_ in sorted(b.live_blocks()):
            if b.blocks[i_]["t"]["t"] != "switch":
                continue
            si = b.switch_info(i_)
            if si and si.get("kind") == "int" and si.get("ty") == "char" and len(si.get("edges", {})) >= 8:
                sw = (i_, si)
                break
        if sw is None:
            raise AnchorMissing("the match on the next character in tokenize")
        i_, si = sw
        have = {int(k) for k in si["edges"]}
        inst.sites = [sp(b, i_), "characters with their own arm: %s" % "".join(sorted(chr(c) for c in have if 32 < c < 127))]
        for ch in "-+.":
            if ord(ch) not in have:
                bad.append(("json-number-char-unhandled:%s" % ch, "tokenize has no arm for %r: a STORE payload holding a JSON number written with it (1e+300) is rejected as 'invalid character during tokenization' although the value conforms to the schema" % ch, sp(b, i_)))
        return bad
    ctx.run("C17.k", "K6 TABLE", "command::parser::tokenizer::tokenize", "every character of a JSON number is a known token character", k_)

    def l_(inst):
        # byte-indexed String / str operations panic off a char boundary: under parse_command the index must come from the
        # text itself (len / find / char_indices ...), never from a constant or plain arithmetic
        cg = CallGraph(F)
        root = "command::parser::command::parse_command"
        if root not in cg.nodes:
            raise AnchorMissing(root)
        seen = cg.reachable([root])
        RISK = re.compile(r"String::(truncate|split_off|drain|replace_range|insert|insert_str|remove)$|str::(split_at|split_at_mut)$")
        SAFE = re.compile(r"::(len|find|rfind|char_indices|floor_char_boundary|ceil_char_boundary|position|rposition|len_utf8|match_indices|rmatch_indices|find_map|next|offset_from)$")
        bad, n = [], 0
        for k in sorted(seen):
            if k not in cg.nodes or not F.has(k):
                continue
            b = F.fn_exact(k)
            for c in b.calls:
                if c.cleanup or not RISK.search(c.nname) or len(c.args) < 2:
                    continue
                n += 1
                L = arith_origins(b, c.args[1])
                inst.sites.append(sp(b, c.bb) + " " + c.nname.split("::")[-1] + " at " + fmt_leaves(L)[:60])
                guarded = any(not g.cleanup and g.nname.endswith("is_char_boundary") and any(b.dominates_edge(e, c.bb) for e in bool_result_edge(b, g, True)) for g in b.calls)
                if guarded:
                    continue
                from_text = [l for l in L if l[0] == "call" and SAFE.search(norm_path(l[1]))]
                other = [l for l in L if l not in from_text and not (l[0] == "const" and str(l[1]).split("_")[0] in ("0", "1"))]
                if not from_text or other:
                    bad.append(("byte-index-off-boundary:%s" % norm_path(k).split("::")[-1], "%s calls %s on client text at %s: when that byte is inside a multi-byte character the parser panics instead of returning an error" % (norm_path(k), c.nname.split("::")[-1], fmt_leaves(L)[:80]), sp(b, c.bb)))
        inst.sites.append("%d byte-indexed string operations under parse_command (%d bodies)" % (n, len(seen)))
        return bad
    ctx.run("C17.l", "K7 PROV", "byte-indexed string operations under parse_command", "a byte position handed to truncate / split_at comes from the text", l_)


# cycles whose overflow was reproduced against the real code (DESIGN.md §4c); others are reported as notes until triaged
ARMED_CYCLES = {
    "command::parser::commands::query::sneldb_query::__parse_and_expr",
    "command::parser::commands::plotql::plotql_parser::__parse_and_expr",
    "command::parser::commands::store::sneldb_store::__parse_balanced_braces",
}
# cycles that were triaged and found bounded by construction (reason recorded, reported as notes)
BOUNDED_CYCLES = {
    "command::parser::command::parse_command": "BATCH nesting: the tokenizer-level splitter drops inner '[' so the parse_command <-> batch::parse recursion is at most 2 deep (100000 nested BATCH -> parse error in 65 ms, no overflow)",
}
# external recursive-descent deserialisers applied to raw user text in the parser layer
# (serde_json's own deserializer enforces a recursion limit of 128; sonic_rs driving serde_json::Value's Deserialize impl does not)
EXTERNAL_RECURSIVE = re.compile(r"^sonic_rs::(from_str|from_slice|from_reader)$")
