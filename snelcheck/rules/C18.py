"""C18 — event ids unique and increasing per shard: generator guard shapes and id assignment sites."""
from .util import *

EXPLANATION = """
Claimed narrowly. Decides: (a) worker::on_store reaches insert_and_maybe_flush only with an id assigned: the id is generated (ShardContext::next_event_id -> set_event_id) on the is_zero edge and the
stored event is that same event; recovery regenerates an id only on the is_zero edge (C01.b2) and the WAL entry carries the id (C01.b1); (b) EventIdGenerator::next: a clock that stepped back is pinned
to last_millis (assignment under Lt(millis, last_millis)); on sequence wrap (sequence == 0 after the masked increment, in the same-millisecond branch) the generator waits for the next millisecond;
wait_next_millis loops while now <= last; last_millis is updated from the millis actually used; the three bit-field widths sum to 64, the shifts equal the widths of the lower fields and the masks are
derived from the same width constants; (c) the shard tag is the owning shard (C12.b).
Noted, not armed: ConditionEvaluator's synthetic id (zone_id << 32 | row) has no segment component.
Does NOT decide behaviour under real clocks, > 4096 events/ms across a wait, or restart with a clock behind the last persisted id (last_millis is not recovered).
"""
FLOOR = 8
REQUIRED = ["C18.a", "C18.b1", "C18.b2", "C18.b3", "C18.d", "C18.e", "C18.f", "C18.g"]


def const_val(F, path):
    if not F.has(path):
        raise AnchorMissing(path)
    b = F.fn_exact(path)
    for blk in b.blocks:
        for s in blk["s"]:
            if "a" in s and s["a"] == [0] and s["v"]["r"] == "use" and "k" in s["v"]["o"]:
                m = re.match(r"^(\d+)_", s["v"]["o"]["k"])
                if m:
                    return int(m.group(1))
    raise AnchorMissing("value of %s" % path)


def run(ctx):
    F = ctx.F
    M = "engine::core::event::event_id::"

    def a(inst):
        # the id is assigned in the shard worker today; a refactor may move it down the ingest path - wherever it lives, it must come
        # before every consumer of the event on that path (the WAL entry, the WAL append, the memtable insert)
        hosts = []
        for nm in ("worker::on_store", "insert::insert_and_maybe_flush"):
            b_ = F.fn(nm)
            if b_.find_calls(r"EventId::is_zero$"):
                hosts.append((nm, b_))
        if len(hosts) != 1:
            raise AnchorMissing("exactly one id-assignment site (is_zero -> next_event_id -> set_event_id) on the store path, found %s" % [h[0] for h in hosts])
        nm, b = hosts[0]
        z = one(b, r"EventId::is_zero$")
        nid = one(b, r"ShardContext::next_event_id$")
        sid = one(b, r"Event::set_event_id$")
        SINK = r"insert::insert_and_maybe_flush$|WalEntry::from_event$|WalHandle::append$|MemTable::insert$|MemTable::insert_batch$"
        sinks = [c_ for c_ in b.find_calls(SINK)]
        if not sinks:
            raise AnchorMissing("a consumer of the event (insert_and_maybe_flush / WalEntry::from_event / WalHandle::append / MemTable::insert) in %s" % nm)
        if nm != "worker::on_store":
            # on_store must hand the event straight to the host
            one(F.fn("worker::on_store"), r"insert::insert_and_maybe_flush$")
        inst.sites = ["id assigned in %s" % nm] + [sp(b, x.bb) for x in (z, nid, sid)] + ["%s @ %s" % (x.nname.split("::")[-1], sp(b, x.bb)) for x in sinks]
        bad = []
        cut = bool_result_edge(b, z, False) + [(sid.bb, sid.to)]
        for ins in sinks:
            bad += must_cross(b, ins.bb, cut_edges=cut, key="consumed-without-id:%s" % ins.nname.split("::")[-1], detail="an event whose id is still zero can reach %s (WAL and store would then disagree on the id, and recovery mints a new one)" % ins.nname.split("::")[-1])
        te = bool_result_edge(b, z, True)
        if not any(b.dominates_edge(e, sid.bb) for e in te):
            bad.append(("id-overwritten", "%s assigns a new id although the event already has one" % nm, None))
        if not any(l[0] == "call" and "next_event_id" in l[1] for l in b.origins(sid.args[1])):
            bad.append(("id-origin", "the id assigned is not ShardContext::next_event_id() (%s)" % fmt_leaves(b.origins(sid.args[1])), None))
        # same event: is_zero / set_event_id / the consumers operate on the same local
        for ins in sinks:
            le = b._origin_locals(ins.args[0]) | wide_all(b, ins.args[0])
            if not (b._origin_locals(sid.args[0]) & le):
                bad.append(("other-event:%s" % ins.nname.split("::")[-1], "the event handed to %s is not the one that received the id" % ins.nname.split("::")[-1], None))
        return bad
    ctx.run("C18.a", "K2 CUT", "store path (worker::on_store / insert_and_maybe_flush)", "every applied event has a generated (or replayed) non-zero id", a)

    def b1(inst):
        b = F.fn("EventIdGenerator::next")
        bad = []
        # assignments to local `millis`
        # the working millisecond: the user variable that receives current_millis() first
        cm = [c_ for c_ in b.find_calls(r"event_id::current_millis$")]
        if len(cm) != 1 or len(cm[0].dest) != 1:
            raise AnchorMissing("current_millis() call")
        ml = cm[0].dest[0]
        pins = []
        for blk in b.live_blocks():
            for s in b.blocks[blk]["s"]:
                if "a" in s and s["a"] == [ml] and s["v"]["r"] == "use":
                    L = b.origins(s["v"]["o"])
                    if has_origin(L, "param", "self", proj_contains=[".last_millis"]):
                        pins.append(blk)

        def acc(op, A, B, truth):
            am = any(l[0] == "call" and "current_millis" in l[1] for l in A)
            bl = has_origin(B, "param", "self", proj_contains=[".last_millis"])
            al = has_origin(A, "param", "self", proj_contains=[".last_millis"])
            bm = any(l[0] == "call" and "current_millis" in l[1] for l in B)
            if am and bl:
                return (op == "Lt" and truth) or (op == "Ge" and not truth) or (op == "Le" and truth)
            if al and bm:
                return (op == "Gt" and truth) or (op == "Le" and not truth) or (op == "Ge" and truth)
            return False
        inst.sites = ["pin sites: %s" % [sp(b, p) for p in pins]]
        if not pins or not any(cmp_guard(b, p, acc) for p in pins):
            bad.append(("clock-regress-unpinned", "a clock that stepped backwards is not pinned to last_millis: ids can decrease", None))
        # sequence wrap -> wait
        w = one(b, r"event_id::wait_next_millis$")

        def acc_wrap(op, A, B, truth):
            return op == "Eq" and truth and has_origin(A, "param", "self", proj_contains=[".sequence"]) and any(l[0] == "const" and l[1].startswith("0_") for l in B)

        def acc_same(op, A, B, truth):
            return op == "Eq" and truth and has_origin(B, "param", "self", proj_contains=[".last_millis"])
        if not cmp_guard(b, w.bb, acc_wrap):
            bad.append(("wrap-without-wait-guard", "wait_next_millis is not taken exactly on sequence wrap (sequence == 0)", None))
        if not cmp_guard(b, w.bb, acc_same):
            bad.append(("wrap-wrong-branch", "sequence wrap handling is not inside the same-millisecond branch", None))
        if not has_origin(b.origins(w.args[0]), "param", "self", proj_contains=[".last_millis"]):
            bad.append(("wait-argument", "wait_next_millis is not given last_millis", None))
        # result of wait is used as millis
        used = False
        for blk in b.live_blocks():
            for s in b.blocks[blk]["s"]:
                if "a" in s and s["a"] == [ml] and any(l[0] == "call" and "wait_next_millis" in l[1] for l in b.origins(s["v"]["o"]) if s["v"]["r"] == "use"):
                    used = True
        if not used:
            bad.append(("wait-result-dropped", "the millisecond returned by wait_next_millis is not used for the id", None))
        # last_millis update from millis
        upd = [s for blk in b.live_blocks() for s in b.blocks[blk]["s"] if "a" in s and s["a"][0] == 1 and ".last_millis" in s["a"]]
        if not upd or not all(ml in b._origin_locals(s["v"]["o"]) for s in upd if s["v"]["r"] == "use"):
            bad.append(("last-millis-update", "last_millis is not updated from the millisecond used", None))
        # the sequence increments by one under the mask
        wa = one(b, r"wrapping_add$")
        if not (wa.args[1].get("k") or "").startswith("1_"):
            bad.append(("sequence-step", "sequence does not advance by exactly 1", None))
        return bad
    ctx.run("C18.b1", "K8 GUARD", "EventIdGenerator::next", "clock regress is pinned; sequence wrap waits for the next millisecond", b1)

    def b2(inst):
        b = F.fn("event_id::wait_next_millis")
        bad = []
        sws = []
        for i in b.live_blocks():
            if b.blocks[i]["t"]["t"] != "switch":
                continue
            si = b.switch_info(i)
            d = si.get("def") if si and si["kind"] == "bool" else None
            if d and d.get("r") == "bin":
                sws.append((i, si, d))
        ok = False
        for i, si, d in sws:
            A, B = b.origins(d["a"]), b.origins(d["b"])
            now_a = any(l[0] == "call" and "current_millis" in l[1] for l in A)
            last_b = has_origin(B, "param", "last")
            if now_a and last_b and d["op"] == "Le":
                # true edge stays in the loop (reaches the next current_millis call), false edge leaves
                cm = [c for c in b.find_calls(r"current_millis$")]
                if any(b.can_reach(si["true"], c.bb) for c in cm) and not any(b.can_reach(si["false"], c.bb) for c in cm):
                    ok = True
            if now_a and last_b and d["op"] == "Gt":
                cm = [c for c in b.find_calls(r"current_millis$")]
                if any(b.can_reach(si["false"], c.bb) for c in cm) and not any(b.can_reach(si["true"], c.bb) for c in cm):
                    ok = True
        inst.sites = ["loop guards: %s" % [(d["op"]) for _, _, d in sws]]
        if not ok:
            bad.append(("wait-loop-guard", "wait_next_millis does not loop while now <= last (a same-millisecond return re-issues ids)", None))
        return bad
    ctx.run("C18.b2", "K8 GUARD", "wait_next_millis", "the wait only ends in a strictly later millisecond", b2)

    def b3(inst):
        T, S, Q = const_val(F, M + "TIMESTAMP_BITS"), const_val(F, M + "SHARD_ID_BITS"), const_val(F, M + "SEQUENCE_BITS")
        inst.sites = ["TIMESTAMP_BITS=%d SHARD_ID_BITS=%d SEQUENCE_BITS=%d" % (T, S, Q)]
        bad = []
        if T + S + Q != 64:
            bad.append(("widths-sum", "bit-field widths sum to %d, not 64" % (T + S + Q), None))
        b = F.fn("EventIdGenerator::next")
        shl = [s for blk in b.live_blocks() for s in b.blocks[blk]["s"] if "v" in s and s["v"]["r"] == "bin" and s["v"]["op"] == "Shl"]

        def items(op):
            out = set()
            for l in b.origins(op):
                if l[0] == "constitem":
                    out.add(l[1].split("::")[-1])
                if l[0] == "binop":
                    for s in b.blocks[l[2]]["s"]:
                        if "v" in s and s["v"]["r"] == "bin" and s["v"]["op"].startswith("Add"):
                            for o in (s["v"]["a"], s["v"]["b"]):
                                if "item" in o:
                                    out.add(o["item"].split("::")[-1])
            return out
        table = {}
        for s in shl:
            wa = wide_all(b, s["v"]["a"])
            who = None
            if any(c_.dest and c_.dest[0] in wa for c_ in b.find_calls(r"saturating_sub$")):
                who = "timestamp_component"
            elif 2 in wa:   # parameter shard_id
                who = "shard_component"
            rhs = items(s["v"]["b"]) | ({s["v"]["b"]["item"].split("::")[-1]} if "item" in s["v"]["b"] else set())
            if who and "1_u64" not in str(s["v"]["a"].get("k", "")):
                table[who] = rhs
        inst.sites.append("shifts: %s" % {k: sorted(v) for k, v in table.items()})
        if table.get("timestamp_component") != {"SHARD_ID_BITS", "SEQUENCE_BITS"}:
            bad.append(("timestamp-shift", "timestamp component is shifted by %s (expected SHARD_ID_BITS + SEQUENCE_BITS)" % sorted(table.get("timestamp_component", [])), None))
        if table.get("shard_component") != {"SEQUENCE_BITS"}:
            bad.append(("shard-shift", "shard component is shifted by %s (expected SEQUENCE_BITS)" % sorted(table.get("shard_component", [])), None))
        # masks derive from the width constants
        for mk, want in (("SEQUENCE_MASK", "SEQUENCE_BITS"), ("SHARD_ID_MASK", "SHARD_ID_BITS")):
            mb = F.fn_exact(M + mk) if F.has(M + mk) else None
            if mb is None:
                raise AnchorMissing(M + mk)
            refs = {o["item"].split("::")[-1] for blk in mb.blocks for s in blk["s"] if "v" in s and s["v"]["r"] == "bin" for o in (s["v"]["a"], s["v"]["b"]) if "item" in o}
            if want not in refs:
                bad.append(("mask-width:%s" % mk, "%s is not derived from %s" % (mk, want), None))
        # fields are masked: sequence & SEQUENCE_MASK, shard & SHARD_ID_MASK
        ands = [s for blk in b.live_blocks() for s in b.blocks[blk]["s"] if "v" in s and s["v"]["r"] == "bin" and s["v"]["op"] == "BitAnd"]
        used = {o["item"].split("::")[-1] for s in ands for o in (s["v"]["a"], s["v"]["b"]) if "item" in o}
        for mk in ("SEQUENCE_MASK", "SHARD_ID_MASK"):
            if mk not in used:
                bad.append(("unmasked:%s" % mk, "a component is not masked with %s: it can spill into the neighbouring field" % mk, None))
        return bad
    ctx.run("C18.b3", "K6 TABLE", "EventId bit layout", "timestamp | shard | sequence fields tile the 64 bits without overlap", b3)

    def d(inst):
        """A segment row gets a synthetic id (zone_id << 32 | row) only when its zone has no id column. Whether a column "has no
        rows" must be decided over every representation a ColumnValues can have (typed i64/u64/f64/bool lanes or byte ranges), as
        ColumnValues::len does; ColumnValues::is_empty looks at the byte ranges only, so a typed u64 id column counts as missing."""
        bad = []
        ln = F.fn("ColumnValues::len")
        full = self_fields_read(ln)
        if len(full) < 2:
            raise AnchorMissing("ColumnValues::len reads the typed lanes and the ranges (found %s)" % sorted(full))
        ie = F.fn("ColumnValues::is_empty")
        part = self_fields_read(ie)
        inst.sites.append("ColumnValues::len reads %s; is_empty reads %s" % (sorted(full), sorted(part)))
        W = set()
        if not full <= part:
            W.add(ie.key)
            # thin wrappers (`fn is_empty(&self) { self.values.is_empty() }`) are partial as well
            grew = True
            while grew:
                grew = False
                for k in F.keys():
                    if k in W or k.startswith("bin:") or not k.endswith("::is_empty"):
                        continue
                    cs = [c for c in F.fn_exact(k).calls if not c.cleanup]
                    if len(cs) == 1 and cs[0].callee in W:
                        W.add(k)
                        grew = True
        n = 0
        evk = F.fn("ConditionEvaluator::evaluate_zones_with_limit").key.split("::{closure")[0]
        for k in F.keys():
            if k in W or k.startswith("bin:"):
                continue
            b = F.fn_exact(k)
            for c in b.calls:
                if not c.cleanup and c.callee in W:
                    # only where the answer decides about the id column: the evaluator (and its closures), or a receiver looked up as "event_id"
                    about_id = k.startswith(evk) or "event_id" in str_consts(b, c.args[0], depth=6)
                    if not about_id:
                        inst.sites.append("partial emptiness predicate used elsewhere (not about the id column): %s" % sp(b, c.bb))
                        continue
                    n += 1
                    bad.append(("column-emptiness-from-ranges-only:%s" % k.split("::{closure")[0].split("::")[-1],
                                "%s decides whether a column has rows with %s, which looks at the byte ranges only: a typed column (the u64 event_id column of every flushed segment) counts as empty" % (
                                    k.split("::")[-2] + "::" + k.split("::")[-1] if "closure" in k else k.split("::")[-1], c.nname.split("::")[-2] + "::is_empty"), sp(b, c.bb)))
        inst.sites.append("%d partial emptiness predicate(s) %s, %d production call(s)" % (len(W), sorted(x.split("::")[-2] for x in W), n))
        if bad:
            return bad
        # the decision itself: the evaluator asks for the row count of the id column
        ev = F.fn("ConditionEvaluator::evaluate_zones_with_limit")
        fam = [ev] + [F.fn_exact(k) for k in F.keys() if k.startswith(ev.key.split("::{closure")[0] + "::{closure")]
        lens = [(b, c) for b in fam for c in b.calls if not c.cleanup and c.nname.endswith("ColumnValues::len")]
        if not lens:
            raise AnchorMissing("site: ColumnValues::len in evaluate_zones_with_limit (the id-column-missing decision)")
        inst.sites += [sp(b, c.bb) for b, c in lens[:3]]
        return bad
    ctx.run("C18.d", "K10 READS", "ConditionEvaluator::evaluate_zones_with_limit / ColumnValues", "an id column counts as missing only when it has no rows in any representation", d)

    def e(inst):
        """`within a shard ids strictly increase in the order in which events were applied - across ... backward steps of the system
        clock and restarts`: a restarted shard starts a fresh generator, so something must move it past every id the store
        already holds before the first new event is applied. (1) WAL replay: each replayed entry's id goes into a generator call
        that cuts the path to MemTable::insert. (2) ids that live only in segments (their WAL is pruned): ShardContext::new must
        derive a generator floor from segment data as well."""
        bad = []
        r = F.fn("WalRecovery::replay_log_file")
        ins = one(r, r"MemTable::insert$")
        adv = [c for c in r.calls if not c.cleanup and re.search(r"EventIdGenerator::(?!next$|new$)\w+$", c.nname) and len(c.args) >= 2]
        inst.sites.append(sp(r, ins.bb))
        ok = False
        for c in adv:
            L = r.origins(c.args[1])
            from_entry = any(l[0] == "call" and re.search(r"Event::event_id$|EventId::", l[1]) for l in L) or bool(r._origin_locals(c.args[1]) & r._origin_locals(ins.args[1]))
            if from_entry and ins.bb not in set(r.reach(0, cut_blocks=[c.bb])):
                ok = True
                inst.sites.append("replay: %s @ %s" % (c.nname.split("::")[-1], sp(r, c.bb)))
        if not ok:
            bad.append(("replay-leaves-generator-behind", "WalRecovery::replay_log_file inserts a recovered event without moving the id generator past its id: after a restart under an earlier clock the next event gets a smaller id than events applied before it", sp(r, ins.bb)))
        n = F.fn("ShardContext::new")
        fam = [n] + [F.fn_exact(k) for k in F.keys() if k.startswith(n.key.split("::{closure")[0] + "::{closure")]
        seg_floor = [c for b in fam for c in b.calls if not c.cleanup and re.search(r"EventIdGenerator::(?!next$|new$)\w+$", c.nname)]
        inst.sites.append("ShardContext::new: generator floor from segment data: %s" % [c.nname.split("::")[-1] for c in seg_floor])
        if not seg_floor:
            bad.append(("generator-ignores-flushed-ids", "ShardContext::new starts a fresh EventIdGenerator and only WAL replay advances it: ids that live in segments only (their WAL is pruned) are not taken into account", None))
        return bad
    ctx.run("C18.e", "K2 CUT + K10 READS", "WalRecovery::replay_log_file / ShardContext::new", "a restarted shard never issues an id below one the store already holds", e)

    def f_(inst):
        """`Rows read from any storage tier carry their real id`: the events a sequence query returns are rebuilt from zones by
        SequenceMaterializer; the id read from the zone's event_id column must not be overwritten with a constant, and the result
        stream must have an event_id column like every other query result."""
        bad = []
        n = 0
        for k in sorted(F.keys()):
            if k.startswith("bin:") or not re.search(r"sequence::materializer::SequenceMaterializer::", k):
                continue
            b = F.fn_exact(k)
            n += 1
            for c in b.calls:
                if not c.cleanup and c.nname.endswith("Event::set_event_id"):
                    L = b.origins(c.args[1])
                    if all(l[0] == "const" or (l[0] == "call" and re.search(r"EventId.*::from$|EventId::from_raw$", l[1]) and all(x[0] == "const" for x in b.origins(b.call_at(l[2]).args[0]))) for l in L):
                        bad.append(("sequence-event-id-overwritten", "%s overwrites the id of a materialized event with a constant: the events of a sequence result do not carry their real id" % k.split("::")[-1], sp(b, c.bb)))
        if n < 1:
            raise AnchorMissing("SequenceMaterializer bodies")
        m = F.fn("SequenceStreamMerger::create_result_stream")
        names = set()
        for (bb, jx, v, dst) in m.aggregates("ColumnSpec"):
            o = dict(zip(v.get("fields", []), v["o"])).get("name")
            for l in m.origins(o):
                if l[0] == "const":
                    names.add(l[1].strip('"'))
        inst.sites.append("core columns of a sequence result: %s" % sorted(names))
        if "event_id" not in names:
            bad.append(("sequence-result-without-event-id", "the result stream of a sequence query has no event_id column", None))
        return bad
    ctx.run("C18.f", "K7 PROV", "SequenceMaterializer / SequenceStreamMerger::create_result_stream", "the rows of a sequence result carry their real id", f_)

    ctx.note("ConditionEvaluator::evaluate_zones_with_limit synthesises (zone_id << 32 | row) when event_id is missing/zero; not armed (reachability of a missing id column not demonstrated)")

    def g_(inst):
        # ids (~2^59) are read from result cells with ScalarValue::as_u64 / as_i64: the integer variants are read exactly, never through f64 (53 bits)
        bad = []
        for nm in ("ScalarValue::as_u64", "ScalarValue::as_i64"):
            b = F.fn("engine::types::" + nm)
            fam = [b] + [F.fn_exact(k) for k in F.find("^" + re.escape(b.key) + r"::\{closure")]
            inst.sites.append("%s (+%d closures)" % (nm, len(fam) - 1))
            for bb_ in fam:
                for c_ in bb_.calls:
                    if not c_.cleanup and re.search(r"ScalarValue::as_f64$|::to_f64$|f64::|parse$", c_.nname) and ("f64" in c_.nname or "f64" in (c_.ga or "")):
                        bad.append(("id-read-through-float:%s" % nm.split("::")[-1], "%s converts through a float (%s): values above 2^53 - every event id - are rounded, distinct ids collide and the response de-duplication drops rows" % (nm, c_.nname), sp(bb_, c_.bb)))
                for i_ in bb_.live_blocks():
                    for st in bb_.blocks[i_]["s"]:
                        v = st.get("v")
                        if v and v["r"] == "cast" and v.get("ck") in ("IntToFloat", "FloatToInt"):
                            bad.append(("id-read-through-float:%s" % nm.split("::")[-1], "%s casts %s: values above 2^53 - every event id - are rounded" % (nm, v.get("ck")), sp(bb_, i_)))
        seen, out = set(), []
        for x in bad:
            if x[0] not in seen:
                seen.add(x[0]); out.append(x)
        return out
    ctx.run("C18.g", "K4 EFFECT", "ScalarValue::as_u64 / as_i64", "integer cells (event ids) are read exactly, never through f64", g_)
