"""C19 — WAL files are deleted only after a complete archive exists (conservative mode)."""
from .util import *

EXPLANATION = """
Decides: (a) WalCleaner::cleanup_up_to: {conservative_mode == false edge, WalArchiver::archive_logs_up_to call} cuts entry from remove_file, and {conservative_mode == false edge,
`failure_count > 0` false edge} cuts it as well (any archive failure aborts the whole deletion pass); failure_count counts the Err results of the archive call.
(b) delete-set is a subset of archive-set: the cleaner's deletion loop and the archiver's loop select files by the same name constants ("wal-", ".log") and the same guard id < keep_from, and the cleaner
hands its own bound on unchanged. (c) WalArchiver::archive_log returns Ok only on the Ok edges of WalArchive::from_wal_file and write_to_file; write_to_file returns Ok only after write_all and sync_all succeeded.
(d) recovery order: WalArchiveRecovery::recover_all decodes in the order returned by list_archives, which returns Ok(list) only after sorting; archive file names start with the zero-padded log id.
(e) WalArchive::from_wal_file reads the WHOLE file or fails: the `lines()` iterator reaches the loop through order- and count-preserving adaptors only (enumerate; not map_while / take_while /
flatten / filter_map / take ...), every line's io::Result is tested and its Err edge leaves the function (an unreadable line fails the archive, so nothing is deleted), the loop has no other exit,
and every line that parses is pushed (the only skips are the blank-line and the JSON-error edges).
Noted, not decided: an unparsable WAL line is skipped by from_wal_file (the archive then lacks it); a decode error in recover_all skips that archive; losslessness of the MessagePack re-encoding; torn last lines.
"""
FLOOR = 8
REQUIRED = ["C19.a", "C19.b", "C19.c", "C19.d", "C19.e", "C19.f", "C19.g", "C19.h"]


def str_const_args(body):
    out = set()
    for c in body.calls:
        if c.cleanup:
            continue
        for a in c.args:
            if "k" in a and a["k"].startswith('"'):
                out.add(a["k"].strip('"'))
    return out


def id_guard(body, target_bb, bound_name):
    def acc(op, A, B, truth):
        a_id = has_origin(A, "call", name_re=r"parse") or has_origin(A, None, proj_contains=["@Ok"])
        b_keep = has_origin(B, "param", bound_name)
        a_keep = has_origin(A, "param", bound_name)
        b_id = has_origin(B, "call", name_re=r"parse") or has_origin(B, None, proj_contains=["@Ok"])
        if a_id and b_keep:
            return (op == "Lt" and truth) or (op == "Ge" and not truth)
        if a_keep and b_id:
            return (op == "Gt" and truth) or (op == "Le" and not truth)
        return False
    return cmp_guard(body, target_bb, acc)


def run(ctx):
    F = ctx.F

    def a(inst):
        b = F.fn("WalCleaner::cleanup_up_to")
        rm = one(b, r"fs::remove_file$")
        ar = one(b, r"WalArchiver::archive_logs_up_to$")
        cons = bool_switches_on(b, lambda L: has_origin(L, "static", name_re=r"CONFIG$", proj_contains=[".wal", ".conservative_mode"]))
        if not cons:
            raise AnchorMissing("test of CONFIG.wal.conservative_mode")
        off = [(i, si["false"]) for i, si in cons]
        inst.sites = [sp(b, i) for i, _ in cons] + [sp(b, ar.bb), sp(b, rm.bb)]
        bad = []
        bad += must_cross(b, rm.bb, cut_edges=off + [(ar.bb, ar.to)], key="delete-without-archive", detail="in conservative mode a WAL file can be deleted without the archive pass having run")

        def failcmp(op, A, B, truth):
            return False
        # the failure counter: result of `.filter(|r| r.is_err()).count()` over the archive results
        err_counts = set()
        for c in b.find_calls(r"Iterator>::count$"):
            for l in b.origins(c.args[0], transparent=NEXT_TRANSPARENT):
                if l[0] == "call" and "filter" in l[1]:
                    fc = b.call_at(l[2])
                    for o in fc.args:
                        for ll in b.origins(o):
                            if ll[0] == "agg" and ll[1].startswith("closure:") and F.fn_exact(ll[1].split(":", 1)[1]).find_calls(r"Result::is_err$"):
                                err_counts |= {x for x, _ in b.flow_forward(c.dest)}
        # the failure guard: Gt(failure_count, 0) false edge
        fsw = []
        for i in b.live_blocks():
            if b.blocks[i]["t"]["t"] != "switch":
                continue
            si = b.switch_info(i)
            d = si.get("def") if si and si["kind"] == "bool" else None
            if d and d.get("r") == "bin" and d["op"] in ("Gt", "Ne", "Ge", "Eq", "Lt"):
                A = b.origins(d["a"])
                if any(l[0] == "call" and norm_path(l[1]).endswith("Iterator>::count") for l in A) and (b._origin_locals(d["a"]) & err_counts):
                    zero = (d["b"].get("k") or "").startswith("0_")
                    if d["op"] in ("Gt", "Ne") and zero:
                        fsw.append((i, si["false"]))
                    elif d["op"] == "Eq" and zero:
                        fsw.append((i, si["true"]))
        if not fsw:
            bad.append(("no-failure-guard", "the deletion pass is not guarded by `failure_count > 0`", None))
        else:
            bad += must_cross(b, rm.bb, cut_edges=off + fsw, key="delete-after-archive-failure", detail="WAL files can be deleted although archiving at least one eligible file failed")
        # failure_count counts is_err over the archive results
        fam = [F.fn_exact(k) for k in F.find("^" + re.escape(b.key) + r"::\{closure")]
        cnts = [c for c in b.find_calls(r"Iterator>::count$")]
        ok_f = False
        for c in cnts:
            if {x for x, _ in b.flow_forward(c.dest)} & err_counts:
                L = b.origins(c.args[0], transparent=NEXT_TRANSPARENT)
                # the filter closure calls is_err
                for l in L:
                    if l[0] == "call" and "filter" in l[1]:
                        fc = b.call_at(l[2])
                        for o in fc.args:
                            for ll in b.origins(o):
                                if ll[0] == "agg" and ll[1].startswith("closure:"):
                                    cb = F.fn_exact(ll[1].split(":", 1)[1])
                                    if cb.find_calls(r"Result::is_err$"):
                                        ok_f = True
                        src = b.origins(fc.args[0], transparent=NEXT_TRANSPARENT)
                        if not any(x[0] == "call" and "archive_logs_up_to" in x[1] for x in src):
                            ok_f = False
        if not ok_f:
            bad.append(("failure-count-definition", "failure_count is not the number of Err results of archive_logs_up_to", None))
        return bad
    ctx.run("C19.a", "K2 CUT", "WalCleaner::cleanup_up_to", "conservative mode: archive first; any failure stops every deletion", a)

    def b_(inst):
        c = F.fn("WalCleaner::cleanup_up_to")
        a = F.fn("WalArchiver::archive_logs_up_to")
        bad = []
        need = {"wal-", ".log"}
        def fam_consts(b):
            out = str_const_args(b)
            for k in F.find("^" + re.escape(b.key) + r"::\{closure"):
                out |= str_const_args(F.fn_exact(k))
            return out
        cc, ac = fam_consts(c), fam_consts(a)
        inst.sites = ["cleaner consts %s" % sorted(cc & need), "archiver consts %s" % sorted(ac & need)]
        if not need <= cc or not need <= ac:
            bad.append(("name-pattern-differs", "cleaner and archiver no longer select files by the same wal-*.log pattern (%s / %s)" % (sorted(cc), sorted(ac)), None))
        rm = one(c, r"fs::remove_file$")
        al = one(a, r"WalArchiver::archive_log$")
        if not id_guard(c, rm.bb, "keep_from_log_id"):
            bad.append(("cleaner-guard", "cleaner does not delete under id < keep_from_log_id", None))
        if not id_guard(a, al.bb, "keep_from_log_id"):
            bad.append(("archiver-guard", "archiver does not archive under id < keep_from_log_id: a file can be deleted that was never archived", None))
        ar = one(c, r"WalArchiver::archive_logs_up_to$")
        L = c.origins(ar.args[1])
        if not (has_origin(L, "param", "keep_from_log_id") and len(L) == 1):
            bad.append(("bound-changed", "the cleaner archives up to %s but deletes up to keep_from_log_id" % fmt_leaves(L), None))
        # archived id == the file's id
        La = a.origins(al.args[1])
        if not (has_origin(La, "call", name_re=r"parse") or has_origin(La, None, proj_contains=["@Ok"])):
            bad.append(("archive-other-id", "archive_log is called with %s, not the parsed file id" % fmt_leaves(La), None))
        # same shard: archiver constructed with self.shard_id
        nws = [x for x in c.calls if not x.cleanup and re.search(r"WalArchiver::(new|with_dirs)$", x.nname)]
        if nws:
            for nw in nws:
                if not has_origin(c.origins(nw.args[0]), "param", "self", proj_contains=[".shard_id"]):
                    bad.append(("archiver-other-shard", "the cleaner's archiver is built for another shard", None))
        else:
            # the archiver is a field built by the constructors: for the shard the cleaner is built for
            n_ = 0
            for k in sorted(F.keys()):
                if k.startswith("bin:") or not re.search(r"wal_cleaner::WalCleaner::\w+$", k):
                    continue
                cb = F.fn_exact(k)
                for (bb, j, v, dst) in cb.aggregates("WalCleaner"):
                    fl = dict(zip(v.get("fields", []), v["o"]))
                    if "archiver" not in fl or "shard_id" not in fl:
                        continue
                    n_ += 1
                    sid = {fmt_leaves([l]) for l in cb.origins(fl["shard_id"])}
                    for l in cb.origins(fl["archiver"]):
                        if l[0] == "call" and "WalArchiver::" in l[1]:
                            got = {fmt_leaves([x]) for x in cb.origins(cb.call_at(l[2]).args[0])}
                            if got != sid:
                                bad.append(("archiver-other-shard", "WalCleaner::%s builds its archiver for %s but cleans shard %s" % (k.split("::")[-1], sorted(got), sorted(sid)), None))
            if n_ < 1:
                raise AnchorMissing("where the cleaner's archiver is built (neither in cleanup_up_to nor in a constructor)")
        return bad
    ctx.run("C19.b", "K11 SIB", "cleaner deletion loop vs archiver loop", "whatever is deleted was eligible for archiving under the same bound", b_)

    def c_(inst):
        bad = []
        b = F.fn("WalArchiver::archive_log")
        fw = one(b, r"WalArchive::from_wal_file$")
        wf = one(b, r"WalArchive::write_to_file$")
        oks = [bb for (bb, j, v, dst) in b.aggregates("result::Result", "Ok") if dst == [0]]
        inst.sites = [sp(b, fw.bb), sp(b, wf.bb)]
        for call, nm in ((fw, "from_wal_file"), (wf, "write_to_file")):
            es = [e for (e, v) in ok_edges(b, call) if v in ("Continue", "Ok")]
            for o in oks:
                if not es or not any(b.dominates_edge(e, o) for e in es):
                    bad.append(("archive-ok-despite:%s" % nm, "archive_log can return Ok although %s failed" % nm, None))
        # the path archived is wal_dir/wal-<log_id>.log and the archive written is the one just built
        if not (b._origin_locals(wf.args[0]) & {l for l, _ in b.flow_forward(fw.dest)}):
            bad.append(("writes-other-archive", "the archive written is not the one read from the WAL file", None))
        w = F.fn("WalArchive::write_to_file")
        if not w.find_calls(r"Write>::write_all$|Write::write_all$"):
            # streamed through an encoder: its final flush must be an explicit, checked finish()
            auto = w.find_calls(r"Encoder.*::auto_finish$|AutoFinishEncoder")
            fin = [c_ for c_ in w.find_calls(r"Encoder.*::finish$") if [e for (e, v) in ok_edges(w, c_) if v == "Continue"]]
            if auto or not fin:
                return bad + [("archive-file-ok-despite:stream-finish", "write_to_file streams the archive through an encoder whose final write happens when it is dropped (auto_finish): an error at that point (disk full) is discarded, write_to_file returns Ok and the cleaner deletes the log", sp(w, (auto or w.calls)[0].bb))]
        wa = one(w, r"Write>::write_all$|Write::write_all$") if w.find_calls(r"Write>::write_all$|Write::write_all$") else fin[0]
        sy = one(w, r"fs::File::sync_all$")
        oks = [bb for (bb, j, v, dst) in w.aggregates("result::Result", "Ok") if dst == [0]]
        for call, nm in ((wa, "write_all" if wa.nname.endswith("write_all") else "encoder finish"), (sy, "sync_all")):
            es = [e for (e, v) in ok_edges(w, call) if v == "Continue"]
            for o in oks:
                if not es or not any(w.dominates_edge(e, o) for e in es):
                    bad.append(("archive-file-ok-despite:%s" % nm, "write_to_file can return Ok although %s failed / was skipped" % nm, None))
        inst.sites += [sp(w, wa.bb), sp(w, sy.bb)]
        return bad
    ctx.run("C19.c", "K1 DOM", "WalArchiver::archive_log / WalArchive::write_to_file", "an archive counts as written only when reading, writing and syncing succeeded", c_)

    def d_(inst):
        bad = []
        l = F.fn("WalArchiveRecovery::list_archives")
        ss = sort_sites(F, l)
        if not ss:
            raise AnchorMissing("site: a slice sort executed by WalArchiveRecovery::list_archives (directly or through a crate helper)")
        # the call sites inside list_archives through which a sort is reached
        srt = sort_call_sites(F, l)
        oks = [(bb, v) for (bb, j, v, dst) in l.aggregates("result::Result", "Ok") if dst == [0]]
        for bb, v in oks:
            L = l.origins(v["o"][0])
            fresh_empty = all(x[0] == "call" and norm_path(x[1]).endswith("Vec::new") for x in L)
            if not fresh_empty and not any(l.dominates_edge((s.bb, s.to), bb) for s in srt):
                bad.append(("unsorted-archive-list", "list_archives can return an unsorted list", None))
        # the order is log order: either the comparator compares parsed log ids, or the names are padded to the full width of a u64
        g = F.fn("WalArchive::generate_filename")
        widths = []
        for t in fmt_templates(g):
            if t is None:
                widths.append(None)
                continue
            for i_, part in enumerate(t):
                if part[0] == "arg" and i_ > 0 and t[i_ - 1][0] == "lit" and t[i_ - 1][1].endswith("wal-"):
                    widths.append(part[1]["width"] if part[1]["zero"] else 0)
        if not widths:
            raise AnchorMissing("the log id placeholder after \"wal-\" in WalArchive::generate_filename")
        padded = all(w is not None and w >= 20 for w in widths)
        for sb, sc in ss:
            natural = bool(re.search(r"slice::(sort|sort_unstable)$", sc.nname))
            numeric = (not natural) and reaches_int_parse(F, sb)
            if not numeric and not padded:
                bad.append(("archive-order-by-name", "archives are ordered by file name (%s in %s) but the log id in the name is padded to %s digits only: wal-100000-* sorts before wal-99999-*" % (
                    sc.nname.split("::")[-1], sb.key.split("::")[-1], widths), sp(sb, sc.bb)))
        inst.sites += ["log id pad width %s, %d sort site(s): %s" % (widths, len(ss), [(sb.key.split("::")[-1], sc.nname.split("::")[-1]) for sb, sc in ss])]
        r = F.fn("WalArchiveRecovery::recover_all")
        la = one(r, r"WalArchiveRecovery::list_archives$")
        nx = [c for c in for_headers(r)]
        it_ok = any(any(x[0] == "call" and "list_archives" in x[1] for x in r.origins(c.args[0], transparent=NEXT_TRANSPARENT)) for c in nx)
        if not it_ok:
            bad.append(("recover-other-order", "recover_all does not iterate the list returned by list_archives", None))
        for c in r.calls:
            if not c.cleanup and re.search(r"Iterator::rev$|slice::(reverse|sort\w*)$|par_", c.nname):
                bad.append(("recover-reorders:%s" % c.nname.split("::")[-1], "recover_all re-orders archives or entries (%s)" % c.nname, None))
        ext = one(r, r"Extend.*>::extend$|Vec::extend$")
        inst.sites += [sp(l, s.bb) for s in srt] + [sp(r, la.bb), sp(r, ext.bb)]
        return bad
    ctx.run("C19.d", "K1 DOM", "WalArchiveRecovery::recover_all / list_archives", "archives are decoded in sorted (log id) order", d_)

    def f_(inst):
        """`deleted only after an archive containing all of its entries has been written`: the archive pass must look at the very
        directory the deletion pass lists. The cleaner's archiver therefore reads the cleaner's own wal_dir: for every constructor
        of WalCleaner the archiver's WAL directory has the same provenance as the `wal_dir` field, and cleanup_up_to uses that
        archiver (not one built from the global configuration on the spot)."""
        bad = []
        b = F.fn("WalCleaner::cleanup_up_to")
        ar = one(b, r"WalArchiver::archive_logs_up_to$")
        L = b.origins(ar.args[0])
        own = any(l[0] == "param" and l[1] == "self" for l in L)
        built_here = [l for l in L if l[0] == "call" and "WalArchiver::" in l[1]]
        inst.sites.append("%s: archiver <- %s" % (sp(b, ar.bb), fmt_leaves(L)))

        def dir_provenance(body, c):
            """where the archiver built by call c reads its logs from: 'config' (WalArchiver::new), or the leaves of with_dirs' wal dir argument"""
            if c.nname.endswith("WalArchiver::new"):
                return {"config"}
            if c.nname.endswith("WalArchiver::with_dirs"):
                return {"param:" + l[1] if l[0] == "param" else ("config" if l[0] == "static" and "CONFIG" in l[1] else ("config" if l[0] == "call" and "join" in l[1] and any(x[0] == "static" for a_ in body.call_at(l[2]).args for x in body.origins(a_)) else fmt_leaves([l]))) for l in body.origins(c.args[1])}
            return {"?"}

        def field_provenance(body, op):
            out = set()
            for l in body.origins(op):
                if l[0] == "param":
                    out.add("param:" + l[1])
                elif l[0] == "static" and "CONFIG" in l[1]:
                    out.add("config")
                elif l[0] == "call":
                    cc = body.call_at(l[2])
                    sub = set()
                    for a_ in cc.args:
                        for x in body.origins(a_):
                            if x[0] == "static" and "CONFIG" in x[1]:
                                sub.add("config")
                            elif x[0] == "param":
                                sub.add("param:" + x[1])
                            elif x[0] == "call":
                                for a2 in body.call_at(x[2]).args:
                                    for y in body.origins(a2):
                                        if y[0] == "static" and "CONFIG" in y[1]:
                                            sub.add("config")
                    out |= (sub - {"param:shard_id"}) or {"?"}
            return out
        if built_here and not own:
            # the archiver is built in cleanup_up_to: it must be given self.wal_dir
            for l in built_here:
                c = b.call_at(l[2])
                if c.nname.endswith("WalArchiver::new") or not any(x[0] == "param" and x[1] == "self" and ".wal_dir" in (x[2] if len(x) > 2 else ()) for a_ in c.args for x in b.origins(a_)):
                    bad.append(("archiver-other-directory:cleanup_up_to", "cleanup_up_to archives with an archiver built from the global configuration while it deletes from self.wal_dir: with a cleaner for another directory the logs are deleted without an archive", sp(b, c.bb)))
            return bad
        n = 0
        for k in sorted(F.keys()):
            if k.startswith("bin:") or not re.search(r"wal_cleaner::WalCleaner::\w+$", k):
                continue
            cb = F.fn_exact(k)
            for (bb, j, v, dst) in cb.aggregates("WalCleaner"):
                fl = dict(zip(v.get("fields", []), v["o"]))
                if "archiver" not in fl or "wal_dir" not in fl:
                    continue
                n += 1
                wd = field_provenance(cb, fl["wal_dir"])
                ad = set()
                for l in cb.origins(fl["archiver"]):
                    if l[0] == "call":
                        ad |= dir_provenance(cb, cb.call_at(l[2]))
                inst.sites.append("%s: wal_dir <- %s, archiver reads <- %s" % (k.split("::")[-1], sorted(wd), sorted(ad)))
                if wd != ad:
                    bad.append(("archiver-other-directory:%s" % k.split("::")[-1], "WalCleaner::%s builds a cleaner that deletes from %s but archives from %s" % (k.split("::")[-1], sorted(wd), sorted(ad)), sp(cb, bb)))
        if n < 2:
            raise AnchorMissing("WalCleaner constructors with an archiver field (found %d)" % n)
        return bad
    ctx.run("C19.f", "K11 SIB", "WalCleaner constructors / cleanup_up_to", "the archive pass reads the directory the deletion pass lists", f_)

    def g_(inst):
        """`if archiving any eligible file fails, no log file is deleted`: the cleaner counts the Err entries of the result list and then
        deletes every file with id < keep_from. A file that is eligible for deletion but for which the archiver pushes NO result
        (skipped, deferred) is deleted without an archive and without a failure being counted. In archive_logs_up_to every path from
        `id < keep_from_log_id` to the next file passes results.push(archive_log(id))."""
        bad = []
        a = F.fn("WalArchiver::archive_logs_up_to")
        al = one(a, r"WalArchiver::archive_log$")
        pushes = [c for c in a.calls if not c.cleanup and c.nname.endswith("Vec::push") and any(l[0] == "call" and l[2] == al.bb for l in a.origins(c.args[1]))]
        if not pushes:
            bad.append(("archive-result-not-recorded", "the result of archive_log is not pushed into the result list the cleaner counts failures in", sp(a, al.bb)))
            return bad
        g = id_guard(a, al.bb, "keep_from_log_id")
        if not g:
            raise AnchorMissing("the guard id < keep_from_log_id in front of archive_log")
        hdrs = [h for h in for_headers(a) if a.can_reach(h.bb, al.bb) and a.can_reach(al.bb, h.bb)]
        if not hdrs:
            raise AnchorMissing("the loop over the WAL directory in archive_logs_up_to")
        inst.sites = [sp(a, al.bb)] + [sp(a, c.bb) for c in pushes]
        for (sw_bb, op, truth) in g:
            si = a.switch_info(sw_bb)
            tgt = si["true"] if truth else si["false"]
            seen = set(a.reach(0, src_edges=[(sw_bb, tgt)], cut_blocks=[c.bb for c in pushes]))
            if any(h.bb in seen for h in hdrs) or any(x in seen for x in a.exits()):
                bad.append(("eligible-log-without-result", "archive_logs_up_to can go on to the next file (or return) after `id < keep_from_log_id` held without pushing a result for that log: the cleaner counts no failure and deletes the log unarchived", sp(a, sw_bb)))
                break
        return bad
    ctx.run("C19.g", "K9 LOOP", "WalArchiver::archive_logs_up_to", "every log that is eligible for deletion gets an archive result", g_)

    ctx.note("WalArchive::from_wal_file logs and skips an unparsable WAL line: the archive then lacks it while the file is deleted (fault clause, not armed)")
    ctx.note("WalArchiveRecovery::recover_all logs and skips an archive that fails to decode (fault clause, not armed)")

    def e_(inst):
        b = F.fn("WalArchive::from_wal_file")
        ln = one(b, r"BufRead::lines$")
        hs = [h for h in for_headers(b) if ln.dest[0] in deep_locals(b, h.args[0])]
        if len(hs) != 1:
            raise AnchorMissing("the for loop over reader.lines() in from_wal_file (%d)" % len(hs))
        h = hs[0]
        chain_locals = deep_locals(b, h.args[0])
        chain = [c_ for c_ in b.calls if not c_.cleanup and c_.dest and c_.dest[0] in chain_locals and c_.bb != ln.bb and c_.args and ln.dest[0] in deep_locals(b, c_.args[0])]
        names = [c_.nname for c_ in chain]
        inst.sites = [sp(b, ln.bb), "adaptors: %s" % [n.split("::")[-1] for n in names]]
        bad = []
        OKAD = re.compile(r"Iterator::enumerate$|IntoIterator.*::into_iter$|Iterator::by_ref$|BufReader::.*new$|::new$")
        for n in names:
            if not OKAD.search(n):
                bad.append(("lossy-adaptor:%s" % n.split("::")[-1], "the lines of the WAL file reach the archive loop through %s, which can drop or cut off lines: a partial archive is then written as a success" % n, None))
        # the io::Result of each line is tested, and Err leaves the function
        some = variant_edge(b, h, "Some")
        inloop = b.reach(0, src_edges=some, cut_blocks=[h.bb])
        brs = [c_ for c_ in b.find_calls(r"Try>::branch$") if c_.bb in inloop and h.dest[0] in wide_all(b, c_.args[0])]
        if not brs:
            if not any(x.startswith("lossy-adaptor") for x, _, _ in bad):
                bad.append(("line-error-untested", "the io::Result of a line is not tested with `?`", None))
        else:
            br = brs[0]
            be = variant_edge(b, br, "Break")
            esc = b.reach(0, src_edges=be, cut_blocks=[h.bb])
            if not any(x in esc for x in b.exits()) or h.bb in b.reach(0, src_edges=be):
                bad.append(("line-error-swallowed", "an unreadable line does not make from_wal_file return Err", None))
            # no other way out of the loop than exhaustion or that error return
            seen = b.reach(0, src_edges=some, cut_blocks=[h.bb], cut_edges=be)
            if any(x in seen for x in b.exits()):
                bad.append(("loop-early-exit", "the archive loop can stop before the file is exhausted (break / return inside the loop)", None))
            # every parsed line is pushed
            js = one(b, r"serde_json::from_str$")
            push = [c_ for c_ in b.find_calls(r"Vec::push$") if c_.bb in inloop]
            if len(push) != 1:
                raise AnchorMissing("entries.push in the loop (%d)" % len(push))
            okj = [e_ for e_, v in ok_edges(b, js) if v == "Ok"]
            errj = variant_edge(b, js, "Err")
            emp = [c_ for c_ in b.find_calls(r"str::is_empty$") if c_.bb in inloop]
            allowed = list(errj) + list(be)
            for c_ in emp:
                allowed += bool_result_edge(b, c_, True)
            w = skipped_iteration(b, h, [push[0].bb], allowed_edges=allowed)
            if w:
                bad.append(("parsed-line-not-archived", "a line can complete an iteration without being pushed although it is neither blank nor unparsable", None))
            inst.sites += [sp(b, br.bb), sp(b, js.bb), sp(b, push[0].bb)]
        return bad
    ctx.run("C19.e", "K9 LOOP", "WalArchive::from_wal_file", "the archive is built from every line of the log, or not at all", e_)

    def h_(inst):
        # MessagePack (rmp_serde::to_vec, structs as arrays) and bincode are positional: a struct that omits a field under a
        # condition shifts every later slot, so an archive that was written "successfully" cannot be decoded again
        SER = re.compile(r"^(.*)::_::<impl .*_serde::Serialize for (.+)>::serialize$")
        sers = {}
        for k in F.keys():
            m_ = SER.match(k)
            if m_:
                sers[m_.group(2)] = k
        roots = {}
        for k in F.keys():
            if k.startswith("bin:") or "_test" in k or "::tests::" in k:
                continue
            for c in F.fn_exact(k).calls:
                if c.cleanup or not re.search(r"^(rmp_serde::(to_vec|encode::write|to_vec_named)|bincode::(serialize|serialize_into))$", norm_path(c.nname)):
                    continue
                if norm_path(c.nname).endswith("to_vec_named"):
                    continue
                for t in re.findall(r"[A-Za-z_][A-Za-z_0-9]*(?:::[A-Za-z_][A-Za-z_0-9]*)+", c.ga or ""):
                    if t in sers:
                        roots.setdefault(t, norm_path(c.nname))
        if "engine::core::wal::wal_archive::WalArchive" not in roots:
            raise AnchorMissing("rmp_serde::to_vec::<WalArchive> (the archive encoder)")
        todo, seen_t = list(roots), {}
        while todo:
            t = todo.pop()
            if t in seen_t:
                continue
            b = F.fn_exact(sers[t])
            seen_t[t] = b
            for c in b.calls:
                if c.cleanup:
                    continue
                for t2 in re.findall(r"[A-Za-z_][A-Za-z_0-9]*(?:::[A-Za-z_][A-Za-z_0-9]*)+", c.ga or ""):
                    if t2 in sers and t2 not in seen_t:
                        todo.append(t2)
        bad = []
        for t, b in sorted(seen_t.items()):
            sk = b.find_calls(r"ser::SerializeStruct::skip_field$")
            if sk:
                flds = sorted({x for c in sk for x in str_consts(b, c.args[1], 0)})
                bad.append(("positional-format-skips-field:%s" % t.split("::")[-1], "%s is written through a positional format (MessagePack array / bincode) but can leave out %s: the archive write succeeds, the log is deleted, and the archive no longer decodes (every later slot is shifted)" % (t.split("::")[-1], flds or "a field"), sp(b, sk[0].bb)))
        inst.sites = ["%d root types, %d struct types reached: %s" % (len(roots), len(seen_t), sorted(x.split("::")[-1] for x in seen_t))[:400]]
        if "engine::core::wal::wal_entry::WalEntry" not in seen_t:
            raise AnchorMissing("WalEntry among the types the archive encoder writes")
        return bad
    ctx.run("C19.h", "K11 SIB", "types written through rmp_serde / bincode", "a positionally encoded struct never omits a field", h_)
