"""C20 — every response encoding carries the same rows and values: gate / provenance clauses only."""
from .util import *

EXPLANATION = """
Claimed narrowly. Decides: (a) the JSON and the Arrow paths of the query response writer select rows through the same try_accept_row gate (shared with C03.e1/e2) and the row count announced by stream_end
is the writer's `emitted` counter (query and SHOW response writers); (c) every Renderer::render implementation takes the status code it prints from response.status.code()
(no constant substituted on the normal path).
(b) the two copies of the scalar-to-Arrow cell builders (shared/response/arrow.rs and engine/core/read/flow/batch.rs, one function per Arrow type) accept the same ScalarValue variants — a variant one copy
converts and the other sends to append_null shows up as null in Arrow on one code path while JSON prints the value.
(d) SHOW: the JSON and the Arrow path of ShowResponseWriter classify a received batch as stored frame / delta by the same test (batch_count < materialized_frame_count, which switches the
duplicate-id filter on) and count it in the same place: in each receive loop every iteration that classifies a batch also increments batch_count before the next batch is received - whatever
OFFSET / LIMIT / de-duplication leave of it (a counter advanced only when something is written lags behind on one encoding and lets duplicate ids through there).
(e) the three Renderer implementations turn a cell into JSON text through ScalarValue::to_json in stream_batch / stream_row alike (to_json maps a Utf8 holding a large u64 or JSON text to a number / array; the
derived Serialize prints the string): one encoding using another conversion prints different values for the same rows.
Noted, not armed: the inline row-selection builders in build_record_batch accept fewer variants than the functions (no Utf8 parsing); a u64 above i64::MAX is kept as a string and becomes null in an Int64 Arrow column.
Does NOT decide numeric equality of decoded cells, batch-size independence, or byte-level agreement of the three encodings.
"""
FLOOR = 13
REQUIRED = ["C20.a", "C20.b", "C20.c", "C20.d", "C20.e", "C20.f", "C20.g", "C20.h", "C20.i", "C20.j", "C20/C03.e1", "C20/C03.e2"]


def run(ctx):
    F = ctx.F
    ctx.borrow("C03", ["C03.e1", "C03.e2"], "C20")

    def a(inst):
        bad = []
        for nm in ("QueryResponseWriter::write_json", "ShowResponseWriter::write_json"):
            b = F.fn(nm)
            se = one(b, r"Renderer::stream_end$")
            L = b.origins(se.args[1])
            inst.sites.append("%s: stream_end(%s)" % (nm, fmt_leaves(L)))
            if not (has_origin(L, None, proj_contains=[".emitted"]) and all(l[0] == "binop" or (isinstance(l[-1], tuple) and ".emitted" in l[-1]) for l in L)):
                bad.append(("row-count-origin:%s" % nm, "%s announces %s as the row count, not the number of rows emitted" % (nm, fmt_leaves(L)), None))
            # stream_end after the row loop: no row rendering reachable after it
            rend = b.find_calls(r"Renderer::stream_(batch|row|column_batch)$")
            for r in rend:
                if b.can_reach(se.bb, r.bb):
                    bad.append(("rows-after-end:%s" % nm, "%s can render rows after stream_end" % nm, None))
        # `emitted` is incremented only in try_accept_row (query writer) on its accepting path
        t = F.fn("QueryResponseWriter::try_accept_row")
        inc = [(blk, s) for blk in t.live_blocks() for s in t.blocks[blk]["s"] if "a" in s and s["a"][0] == 1 and ".emitted" in s["a"]]
        trues = [blk for blk in t.live_blocks() for s in t.blocks[blk]["s"] if "a" in s and s["a"] == [0] and s["v"]["r"] == "use" and s["v"]["o"].get("k") == "true"]
        if not inc or not trues:
            raise AnchorMissing("emitted += 1 / return true in try_accept_row")
        for blk, s in inc:
            if not any(t.can_reach(blk, tb) for tb in trues):
                bad.append(("emitted-without-accept", "emitted is incremented on a path that rejects the row", None))
        for tb in trues:
            if not any(t.dominates(blk, tb) for blk, _ in inc):
                bad.append(("accept-without-count", "a row is accepted without being counted", None))
        # no other writer of .emitted in the query response writer
        for nm in ("QueryResponseWriter::write_json", "QueryResponseWriter::write_arrow"):
            b = F.fn(nm)
            for blk in b.live_blocks():
                for s in b.blocks[blk]["s"]:
                    if "a" in s and ".emitted" in s["a"][1:]:
                        bad.append(("emitted-second-writer:%s" % nm, "%s updates the emitted counter outside try_accept_row" % nm, None))
        return bad
    ctx.run("C20.a", "K7 PROV", "response writers: stream_end", "the announced row count is the number of rows emitted", a)

    def b_(inst):
        bad = []

        def explicit(key):
            b = F.fn_exact(key)
            out = None
            for i in sorted(b.live_blocks()):
                if b.blocks[i]["t"]["t"] == "switch":
                    si = b.switch_info(i)
                    if si and si["kind"] == "enum" and (si.get("adt") or "").endswith("types::ScalarValue"):
                        out = {k for k in si["edges"] if k != "else"}
                        break
            if out is None:
                raise AnchorMissing("match on ScalarValue in %s" % key)
            return out
        n = 0
        for ty in ("int64", "float64", "bool", "timestamp", "string"):
            a = "shared::response::arrow::build_%s_array_from_scalars" % ty
            c_ = "engine::core::read::flow::batch::build_%s_array_from_scalars" % ty
            if not F.has(a) or not F.has(c_):
                raise AnchorMissing("cell builder pair for %s" % ty)
            ea, ec = explicit(a), explicit(c_)
            n += 1
            inst.sites.append("%s: arrow.rs %s | batch.rs %s" % (ty, sorted(ea), sorted(ec)))
            if ea != ec:
                bad.append(("cell-builder-disagree:%s" % ty, "the %s cell builders disagree on the scalar variants they convert: arrow.rs %s vs batch.rs %s — the variants in the difference become null on one path" % (ty, sorted(ea), sorted(ec)), None))
        return bad
    ctx.run("C20.b", "K11 SIB", "scalar-to-Arrow cell builders (two copies)", "both Arrow encoding paths convert the same scalar variants", b_)

    def c(inst):
        bad = []
        for ty in ("JsonRenderer", "UnixRenderer", "ArrowRenderer"):
            b = F.method(ty, "Renderer", "render")
            fam = [b] + [F.fn_exact(k) for k in F.find("^" + re.escape(b.key) + r"::\{closure")]
            ok = False
            for bb_ in fam:
                for c_ in bb_.find_calls(r"StatusCode::code$"):
                    L = bb_.origins(c_.args[0])
                    if has_origin(L, "param", "response", proj_contains=[".status"]) or has_origin(L, "upvar", "response", proj_contains=[".status"]):
                        ok = True
            inst.sites.append("%s::render reads response.status.code(): %s" % (ty, ok))
            if not ok:
                bad.append(("status-not-from-response:%s" % ty, "%s::render does not take the status code from response.status" % ty, None))
        return bad
    ctx.run("C20.c", "K11 SIB", "Renderer::render implementations", "every encoding prints the response's own status code", c)

    def g_(inst):
        """build_record_batch encodes either the whole batch or a row selection. Both cases must convert a typed cell through the
        same cell builder (a second, inline copy lacked the Utf8 arms: the same cell was 42 in one Arrow batch and null in the next,
        depending on whether LIMIT / OFFSET / de-duplication had dropped a row of that batch)."""
        bad = []
        b = F.fn("shared::response::arrow::build_record_batch")
        sw = [(i, si) for i, si in enum_switches_on(b, lambda L: has_origin(L, "param", "row_indices"), r"option::Option")]
        if not sw:
            raise AnchorMissing("test of row_indices in build_record_batch")
        i, si = sw[0]
        some_r = set()
        none_r = set()
        for t in edges_for_variant(si, "Some"):
            some_r |= edge_dominated(b, (i, t))
        for t in edges_for_variant(si, "None"):
            none_r |= edge_dominated(b, (i, t))
        typed = re.compile(r"build_(int64|float64|bool|timestamp)_array_from_scalars$")

        def builders(region):
            return {typed.search(c.nname).group(1) for c in b.calls if not c.cleanup and c.bb in region and typed.search(c.nname)}
        bs, bn = builders(some_r), builders(none_r)
        inline = sorted({c.nname.split("::")[-2] for c in b.calls if not c.cleanup and c.bb in some_r | none_r and
                         re.search(r"(Int64|Float64|Boolean|TimestampMillisecond|PrimitiveBuilder|BooleanBuilder)\w*::append_value$|PrimitiveBuilder<T>::append_value$", c.name)})
        inst.sites += [sp(b, i), "typed builders: whole batch %s, row selection %s, inline typed append sites: %s" % (sorted(bn), sorted(bs), inline)]
        if len(bn) < 4:
            raise AnchorMissing("the four typed cell builders on the whole-batch path (%s)" % sorted(bn))
        for ty in sorted(bn - bs):
            bad.append(("selection-own-builder:%s" % ty, "the row-selection case of build_record_batch does not encode %s cells through build_%s_array_from_scalars like the whole-batch case: the two cases can convert the same cell differently" % (ty, ty), sp(b, i)))
        if inline:
            bad.append(("inline-typed-builder", "build_record_batch appends typed cells inline (%s) next to the shared builders" % inline, sp(b, i)))
        return bad
    ctx.run("C20.g", "K11 SIB", "shared::response::arrow::build_record_batch", "whole-batch and row-selection encoding share the cell builders", g_)

    def h_(inst):
        # the HTTP status is taken from the rendered body: a whole-document parse must be given the whole body
        b = F.fn("http::dispatcher::extract_http_status_from_response")
        parses = [c_ for c_ in b.calls if not c_.cleanup and re.search(r"(sonic_rs|serde_json)::(from_str|from_slice)$", norm_path(c_.nname))]
        inst.sites = [sp(b, c_.bb) + " " + c_.nname for c_ in parses]
        if not parses:
            raise AnchorMissing("JSON parse of the body in extract_http_status_from_response")
        bad = []
        for c_ in parses:
            src = c_.args[0]
            cut = False
            for _ in range(4):
                L = b.origins(src)
                if any(l[0] == "call" and re.search(r"index::Index.*::index$|slice::index::index$|str::get$|slice::get$|split_at$", norm_path(l[1])) for l in L):
                    cut = True
                nxt = [l for l in L if l[0] == "call" and re.search(r"from_utf8(_unchecked)?$", norm_path(l[1]))]
                if not nxt:
                    break
                src = b.call_at(nxt[0][2]).args[0]
            if cut:
                bad.append(("status-from-truncated-document", "extract_http_status_from_response parses a prefix of the body as a complete JSON document: for an error body longer than the prefix the parse fails and the request is answered 200 while the body says 400 / 403", sp(b, c_.bb)))
        return bad
    ctx.run("C20.h", "K7 PROV", "http::dispatcher::extract_http_status_from_response", "the HTTP status agrees with the status in the body, whatever its length", h_)

    def i_(inst):
        # the Arrow schema announces the columns under the names the JSON / text schema frames use
        ks = F.find(r"^shared::response::arrow::build_arrow_schema(::\{closure#\d+\})?$")
        sites = []
        for k in ks:
            b = F.fn_exact(k)
            for c in b.find_calls(r"arrow_schema::Field::new$|Field::new$"):
                sites.append((b, c))
        if not sites:
            raise AnchorMissing("Field::new in build_arrow_schema")
        bad = []
        for b, c in sites:
            L = b.origins(c.args[0])
            inst.sites.append(sp(b, c.bb) + " name <- " + fmt_leaves(L))
            if not all(l[0] in ("param", "upvar") and isinstance(l[-1], tuple) and ".name" in l[-1] for l in L) and not all(l[0] == "call" and re.search(r"Iterator>::next$|Iterator::next$", l[1]) and ".name" in l[-1] for l in L):
                bad.append(("arrow-column-renamed", "build_arrow_schema names an Arrow field %s instead of the column's own name: the Arrow stream announces other column names than the JSON and text frames of the same result" % fmt_leaves(L), sp(b, c.bb)))
        return bad
    ctx.run("C20.i", "K7 PROV", "shared::response::arrow::build_arrow_schema", "Arrow fields carry the column names of the batch schema", i_)

    def j_(inst):
        # time columns hold epoch seconds (C16): the Arrow type that announces them must have that unit
        l = F.fn("response::arrow::logical_to_arrow_type")
        units = sorted({v_.get("var") for (bb, j2, v_, d_) in l.aggregates("TimeUnit", None)})
        inst.sites = ["logical_to_arrow_type announces time columns as %s" % units]
        if not units:
            raise AnchorMissing("TimeUnit in logical_to_arrow_type")
        if units != ["Second"]:
            return [("arrow-timestamp-unit:%s" % "+".join(units), "logical_to_arrow_type types time columns as Timestamp(%s) while the builders append the stored epoch seconds unchanged: an Arrow client decodes 2025-01-01 as 1970-01-21, the JSON and text encodings of the same result say 1735689600" % "/".join(units), None)]
        return []
    ctx.run("C20.j", "K6 TABLE", "shared::response::arrow::logical_to_arrow_type", "the Arrow time unit is the unit of the stored value", j_)

    ctx.note("a u64 above i64::MAX is kept as Utf8 and becomes null in an Arrow Int64 column while JSON prints the number (value level, not armed)")

    def d(inst):
        bad = []
        shapes = {}
        for fn in ("write_json", "write_arrow"):
            b = F.fn("ShowResponseWriter::" + fn)
            rc = [c_ for c_ in b.find_calls(r"QueryBatchStream::recv$")]
            if len(rc) != 1:
                raise AnchorMissing("stream.recv() in %s (%d)" % (fn, len(rc)))
            # loop header = the switch on the awaited Option (Some edge starts an iteration)
            some = variant_edge(b, rc[0], "Some")
            hdr = rc[0].bb
            # classification: a comparison reading .batch_count and .materialized_frame_count
            cls = []
            incs = []
            for i in sorted(b.live_blocks()):
                for st in b.blocks[i]["s"]:
                    v = st.get("v")
                    if not v:
                        continue
                    if v.get("r") == "bin" and v.get("op") in ("Lt", "Le", "Gt", "Ge"):
                        fa, fb = fmt_leaves(b.origins(v["a"])), fmt_leaves(b.origins(v["b"]))
                        if "batch_count" in fa + fb and "materialized_frame_count" in fa + fb:
                            o = v["op"] if "batch_count" in fa else {"Lt": "Gt", "Gt": "Lt", "Le": "Ge", "Ge": "Le"}[v["op"]]
                            cls.append((i, o))
                    if st.get("a") and st["a"][-1:] == [".batch_count"] and v.get("r") == "use":
                        L = b.origins(v["o"])
                        if any(l[0] == "binop" and l[1].startswith("Add") for l in L):
                            incs.append(i)
            if len(cls) != 1:
                raise AnchorMissing("the stored-frame test batch_count < materialized_frame_count in %s (%d)" % (fn, len(cls)))
            inst.sites.append("%s: classify %s @ %s, increments @ %s" % (fn, cls[0][1], sp(b, cls[0][0]), [sp(b, x) for x in incs]))
            shapes[fn] = cls[0][1]
            if cls[0][1] != "Lt":
                bad.append(("classification:%s" % fn, "%s classifies a batch as stored frame by %s(batch_count, materialized_frame_count) instead of Lt" % (fn, cls[0][1]), None))
            if not incs:
                bad.append(("batch-not-counted:%s" % fn, "%s classifies received batches by batch_count but does not advance it in its receive loop" % fn, None))
                continue
            # every path from the classification back to the next recv passes an increment
            seen = b.reach(cls[0][0], cut_blocks=incs)
            if hdr in seen and cls[0][0] not in incs:
                bad.append(("batch-not-counted:%s" % fn, "%s can receive the next batch without having counted the current one (the counter is advanced only on some paths): the stored-frame / delta classification then differs from the other encoding" % fn, None))
            # and at most one increment per iteration
            for x in incs:
                after = b.reach(x, cut_blocks=[hdr])
                if any(y in after and y != x for y in incs):
                    bad.append(("batch-counted-twice:%s" % fn, "%s can count one received batch twice" % fn, None))
        return bad
    ctx.run("C20.d", "K11 SIB + K9 LOOP", "ShowResponseWriter::write_json / write_arrow", "both SHOW encodings classify and count received batches alike", d)

    def e_(inst):
        bad = []
        sites = 0
        for ty in ("JsonRenderer", "UnixRenderer", "ArrowRenderer"):
            for m in ("stream_batch", "stream_row"):
                try:
                    b = F.method(ty, "Renderer", m)
                except AnchorMissing:
                    continue
                k = b.key
                fam = [b] + [F.fn_exact(x) for x in F.find("^" + re.escape(k) + r"::\{closure")]
                # does this method print cells as text at all? (the Arrow renderer encodes through the Arrow builders, C20.b)
                ser = [c_ for B in fam for c_ in B.calls if not c_.cleanup and re.search(r"sonic_rs::(to_writer|to_string|to_vec)|serde_json::(to_writer|to_string|to_vec)", c_.nname)]
                if not ser:
                    continue
                sites += 1
                tj = [c_ for B in fam for c_ in B.calls if not c_.cleanup and re.search(r"ScalarValue::to_json$", c_.nname)]
                # the serialised frame must not contain ScalarValue cells directly
                direct = [c_ for c_ in ser if "ScalarValue" in (c_.ga or "")]
                inst.sites.append("%s::%s: to_json x%d, serialises %s" % (ty, m, len(tj), sorted({(c_.ga or "")[:60] for c_ in ser})))
                if not tj or direct:
                    bad.append(("cell-conversion:%s::%s" % (ty, m), "%s::%s prints cells without ScalarValue::to_json (the derived Serialize keeps a numeric / JSON-looking Utf8 a string, to_json does not): this encoding shows other values than its siblings" % (ty, m), None))
        if sites < 3:
            raise AnchorMissing("text-printing stream_batch / stream_row implementations (found %d, confirmed 4)" % sites)
        return bad
    ctx.run("C20.e", "K11 SIB", "Renderer::stream_batch / stream_row", "every text encoding converts cells through ScalarValue::to_json", e_)

    def f_(inst):
        """The Arrow writers hand the encoder either a row selection or None = "the whole batch". None is equivalent to the JSON
        frames (which emit exactly the accepted rows) only when every row of the batch was accepted: the None must sit behind the
        true edge of len(accepted rows) == len(batch), and the Some(..) must carry the accepted rows. Two sites: the QUERY writer
        (accepted rows = the vector pushed behind try_accept_row) and the SHOW writer's write_arrow_batch (accepted rows = its
        row_indices parameter, which its caller fills the same way)."""
        bad = []

        def site(b, accv, acc_upvar, tag):
            wb = one(b, r"ArrowStreamEncoder::write_batch$")

            def from_acc(op_):
                L = b.origins(op_)
                if acc_upvar and any(l[0] in ("upvar", "param") and l[1] == acc_upvar for l in L):
                    return True
                if accv and (b._origin_locals(op_) & accv):
                    return True
                return any(x[0] == "call" and re.search(r"as_slice$|Deref>::deref$|as_ref$", norm_path(x[1])) and from_acc(b.call_at(x[2]).args[0]) for x in L)
            sel = None
            for k_, a in enumerate(wb.args):
                L = b.origins(a)
                if any(l[0] == "agg" and re.search(r"Option::(None|Some)$", l[1]) for l in L):
                    sel = (k_, L)
            if sel is None:
                raise AnchorMissing("the Option<&[usize]> row selection argument of ArrowStreamEncoder::write_batch in %s" % tag)

            def all_rows(op, A, B, truth):
                def is_acc(X):
                    return any(l[0] == "call" and re.search(r"(Vec|slice)::len$", norm_path(l[1])) and from_acc(b.call_at(l[2]).args[0]) for l in X)

                def is_batch(X):
                    return any(l[0] == "call" and re.search(r"ColumnBatch::len$", norm_path(l[1])) for l in X)
                if not ((is_acc(A) and is_batch(B)) or (is_acc(B) and is_batch(A))):
                    return False
                return (op == "Eq" and truth) or (op == "Ne" and not truth)
            n_none = n_some = 0
            for l in sel[1]:
                if l[0] != "agg":
                    continue
                if l[1].endswith("Option::None"):
                    n_none += 1
                    if not cmp_guard(b, l[2], all_rows):
                        bad.append(("whole-batch-without-all-rows:%s" % tag, "%s hands the encoder None (= encode the whole batch) on a path that has not established len(accepted rows) == len(batch): rows dropped by de-duplication, OFFSET or LIMIT reappear in the Arrow stream only" % tag, sp(b, l[2])))
                elif l[1].endswith("Option::Some"):
                    n_some += 1
                    ag = [v for (bb, j, v, dst) in b.aggregates("option::Option", "Some") if bb == l[2]]
                    if ag and not any(from_acc(o) for v in ag for o in v["o"]):
                        bad.append(("selection-not-accepted-rows:%s" % tag, "the row selection %s hands to the Arrow encoder is not the accepted rows" % tag, sp(b, l[2])))
            if n_some == 0:
                bad.append(("no-row-selection:%s" % tag, "%s never hands a row selection to the encoder: rows not accepted are encoded anyway" % tag, sp(b, wb.bb)))
            inst.sites += [sp(b, wb.bb), "%s: row selection arg #%d: %d None, %d Some origin(s)" % (tag, sel[0], n_none, n_some)]

        def accepted_vec(b, tag):
            pushes = [c for c in b.calls if not c.cleanup and c.nname.endswith("Vec::push")]
            acc_c = [c for c in b.calls if not c.cleanup and c.nname.endswith("try_accept_row")]
            accv = set()
            for pc in pushes:
                if acc_c:
                    if any(b.dominates_edge(e, pc.bb) for ac in acc_c for e in bool_result_edge(b, ac, True)):
                        accv |= b._origin_locals(pc.args[0])
                # the SHOW writer decides acceptance inline: its vector is the one the row loop's own index is pushed into
                elif any(l[0] == "call" and re.search(r"Range<A>>::next$|Iterator>::next$|Iterator::next$", l[1]) for l in b.origins(pc.args[1])):
                    accv |= b._origin_locals(pc.args[0])
            if not accv:
                raise AnchorMissing("the vector accepted row indices are pushed into in %s" % tag)
            return accv
        q = F.fn("query::streaming::response_writer::QueryResponseWriter::write_arrow")
        site(q, accepted_vec(q, "QUERY write_arrow"), None, "QUERY write_arrow")
        sw = F.fn("show::streaming::response_writer::ShowResponseWriter::write_arrow")
        sb = F.fn("show::streaming::response_writer::ShowResponseWriter::write_arrow_batch")
        site(sb, set(), "row_indices", "SHOW write_arrow_batch")
        av = accepted_vec(sw, "SHOW write_arrow")
        for c in sw.calls:
            if not c.cleanup and c.nname.endswith("write_arrow_batch"):
                if not any(sw._origin_locals(a) & av for a in c.args):
                    bad.append(("selection-not-accepted-rows:SHOW write_arrow", "SHOW write_arrow does not pass the accepted rows to write_arrow_batch", sp(sw, c.bb)))
        return bad
    ctx.run("C20.f", "K8 GUARD", "QueryResponseWriter::write_arrow / ShowResponseWriter::write_arrow_batch", "the Arrow stream encodes a whole batch only when every row of it was accepted", f_)
