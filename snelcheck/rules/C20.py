"""C20 — every response encoding carries the same rows and values: gate / provenance clauses only."""
from .util import *

EXPLANATION = """
Claimed narrowly. Decides: (a) the JSON and the Arrow paths of the query response writer select rows through the same try_accept_row gate (shared with C03.e1/e2) and the row count announced by stream_end
is the writer's `emitted` counter (query and SHOW response writers); (c) every Renderer::render implementation takes the status code it prints from response.status.code()
(no constant substituted on the normal path).
(b) the two copies of the scalar-to-Arrow cell builders (shared/response/arrow.rs and engine/core/read/flow/batch.rs, one function per Arrow type) accept the same ScalarValue variants — a variant one copy
converts and the other sends to append_null shows up as null in Arrow on one code path while JSON prints the value.
(d) SHOW: the JSON and the Arrow path of ShowResponseWriter classify a received batch as stored frame / delta by the same test (batch_count < materialized_frame_count, which switches the
duplicate-id filter on) and count it in the same place: in each receive loop every iteration that classifies a batch also increments batch_count before the next batch is received - whatever
OFFSET / LIMIT / de-duplication leave of it (a counter advanced only when something is written lags behind on one encoding and lets duplicate ids through there).
(e) the three Renderer implementations turn a cell into JSON text through ScalarValue::to_json in stream_batch / stream_row alike (to_json maps a Utf8 holding a large u64 or JSON text to a number / array; the
derived Serialize prints the string): one encoding using another conversion prints different values for the same rows.
Noted, not armed: the inline row-selection builders in build_record_batch accept fewer variants than the functions (no Utf8 parsing); a u64 above i64::MAX is kept as a string and becomes null in an Int64 Arrow column.
Does NOT decide numeric equality of decoded cells, batch-size independence, or byte-level agreement of the three encodings.
"""
FLOOR = 8
REQUIRED = ["C20.a", "C20.b", "C20.c", "C20.d", "C20.e", "C20/C03.e1", "C20/C03.e2"]


def run(ctx):
    F = ctx.F
    ctx.borrow("C03", ["C03.e1", "C03.e2"], "C20")

    def a(inst):
        bad = []
        for nm in ("QueryResponseWriter::write_json", "ShowResponseWriter::write_json"):
            b = F.fn(nm)
            se = one(b, r"Renderer::stream_end$")
            L = b.origins(se.args[1])
            inst.sites.append("%s: stream_end(%s)" % (nm, fmt_leaves(L)))
            if not (has_origin(L, None, proj_contains=[".emitted"]) and all(l[0] == "binop" or (isinstance(l[-1], tuple) and ".emitted" in l[-1]) for l in L)):
                bad.append(("row-count-origin:%s" % nm, "%s announces %s as the row count, not the number of rows emitted" % (nm, fmt_leaves(L)), None))
            # stream_end after the row loop: no row rendering reachable after it
            rend = b.find_calls(r"Renderer::stream_(batch|row|column_batch)$")
            for r in rend:
                if b.can_reach(se.bb, r.bb):
                    bad.append(("rows-after-end:%s" % nm, "%s can render rows after stream_end" % nm, None))
        # `emitted` is incremented only in try_accept_row (query writer) on its accepting path
        t = F.fn("QueryResponseWriter::try_accept_row")
        inc = [(blk, s) for blk in t.live_blocks() for s in t.blocks[blk]["s"] if "a" in s and s["a"][0] == 1 and ".emitted" in s["a"]]
        trues = [blk for blk in t.live_blocks() for s in t.blocks[blk]["s"] if "a" in s and s["a"] == [0] and s["v"]["r"] == "use" and s["v"]["o"].get("k") == "true"]
        if not inc or not trues:
            raise AnchorMissing("emitted += 1 / return true in try_accept_row")
        for blk, s in inc:
            if not any(t.can_reach(blk, tb) for tb in trues):
                bad.append(("emitted-without-accept", "emitted is incremented on a path that rejects the row", None))
        for tb in trues:
            if not any(t.dominates(blk, tb) for blk, _ in inc):
                bad.append(("accept-without-count", "a row is accepted without being counted", None))
        # no other writer of .emitted in the query response writer
        for nm in ("QueryResponseWriter::write_json", "QueryResponseWriter::write_arrow"):
            b = F.fn(nm)
            for blk in b.live_blocks():
                for s in b.blocks[blk]["s"]:
                    if "a" in s and ".emitted" in s["a"][1:]:
                        bad.append(("emitted-second-writer:%s" % nm, "%s updates the emitted counter outside try_accept_row" % nm, None))
        return bad
    ctx.run("C20.a", "K7 PROV", "response writers: stream_end", "the announced row count is the number of rows emitted", a)

    def b_(inst):
        bad = []

        def explicit(key):
            b = F.fn_exact(key)
            out = None
            for i in sorted(b.live_blocks()):
                if b.blocks[i]["t"]["t"] == "switch":
                    si = b.switch_info(i)
                    if si and si["kind"] == "enum" and (si.get("adt") or "").endswith("types::ScalarValue"):
                        out = {k for k in si["edges"] if k != "else"}
                        break
            if out is None:
                raise AnchorMissing("match on ScalarValue in %s" % key)
            return out
        n = 0
        for ty in ("int64", "float64", "bool", "timestamp", "string"):
            a = "shared::response::arrow::build_%s_array_from_scalars" % ty
            c_ = "engine::core::read::flow::batch::build_%s_array_from_scalars" % ty
            if not F.has(a) or not F.has(c_):
                raise AnchorMissing("cell builder pair for %s" % ty)
            ea, ec = explicit(a), explicit(c_)
            n += 1
            inst.sites.append("%s: arrow.rs %s | batch.rs %s" % (ty, sorted(ea), sorted(ec)))
            if ea != ec:
                bad.append(("cell-builder-disagree:%s" % ty, "the %s cell builders disagree on the scalar variants they convert: arrow.rs %s vs batch.rs %s — the variants in the difference become null on one path" % (ty, sorted(ea), sorted(ec)), None))
        return bad
    ctx.run("C20.b", "K11 SIB", "scalar-to-Arrow cell builders (two copies)", "both Arrow encoding paths convert the same scalar variants", b_)

    def c(inst):
        bad = []
        for ty in ("JsonRenderer", "UnixRenderer", "ArrowRenderer"):
            b = F.method(ty, "Renderer", "render")
            fam = [b] + [F.fn_exact(k) for k in F.find("^" + re.escape(b.key) + r"::\{closure")]
            ok = False
            for bb_ in fam:
                for c_ in bb_.find_calls(r"StatusCode::code$"):
                    L = bb_.origins(c_.args[0])
                    if has_origin(L, "param", "response", proj_contains=[".status"]) or has_origin(L, "upvar", "response", proj_contains=[".status"]):
                        ok = True
            inst.sites.append("%s::render reads response.status.code(): %s" % (ty, ok))
            if not ok:
                bad.append(("status-not-from-response:%s" % ty, "%s::render does not take the status code from response.status" % ty, None))
        return bad
    ctx.run("C20.c", "K11 SIB", "Renderer::render implementations", "every encoding prints the response's own status code", c)

    ctx.note("build_record_batch's inline row-selection builders accept fewer variants than the builder functions; u64 > i64::MAX is kept as Utf8 and becomes null in an Int64 column (reproduced, value level, not armed)")

    def d(inst):
        bad = []
        shapes = {}
        for fn in ("write_json", "write_arrow"):
            b = F.fn("ShowResponseWriter::" + fn)
            rc = [c_ for c_ in b.find_calls(r"QueryBatchStream::recv$")]
            if len(rc) != 1:
                raise AnchorMissing("stream.recv() in %s (%d)" % (fn, len(rc)))
            # loop header = the switch on the awaited Option (Some edge starts an iteration)
            some = variant_edge(b, rc[0], "Some")
            hdr = rc[0].bb
            # classification: a comparison reading .batch_count and .materialized_frame_count
            cls = []
            incs = []
            for i in sorted(b.live_blocks()):
                for st in b.blocks[i]["s"]:
                    v = st.get("v")
                    if not v:
                        continue
                    if v.get("r") == "bin" and v.get("op") in ("Lt", "Le", "Gt", "Ge"):
                        fa, fb = fmt_leaves(b.origins(v["a"])), fmt_leaves(b.origins(v["b"]))
                        if "batch_count" in fa + fb and "materialized_frame_count" in fa + fb:
                            o = v["op"] if "batch_count" in fa else {"Lt": "Gt", "Gt": "Lt", "Le": "Ge", "Ge": "Le"}[v["op"]]
                            cls.append((i, o))
                    if st.get("a") and st["a"][-1:] == [".batch_count"] and v.get("r") == "use":
                        L = b.origins(v["o"])
                        if any(l[0] == "binop" and l[1].startswith("Add") for l in L):
                            incs.append(i)
            if len(cls) != 1:
                raise AnchorMissing("the stored-frame test batch_count < materialized_frame_count in %s (%d)" % (fn, len(cls)))
            inst.sites.append("%s: classify %s @ %s, increments @ %s" % (fn, cls[0][1], sp(b, cls[0][0]), [sp(b, x) for x in incs]))
            shapes[fn] = cls[0][1]
            if cls[0][1] != "Lt":
                bad.append(("classification:%s" % fn, "%s classifies a batch as stored frame by %s(batch_count, materialized_frame_count) instead of Lt" % (fn, cls[0][1]), None))
            if not incs:
                bad.append(("batch-not-counted:%s" % fn, "%s classifies received batches by batch_count but does not advance it in its receive loop" % fn, None))
                continue
            # every path from the classification back to the next recv passes an increment
            seen = b.reach(cls[0][0], cut_blocks=incs)
            if hdr in seen and cls[0][0] not in incs:
                bad.append(("batch-not-counted:%s" % fn, "%s can receive the next batch without having counted the current one (the counter is advanced only on some paths): the stored-frame / delta classification then differs from the other encoding" % fn, None))
            # and at most one increment per iteration
            for x in incs:
                after = b.reach(x, cut_blocks=[hdr])
                if any(y in after and y != x for y in incs):
                    bad.append(("batch-counted-twice:%s" % fn, "%s can count one received batch twice" % fn, None))
        return bad
    ctx.run("C20.d", "K11 SIB + K9 LOOP", "ShowResponseWriter::write_json / write_arrow", "both SHOW encodings classify and count received batches alike", d)

    def e_(inst):
        bad = []
        sites = 0
        for ty in ("JsonRenderer", "UnixRenderer", "ArrowRenderer"):
            for m in ("stream_batch", "stream_row"):
                try:
                    b = F.method(ty, "Renderer", m)
                except AnchorMissing:
                    continue
                k = b.key
                fam = [b] + [F.fn_exact(x) for x in F.find("^" + re.escape(k) + r"::\{closure")]
                # does this method print cells as text at all? (the Arrow renderer encodes through the Arrow builders, C20.b)
                ser = [c_ for B in fam for c_ in B.calls if not c_.cleanup and re.search(r"sonic_rs::(to_writer|to_string|to_vec)|serde_json::(to_writer|to_string|to_vec)", c_.nname)]
                if not ser:
                    continue
                sites += 1
                tj = [c_ for B in fam for c_ in B.calls if not c_.cleanup and re.search(r"ScalarValue::to_json$", c_.nname)]
                # the serialised frame must not contain ScalarValue cells directly
                direct = [c_ for c_ in ser if "ScalarValue" in (c_.ga or "")]
                inst.sites.append("%s::%s: to_json x%d, serialises %s" % (ty, m, len(tj), sorted({(c_.ga or "")[:60] for c_ in ser})))
                if not tj or direct:
                    bad.append(("cell-conversion:%s::%s" % (ty, m), "%s::%s prints cells without ScalarValue::to_json (the derived Serialize keeps a numeric / JSON-looking Utf8 a string, to_json does not): this encoding shows other values than its siblings" % (ty, m), None))
        if sites < 3:
            raise AnchorMissing("text-printing stream_batch / stream_row implementations (found %d, confirmed 4)" % sites)
        return bad
    ctx.run("C20.e", "K11 SIB", "Renderer::stream_batch / stream_row", "every text encoding converts cells through ScalarValue::to_json", e_)
