"""C20 — every response encoding carries the same rows and values: gate / provenance clauses only."""
from .util import *

EXPLANATION = """
Claimed narrowly. Decides: (a) the JSON and the Arrow paths of the query response writer select rows through the same try_accept_row gate (shared with C03.e1/e2) and the row count announced by stream_end
is the writer's `emitted` counter (query and SHOW response writers); (c) every Renderer::render implementation takes the status code it prints from response.status.code()
(no constant substituted on the normal path).
Noted, not armed: Arrow typed cell builders append null for non-matching scalar variants where the JSON encoder prints the value (needs a reachable mixed-variant column).
Does NOT decide numeric equality of decoded cells, batch-size independence, or byte-level agreement of the three encodings.
"""
FLOOR = 5
REQUIRED = ["C20.a", "C20.c", "C20/C03.e1", "C20/C03.e2"]


def run(ctx):
    F = ctx.F
    ctx.borrow("C03", ["C03.e1", "C03.e2"], "C20")

    def a(inst):
        bad = []
        for nm in ("QueryResponseWriter::write_json", "ShowResponseWriter::write_json"):
            b = F.fn(nm)
            se = one(b, r"Renderer::stream_end$")
            L = b.origins(se.args[1])
            inst.sites.append("%s: stream_end(%s)" % (nm, fmt_leaves(L)))
            if not (has_origin(L, None, proj_contains=[".emitted"]) and all(l[0] == "binop" or (isinstance(l[-1], tuple) and ".emitted" in l[-1]) for l in L)):
                bad.append(("row-count-origin:%s" % nm, "%s announces %s as the row count, not the number of rows emitted" % (nm, fmt_leaves(L)), None))
            # stream_end after the row loop: no row rendering reachable after it
            rend = b.find_calls(r"Renderer::stream_(batch|row|column_batch)$")
            for r in rend:
                if b.can_reach(se.bb, r.bb):
                    bad.append(("rows-after-end:%s" % nm, "%s can render rows after stream_end" % nm, None))
        # `emitted` is incremented only in try_accept_row (query writer) on its accepting path
        t = F.fn("QueryResponseWriter::try_accept_row")
        inc = [(blk, s) for blk in t.live_blocks() for s in t.blocks[blk]["s"] if "a" in s and s["a"][0] == 1 and ".emitted" in s["a"]]
        trues = [blk for blk in t.live_blocks() for s in t.blocks[blk]["s"] if "a" in s and s["a"] == [0] and s["v"]["r"] == "use" and s["v"]["o"].get("k") == "true"]
        if not inc or not trues:
            raise AnchorMissing("emitted += 1 / return true in try_accept_row")
        for blk, s in inc:
            if not any(t.can_reach(blk, tb) for tb in trues):
                bad.append(("emitted-without-accept", "emitted is incremented on a path that rejects the row", None))
        for tb in trues:
            if not any(t.dominates(blk, tb) for blk, _ in inc):
                bad.append(("accept-without-count", "a row is accepted without being counted", None))
        # no other writer of .emitted in the query response writer
        for nm in ("QueryResponseWriter::write_json", "QueryResponseWriter::write_arrow"):
            b = F.fn(nm)
            for blk in b.live_blocks():
                for s in b.blocks[blk]["s"]:
                    if "a" in s and ".emitted" in s["a"][1:]:
                        bad.append(("emitted-second-writer:%s" % nm, "%s updates the emitted counter outside try_accept_row" % nm, None))
        return bad
    ctx.run("C20.a", "K7 PROV", "response writers: stream_end", "the announced row count is the number of rows emitted", a)

    def c(inst):
        bad = []
        for ty in ("JsonRenderer", "UnixRenderer", "ArrowRenderer"):
            b = F.method(ty, "Renderer", "render")
            fam = [b] + [F.fn_exact(k) for k in F.find("^" + re.escape(b.key) + r"::\{closure")]
            ok = False
            for bb_ in fam:
                for c_ in bb_.find_calls(r"StatusCode::code$"):
                    L = bb_.origins(c_.args[0])
                    if has_origin(L, "param", "response", proj_contains=[".status"]) or has_origin(L, "upvar", "response", proj_contains=[".status"]):
                        ok = True
            inst.sites.append("%s::render reads response.status.code(): %s" % (ty, ok))
            if not ok:
                bad.append(("status-not-from-response:%s" % ty, "%s::render does not take the status code from response.status" % ty, None))
        return bad
    ctx.run("C20.c", "K11 SIB", "Renderer::render implementations", "every encoding prints the response's own status code", c)

    ctx.note("arrow.rs typed cell builders send non-matching ScalarValue variants to append_null while JSON prints them; not armed (reachable mixed-variant column not demonstrated)")
