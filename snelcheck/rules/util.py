"""Helpers shared by the per-property rule tables."""
import re
from ..facts import AnchorMissing
from ..mir import norm_path, TRANSPARENT
from ..engine import witness_path


def calls(body, pat, min=1, max=None, what=None):
    cs = body.find_calls(pat)
    if len(cs) < min or (max is not None and len(cs) > max):
        raise AnchorMissing("%s: expected %s call site(s) of /%s/ in %s, found %d" % (
            what or "site", ("%d..%s" % (min, max if max is not None else "")), pat, body.key, len(cs)))
    return cs


def one(body, pat, what=None):
    return calls(body, pat, 1, 1, what)[0]


def sp(body, bb):
    return body.blocks[bb]["t"].get("sp") or ("%s(bb%d)" % (body.rec["file"], bb))


def done_edge(body, call):
    """edge taken exactly when the call (or, for a future-creating call, its .await) has completed"""
    e, _poll = body.completion_edge(call)
    if e is None:
        raise AnchorMissing("call %s in %s never returns" % (call.name, body.key))
    return e


def is_awaited(body, call):
    return body.await_of(call) is not None


def edges_for_variant(si, variant):
    out = []
    if variant in si["edges"]:
        out.append(si["edges"][variant])
    elif variant in si.get("else_variants", []):
        out.append(si["edges"]["else"])
    return out


def result_switches(body, call):
    """enum switches testing the (awaited) result of call: list of (switch_bb, switch_info, depth-proj)"""
    place, aw = body.result_value_place(call)
    start = [aw[0].dest[0]] if aw is not None else place
    flow = body.flow_forward(start)
    locs = {}
    for l, p in flow:
        locs.setdefault(l, set()).add(p)
    out = []
    live = body.live_blocks()
    for i in range(body.n):
        if i not in live or body.blocks[i]["t"]["t"] != "switch":
            continue
        si = body.switch_info(i)
        if si and si["kind"] == "enum" and si["place"][0] in locs:
            out.append((i, si))
    return out


def variant_edge(body, call, variant, what=None, all_=False):
    """edge(s) on which the result of `call` is known to be `variant` (Ok / Some / Continue / Err …)"""
    es = []
    for i, si in result_switches(body, call):
        for tgt in edges_for_variant(si, variant):
            es.append((i, tgt))
    if not es:
        raise AnchorMissing("%s: result of %s in %s is never tested for %s" % (what or "edge", call.name, body.key, variant))
    return es if all_ else es


def ok_edges(body, call):
    """edges that witness success of a Result/Option-returning call: Continue (from `?`), Ok, Some"""
    es = []
    for i, si in result_switches(body, call):
        for v in ("Continue", "Ok", "Some"):
            for tgt in edges_for_variant(si, v):
                es.append(((i, tgt), v))
    return es


def bool_result_edge(body, call, truth):
    """edge taken when the bool returned by (awaited) call is `truth`"""
    place, aw = body.result_value_place(call)
    start = [aw[0].dest[0]] if aw is not None else place
    flow = body.flow_forward(start)
    locs = {l for l, _ in flow}
    out = []
    live = body.live_blocks()
    for i in range(body.n):
        if i not in live or body.blocks[i]["t"]["t"] != "switch":
            continue
        si = body.switch_info(i)
        if not si or si["kind"] != "bool":
            continue
        op = si["op"]
        pl = op.get("m") or op.get("c")
        if pl is None:
            continue
        if pl[0] in locs or (body._origin_locals(op) & locs):
            out.append((i, si["true"] if truth else si["false"]))
    if not out:
        raise AnchorMissing("bool result of %s in %s is never branched on" % (call.name, body.key))
    return out


def must_cross(body, dst_bb, cut_edges=(), cut_blocks=(), key="", detail="", src_edges=None):
    """Violation unless {cut_edges, cut_blocks} separates entry (or src_edges) from dst_bb."""
    seen = body.reach(0, cut_blocks=cut_blocks, cut_edges=cut_edges, src_edges=src_edges)
    if dst_bb in seen:
        return [(key, detail + " — reachable avoiding the required sites", witness_path(body, seen, dst_bb))]
    return []


def no_path(body, src_edges, dst_bb, key="", detail="", cut_blocks=()):
    seen = body.reach(0, src_edges=src_edges, cut_blocks=cut_blocks)
    if dst_bb in seen:
        return [(key, detail, witness_path(body, seen, dst_bb))]
    return []


def has_origin(leaves, kind=None, name=None, proj_contains=None, name_re=None):
    for l in leaves:
        if kind and l[0] != kind:
            continue
        nm = l[1] if len(l) > 1 else None
        if name is not None and nm != name:
            continue
        if name_re is not None and (nm is None or not re.search(name_re, norm_path(str(nm)))):
            continue
        if proj_contains is not None:
            pr = l[-1] if isinstance(l[-1], tuple) else ()
            if not all(p in pr for p in proj_contains):
                continue
        return True
    return False


def fmt_leaves(leaves):
    out = []
    for l in sorted(leaves, key=str):
        if l[0] in ("param", "upvar", "static", "constitem"):
            out.append("%s:%s%s" % (l[0], l[1], "".join(l[2])))
        elif l[0] == "call":
            out.append("call:%s%s" % (norm_path(l[1]), "".join(l[3])))
        elif l[0] == "agg":
            out.append("agg:%s%s" % (l[1], "".join(l[3])))
        else:
            out.append(":".join(str(x) for x in l))
    return ", ".join(out)


def bool_switches_on(body, pred):
    """live bool switches whose tested operand's origins satisfy pred(leaves)"""
    out = []
    live = body.live_blocks()
    for i in range(body.n):
        if i not in live or body.blocks[i]["t"]["t"] != "switch":
            continue
        si = body.switch_info(i)
        if si and si["kind"] == "bool":
            leaves = body.origins(si["op"])
            if pred(leaves):
                out.append((i, si))
    return out


def enum_switches_on(body, pred, adt_re=None):
    out = []
    live = body.live_blocks()
    for i in range(body.n):
        if i not in live or body.blocks[i]["t"]["t"] != "switch":
            continue
        si = body.switch_info(i)
        if si and si["kind"] == "enum":
            if adt_re and not re.search(adt_re, si.get("adt") or ""):
                continue
            leaves = body.origins(si["place"])
            if pred(leaves):
                out.append((i, si))
    return out


def cmp_guard(body, bb_target, accept):
    """K8: is bb_target control-dependent (dominated by the true/false edge) on a comparison accepted by
    accept(op, a_leaves, b_leaves, truth)? Returns list of matching (switch_bb, op, truth)."""
    out = []
    live = body.live_blocks()
    for i in range(body.n):
        if i not in live or body.blocks[i]["t"]["t"] != "switch":
            continue
        si = body.switch_info(i)
        if not si or si["kind"] != "bool":
            continue
        d = si.get("def")
        if not d or d.get("r") != "bin":
            continue
        a = body.origins(d["a"])
        b = body.origins(d["b"])
        for truth, edge_t in ((True, si["true"]), (False, si["false"])):
            if edge_t is None:
                continue
            if accept(d["op"], a, b, truth) and body.dominates_edge((i, edge_t), bb_target):
                out.append((i, d["op"], truth))
    return out


def callee_names(body):
    return {c.nname for c in body.calls if not c.cleanup}


def str_consts(body, op, depth=4, _seen=None):
    """String constants that flow into an operand: constants among its origins and, recursively, among
    the arguments of the (non-transparent) calls it originates from (Path::join, format, set_extension…)."""
    out = set()
    if _seen is None:
        _seen = set()
    for l in body.origins(op):
        if l[0] == "const":
            out.add(l[1].strip('"'))
        elif l[0] == "call" and depth > 0:
            bb = l[2]
            if bb in _seen:
                continue
            _seen.add(bb)
            c = body.call_at(bb)
            if c is not None:
                for a in c.args:
                    out |= str_consts(body, a, depth - 1, _seen)
    return out


def edge_dominated(body, edge):
    """blocks every entry-path to which takes `edge` (the 'arm' of that edge)"""
    full = set(body.reach(0))
    without = set(body.reach(0, cut_edges=[edge]))
    return full - without


def arms(body, switch_bb):
    """for an enum switch: {variant: set(blocks dominated by that variant's edge)}"""
    si = body.switch_info(switch_bb)
    out = {}
    for name, tgt in si["edges"].items():
        if name == "else":
            continue
        out[name] = edge_dominated(body, (switch_bb, tgt))
    if si.get("else_variants"):
        blocks = edge_dominated(body, (switch_bb, si["edges"]["else"]))
        for v in si["else_variants"]:
            out.setdefault(v, blocks)
    return out


def calls_in(body, blocks, pat):
    rx = re.compile(pat)
    return [c for c in body.calls if c.bb in blocks and not c.cleanup and rx.search(c.nname)]


def unit_variants_in(body, blocks, adt_suffix):
    """fieldless/any aggregates of enum `adt_suffix` built in the given blocks: list of variant names"""
    out = []
    for (bb, j, v, _) in body.aggregates(adt_suffix):
        if bb in blocks:
            out.append(v["var"])
    return out


def param_enum_switches(body, adt_re, param=None):
    """enum switches over ADT matching adt_re whose scrutinee derives from a parameter"""
    return enum_switches_on(body, lambda L: any(l[0] in ("param", "upvar") and (param is None or l[1] == param) for l in L), adt_re)


NEXT_TRANSPARENT = re.compile(TRANSPARENT.pattern[:-2] + r"|.*Iterator>::next|(std|core)::iter::Iterator::next|(std|core)::iter::range::<impl .*>::next|.*::iter|.*::into_iter|.*::iter_mut|(std|core)::iter::Iterator::(enumerate|rev|cloned|copied|peekable))$")


FS_MUT = re.compile(
    r"^((std::fs|tokio::fs)::(write|rename|remove_file|remove_dir|remove_dir_all|create_dir|create_dir_all|copy|hard_link|set_permissions|"
    r"File::create|File::create_new|File::set_len|OpenOptions::(write|append|truncate|create|create_new)|DirBuilder::create)"
    r"|memmap2::.*(MmapMut\b.*|map_mut|map_copy)|fs2::.*(allocate|set_len)|tempfile::.*)$")


def fs_mut_leaves(cg, node):
    return sorted(t for t in cg.edges.get(node, ()) if t not in cg.nodes and FS_MUT.search(norm_path(t)))


def held_guard_violations(body, lock_call, uses, guard_ty=r"MutexGuard|RwLock(Read|Write)Guard"):
    """K5: the guard produced by (awaited) lock_call must be live at every block in `uses`:
    lock completion dominates the use, and no non-cleanup Drop/StorageDead… of the guard local lies on a path lock→use."""
    bad = []
    de = done_edge(body, lock_call)
    place, aw = body.result_value_place(lock_call)
    start = [aw[0].dest[0]] if aw is not None else place
    flow = body.flow_forward(start)
    guard_locals = {l for l, _ in flow if re.search(guard_ty, body.local_ty(l)) and not body.local_ty(l).startswith("&")}
    if not guard_locals:
        raise AnchorMissing("guard local of %s in %s" % (lock_call.name, body.key))
    # a local whose value is moved on into another guard local is dead afterwards (its Drop is a no-op in mir_built)
    moved_on = set()
    for blk in body.blocks:
        for st in blk["s"]:
            if "a" in st and st["v"]["r"] == "use" and "m" in st["v"]["o"]:
                src = st["v"]["o"]["m"]
                if src[0] in guard_locals and st["a"][0] in guard_locals and st["a"][0] != src[0]:
                    moved_on.add(src[0])
    guard_locals -= moved_on
    named = {l for l in guard_locals if body.local_name(l)}
    if not named:
        bad.append(("guard-temporary", "the lock guard is a temporary dropped at the end of the statement", None))
    drops = [i for i in body.live_blocks() if not body.blocks[i].get("cu") and body.blocks[i]["t"]["t"] == "drop" and body.blocks[i]["t"]["p"][0] in (named or guard_locals)
             and len(body.blocks[i]["t"]["p"]) == 1]
    expl = [c.bb for c in body.find_calls(r"mem::drop$") if c.args and (c.args[0].get("m") or [None])[0] in guard_locals]
    for u in uses:
        if not body.dominates_edge(de, u):
            bad.append(("use-before-lock", "a protected operation is reachable without the lock having been acquired", witness_path(body, body.reach(0, cut_edges=[de]), u)))
        for d in drops + expl:
            if body.can_reach(de[1], d) and body.can_reach(d, u) and d != u:
                # a drop that can reach the use: guard released in between (only if the drop itself is after acquisition)
                bad.append(("guard-dropped-before-use", "the lock guard can be dropped before a protected operation", None))
                break
    return bad


def wide_all(body, op, depth=24, partial=True):
    """locals reachable backwards through moves/refs, *all* call arguments and aggregate operands (over-approximation used to ask `which parameter does this depend on`)"""
    out = set()
    pl = op.get("m") or op.get("c") if isinstance(op, dict) else op
    if pl is None:
        return out
    stack = [(pl[0], depth)]
    while stack:
        l, d = stack.pop()
        if l in out or d <= 0:
            continue
        out.add(l)
        for (bb, j, dpl, rv) in body.defs().get(l, []):
            ps = []
            if not partial and len(dpl) > 1:
                continue  # `x.f = ..` / `(*x).f = ..`: a field store, not a definition of x
            if j == -1:
                ps = [a_.get("m") or a_.get("c") for a_ in (rv.get("args") or [])]
            else:
                r = rv["r"]
                if r in ("use", "cast", "un", "repeat"):
                    ps = [rv["o"].get("m") or rv["o"].get("c")]
                elif r in ("ref", "cfd", "rawptr", "discr"):
                    ps = [rv["p"]]
                elif r == "agg":
                    ps = [o.get("m") or o.get("c") for o in rv["o"]]
                elif r == "bin":
                    ps = [rv["a"].get("m") or rv["a"].get("c"), rv["b"].get("m") or rv["b"].get("c")]
            for p2 in ps:
                if p2:
                    stack.append((p2[0], d - 1))
    return out


def deep_locals(body, op, depth=40, wide=False):
    """locals an operand derives from, following moves/refs and the *first argument* of any call (iterator chains: x.iter().map(..).collect()).
    wide=True also follows every argument of iterator adapters and the captured variables of closures (`.map(|i| cols[i][row_idx])`)."""
    out = set()
    pl = op.get("m") or op.get("c") if isinstance(op, dict) else op
    if pl is None:
        return out
    stack = [(pl[0], depth)]
    while stack:
        l, d = stack.pop()
        if l in out or d <= 0:
            continue
        out.add(l)
        for (bb, j, dpl, rv) in body.defs().get(l, []):
            if j == -1:
                args = rv.get("args") or []
                f = rv["f"]
                name = (f.get("p") if not f.get("virt") else None) or f.get("u") or ""
                take = args[:1]
                if wide and re.search(r"Iterator(>)?::|IntoIterator|::iter(_mut)?$|::into_iter$", name):
                    take = args
                for a_ in take:
                    p2 = a_.get("m") or a_.get("c")
                    if p2:
                        stack.append((p2[0], d - 1))
            else:
                r = rv["r"]
                ps = []
                if r in ("use", "cast"):
                    ps = [rv["o"].get("m") or rv["o"].get("c")]
                elif r in ("ref", "cfd", "rawptr"):
                    ps = [rv["p"]]
                elif r == "agg" and wide and rv.get("ak") in ("closure", "coroutine", "tuple"):
                    ps = [o.get("m") or o.get("c") for o in rv["o"]]
                for p2 in ps:
                    if p2:
                        stack.append((p2[0], d - 1))
    return out


def for_headers(body):
    """the `next()` call of every `for` loop (resolved name ends with ::next and the call stems from the for-loop desugaring), plus explicit Iterator::next calls"""
    live = body.live_blocks()
    return [c for c in body.calls if not c.cleanup and c.bb in live and c.nname.endswith("::next")
            and ("desugar:ForLoop" in c.mac or c.nname.endswith("Iterator>::next") or "WhileLet" in " ".join(c.mac))]


def loop_nexts(body, pred):
    """for-loop headers whose iterated value's origins satisfy pred(leaves)"""
    out = []
    for c in for_headers(body):
        L = body.origins(c.args[0], transparent=NEXT_TRANSPARENT, depth=16)
        if pred(L):
            out.append(c)
    return out


def skipped_iteration(body, nx, site_blocks, allowed_edges=()):
    """K9: witness path from the Some edge of the loop header `nx` back to the header that avoids every block in site_blocks
    and every explicitly allowed skip edge (None if none)"""
    some = variant_edge(body, nx, "Some")
    seen = body.reach(0, src_edges=some, cut_blocks=list(site_blocks), cut_edges=list(allowed_edges))
    if nx.bb in seen:
        return witness_path(body, seen, nx.bb)
    return None


def early_exit(body, nx):
    """K9: a path from the Some edge of loop header `nx` to a function return that does not pass the header again (break / return inside the loop)."""
    some = variant_edge(body, nx, "Some")
    seen = body.reach(0, src_edges=some, cut_blocks=[nx.bb])
    for x in body.exits():
        if x in seen:
            return witness_path(body, seen, x)
    return None


def _closure_defs(body, op):
    """def keys of the closures an operand may hold"""
    out = set()
    pl = op.get("m") or op.get("c") if isinstance(op, dict) else op
    if not pl:
        return out
    for l in deep_locals(body, pl, depth=6):
        for (bb, j, dpl, rv) in body.defs().get(l, []):
            if j != -1 and rv.get("r") == "agg" and rv.get("ak") == "closure" and rv.get("def"):
                out.add(rv["def"])
    return out


def _same_file(F, k1, k2):
    try:
        return F.info[k1]["file"] == F.info[k2]["file"]
    except Exception:
        return False


MAP_LIKE = r"(Option|Result)::(map|and_then|map_or|map_or_else|filter_map|then|unwrap_or_else)$"


def deep_origins(F, body, op, depth=5, same_module=True, _stack=(), stop=None, unwrap=False):
    """Interprocedural provenance: like body.origins(op) but a call to a crate-local function (by default: of the same module) is replaced
    by what that function returns (its parameters mapped back to the caller's arguments), and `opt.map(|x| ..)` / and_then by what the closure
    returns (its parameter mapped to the receiver). Leaves keep the format of Body.origins; leaves of other bodies carry that body's block ids."""
    mod = body.key.split("::{closure")[0].rsplit("::", 1)[0]
    out = set()
    if unwrap:
        # the payload of Some / Ok (what an Option::map closure receives): look through the wrappers, None never arrives
        old, body.unwrap_some = body.unwrap_some, True
        try:
            first = {l for l in body.origins(op) if not (l[0] == "agg" and l[1].endswith(("Option::None",)))}
        finally:
            body.unwrap_some = old
    else:
        first = body.origins(op)
    for l in first:
        if l[0] == "param" and "::{closure#" in body.key and depth > 0 and not _stack:
            # a closure's own parameter: what the adaptor it is passed to feeds it (the receiver of map / and_then)
            pk = body.key.rsplit("::{closure#", 1)[0]
            fed = None
            if F.has(pk):
                P = F.fn_exact(pk)
                for c in P.calls:
                    if not c.cleanup and re.search(MAP_LIKE, c.nname) and len(c.args) >= 2 and any(body.key in _closure_defs(P, a_) for a_ in c.args[1:]):
                        fed = deep_origins(F, P, c.args[0], depth - 1, same_module, (), stop, True)
            if fed is not None:
                out |= fed
            else:
                out.add(("unknown", "closure parameter %s of %s" % (l[1], body.key.rsplit("::", 1)[-1]), ()))
            continue
        if l[0] != "call" or depth <= 0:
            out.add(l)
            continue
        c = body.call_at(l[2])
        if c is None:
            out.add(l)
            continue
        nn = c.nname
        if re.search(MAP_LIKE, nn) and len(c.args) >= 2:
            cds = [k for a_ in c.args[1:] for k in _closure_defs(body, a_) if F.has(k)]
            if cds:
                for k in cds:
                    if k in _stack:
                        continue
                    C = F.fn_exact(k)
                    for s_ in deep_origins(F, C, [0], depth - 1, same_module, _stack + (k,), stop):
                        if s_[0] == "param":
                            out |= deep_origins(F, body, c.args[0], depth - 1, same_module, _stack, stop)
                        elif s_[0] == "upvar":
                            out.add(("upvar-of-closure", s_[1], s_[2] if len(s_) > 2 else ()))
                        else:
                            out.add(s_)
                continue
        key = nn if F.has(nn) else (c.callee if c.callee and F.has(c.callee) else None)
        if key and stop and re.search(stop, key):
            key = None
        if key and c.local and key != body.key and key not in _stack and (not same_module or key.rsplit("::", 1)[0] == mod or _same_file(F, key, body.key)):
            C = F.fn_exact(key)
            for s_ in deep_origins(F, C, [0], depth - 1, same_module, _stack + (key,), stop, unwrap):
                if s_[0] == "param":
                    idx = next((i for i in range(1, C.argc + 1) if (C.local_name(i) or "_%d" % i) == s_[1]), None)
                    if idx is not None and idx - 1 < len(c.args):
                        out |= deep_origins(F, body, c.args[idx - 1], depth - 1, same_module, _stack, stop)
                    else:
                        out.add(s_)
                else:
                    out.add(s_)
            continue
        out.add(l)
    return out


def fmt_templates(body):
    """Decodes the `format_args!` templates of a body (byte strings handed to fmt::Arguments::new; encoding documented in
    library/core/src/fmt/mod.rs): list of templates, each a list of ('lit', text) | ('arg', {'width': int|None, 'zero': bool}).
    Returns None for a template that does not decode (callers fail closed)."""
    import ast
    out = []
    for i in body.live_blocks():
        for st in body.blocks[i].get("s", []):
            v = st.get("v") or {}
            o = v.get("o") if v.get("r") == "use" else None
            if not isinstance(o, dict) or "k" not in o or not str(o.get("ty", "")).startswith("&[u8;") or not o["k"].startswith('b"'):
                continue
            try:
                raw = ast.literal_eval(o["k"])
            except Exception:
                out.append(None)
                continue
            parts, p, ok = [], 0, True
            while p < len(raw):
                n = raw[p]
                p += 1
                if n == 0:
                    break
                if n < 0x80:
                    parts.append(("lit", raw[p:p + n].decode("utf8", "replace")))
                    p += n
                elif n == 0x80:
                    ln = raw[p] | (raw[p + 1] << 8)
                    parts.append(("lit", raw[p + 2:p + 2 + ln].decode("utf8", "replace")))
                    p += 2 + ln
                elif n >= 0xC0:
                    spec = {"width": None, "zero": False}
                    if n & 1:
                        flags = int.from_bytes(raw[p:p + 4], "little")
                        spec["zero"] = bool(flags & (1 << 24))
                        p += 4
                    if n & 2:
                        spec["width"] = raw[p] | (raw[p + 1] << 8)
                        p += 2
                    if n & 4:
                        p += 2
                    if n & 8:
                        p += 2
                    parts.append(("arg", spec))
                else:
                    ok = False
                    break
            out.append(parts if ok else None)
    return out


def sort_sites(F, body, depth=2, _seen=None):
    """(body, call) of every slice sort executed by `body` itself or by crate functions it calls (depth levels)."""
    out = []
    _seen = _seen if _seen is not None else set()
    if body.key in _seen:
        return out
    _seen.add(body.key)
    for c in body.calls:
        if c.cleanup:
            continue
        if re.search(r"slice::(sort|sort_unstable|sort_by|sort_by_key|sort_unstable_by|sort_unstable_by_key|sort_by_cached_key)$", c.nname):
            out.append((body, c))
        elif depth > 0 and c.callee and F.has(c.callee):
            out += sort_sites(F, F.fn_exact(c.callee), depth - 1, _seen)
    return out


def reaches_int_parse(F, body, depth=3, _seen=None):
    """True if the body or crate functions / closures it uses (depth levels) parse text into an integer."""
    _seen = _seen if _seen is not None else set()
    if body.key in _seen:
        return False
    _seen.add(body.key)
    for c in body.calls:
        if c.cleanup:
            continue
        if re.search(r"str::parse$|str>::parse$|FromStr>::from_str$|from_str_radix$", c.nname) and re.search(r"\b[ui](8|16|32|64|128|size)\b", c.name + " " + str(c.ga or "")):
            return True
        if depth > 0 and c.callee and F.has(c.callee) and reaches_int_parse(F, F.fn_exact(c.callee), depth - 1, _seen):
            return True
    if depth > 0:
        for k in F.keys():
            if k.startswith(body.key + "::{closure#") and reaches_int_parse(F, F.fn_exact(k), depth - 1, _seen):
                return True
    return False


def sort_call_sites(F, body):
    """call sites of `body` through which a slice sort is executed (the sort itself, or a crate helper that sorts)"""
    out = []
    for c in body.calls:
        if c.cleanup:
            continue
        if re.search(r"slice::sort(_unstable)?(_by|_by_key|_by_cached_key)?$", c.nname):
            out.append(c)
        elif c.callee and F.has(c.callee) and sort_sites(F, F.fn_exact(c.callee), 1):
            out.append(c)
    return out


def self_fields_read(body):
    """names of the fields of `self` (local 1) a body mentions in any place (reads and writes)"""
    out = set()

    def walk(x):
        if isinstance(x, dict):
            for k, v in x.items():
                if k in ("p", "m", "c", "a") and isinstance(v, list) and v and v[0] == 1:
                    for e in v[1:]:
                        if isinstance(e, str) and e.startswith("."):
                            out.add(e)
                            break
                else:
                    walk(v)
        elif isinstance(x, list):
            for e in x:
                walk(e)
    for i in body.live_blocks():
        walk(body.blocks[i])
    return out


def arith_origins(body, op, depth=6):
    """origins(op) with arithmetic looked through: a ('binop', ..) / ('unop', ..) leaf is replaced by the origins of its operands"""
    out = set()
    for l in body.origins(op):
        if l[0] in ("binop", "unop") and depth > 0:
            hit = False
            for st in body.blocks[l[2]]["s"]:
                v = st.get("v")
                if not v:
                    continue
                if l[0] == "binop" and v.get("r") == "bin" and v.get("op") == l[1]:
                    out |= arith_origins(body, v["a"], depth - 1) | arith_origins(body, v["b"], depth - 1)
                    hit = True
                elif l[0] == "unop" and v.get("r") == "un" and v.get("op") == l[1]:
                    out |= arith_origins(body, v["o"], depth - 1)
                    hit = True
            if not hit:
                out.add(l)
        else:
            out.add(l)
    return out


def in_cycle(body, bb, cut_blocks=()):
    """block bb lies on a cycle (it can be reached again after leaving it) that avoids cut_blocks"""
    cut = list(cut_blocks)
    return any(bb in body.reach(t, cut_blocks=cut) for t, _l in body.succ(bb) if t not in cut)


def through_bool_join(body, edges):
    """`matches!(..)` / `a && b` lower to arms that assign a constant to a bool temporary and join at a switch on it.
    For an edge whose target only assigns such a constant and falls through to that switch, return the edge of the
    switch the constant selects (so that a path-insensitive search does not take the other one)."""
    out = []
    for (a, t) in edges:
        cur, val, guard = t, {}, 0
        res = (a, t)
        while guard < 6:
            guard += 1
            blk = body.blocks[cur]
            for st in blk["s"]:
                v = st.get("v")
                if v and v.get("r") == "use" and isinstance(v.get("o"), dict) and v["o"].get("k") in ("true", "false") and st.get("a") and len(st["a"]) == 1:
                    val[st["a"][0]] = v["o"]["k"] == "true"
            tt = blk["t"]
            if tt["t"] in ("goto", "false_edge"):
                cur = tt["to"]
                continue
            if tt["t"] == "switch":
                si = body.switch_info(cur)
                if si and si["kind"] == "bool":
                    pl = si["op"].get("m") or si["op"].get("c")
                    if pl and len(pl) == 1 and pl[0] in val:
                        res = (cur, si["true"] if val[pl[0]] else si["false"])
            break
        out.append(res)
    return out
