"""Checker self-test (thorough tier): canary mutants.

For every canary (a small patch under /verif/mutants/*.diff, or a kept seeded change under /verif/seeded/*/patch.diff) the patch is applied to a scratch copy of /repo's *current* working tree,
facts are extracted from the scratch copy (lib only), and the named rule instance(s) must report a violation that is not a listed known finding. A canary that does not fire
means the checker is broken (not sneldb): the thorough check fails. Nothing is executed: the mutant is only compiled by `cargo check` through the extractor."""
import json, os, shutil, subprocess, sys, time, glob, tempfile

from . import facts as factsmod
from . import engine

VERIF = factsmod.VERIF


def canaries():
    out = []
    for p in sorted(glob.glob(os.path.join(VERIF, "mutants", "*.json"))):
        m = json.load(open(p))
        m["name"] = os.path.basename(p)[:-5]
        m["patch"] = p[:-5] + ".diff"
        out.append(m)
    for p in sorted(glob.glob(os.path.join(VERIF, "seeded", "*", "meta.json"))):
        m = json.load(open(p))
        if not m.get("detected_by"):
            continue
        out.append({"name": "seeded/" + os.path.basename(os.path.dirname(p)), "patch": os.path.join(os.path.dirname(p), "patch.diff"),
                    "expect": m["detected_by"], "what": m.get("summary", "")})
    return out


def make_scratch():
    d = tempfile.mkdtemp(prefix="snelcheck-mut-", dir="/var/tmp")
    r = subprocess.run("rsync -a --exclude target --exclude .git %s/ %s/repo/" % (factsmod.REPO, d), shell=True)
    if r.returncode != 0:
        raise SystemExit("selftest: cannot copy the repository")
    return d


def run_canary(c, scratch):
    repo = os.path.join(scratch, "repo")
    # reset scratch to the current tree, then apply
    subprocess.run("rsync -a --delete --exclude target --exclude .git %s/ %s/" % (factsmod.REPO, repo), shell=True, check=True)
    r = subprocess.run(["patch", "-p1", "--no-backup-if-mismatch", "-s", "-i", c["patch"]], cwd=repo, stdout=subprocess.PIPE, stderr=subprocess.STDOUT, text=True)
    if r.returncode != 0:
        return {"name": c["name"], "verdict": "patch-does-not-apply", "detail": r.stdout[-400:]}
    out = os.path.join(scratch, "facts")
    shutil.rmtree(out, ignore_errors=True)
    if c.get("benign") and MUT_CACHE:
        # a run over several properties evaluates every behaviour-preserving edit once per property: extract its facts once
        h, _ = factsmod.source_hash(repo)
        out = os.path.join(MUT_CACHE, h)
    try:
        d = factsmod.extract(repo=repo, bins=False, target_dir=os.path.join(factsmod.CACHE, "target-mut"), out_dir=out)
    except SystemExit as e:
        return {"name": c["name"], "verdict": "does-not-compile", "detail": str(e)}
    F = factsmod.Facts(d)
    if c.get("benign"):
        # behaviour-preserving edit: none of the given properties' tables may report anything new
        res = {"name": c["name"], "verdict": "silent", "false_alarms": []}
        known = {(k["property"], k["key"]) for k in engine.load_known().get("findings", [])}
        for prop in c["props"]:
            rc, ctx = engine.run_property(prop, "quick", F=F, quiet=True, write=False)
            for i in ctx.instances:
                if i.verdict in ("violation", "anchor-missing") and (prop, i.key) not in known:
                    res["false_alarms"].append("%s %s: %s" % (i.id, i.key, (i.detail or "")[:160]))
        if res["false_alarms"]:
            res["verdict"] = "FALSE-ALARM"
        return res
    res = {"name": c["name"], "verdict": "fired", "fired": [], "missed": []}
    by_prop = {}
    for e in c["expect"]:
        by_prop.setdefault(e.split(".")[0].split("/")[0], []).append(e)
    for prop, insts in by_prop.items():
        rc, ctx = engine.run_property(prop, "quick", F=F, quiet=True, write=False)
        viol = {i.id for i in ctx.instances if i.verdict in ("violation", "anchor-missing")}
        for e in insts:
            (res["fired"] if e in viol else res["missed"]).append(e)
    if res["missed"]:
        res["verdict"] = "MISSED"
    return res


def run_for_property(prop, only=None):
    allc = canaries()
    props = engine.PROPS if prop == "BENIGN" else [prop]
    cs = [] if prop == "BENIGN" else [c for c in allc if any(e.split(".")[0].split("/")[0] == prop for e in c["expect"])]
    cs += [dict(c, benign=True, props=props) for c in allc if not c["expect"]]
    if only:
        cs = [c for c in cs if c["name"] in only]
    if not cs:
        print("%s: no canaries registered" % prop)
        return 0
    t0 = time.time()
    scratch = make_scratch()
    results = []
    try:
        for c in cs:
            c2 = dict(c)
            c2["expect"] = [e for e in c["expect"] if e.split(".")[0].split("/")[0] == prop]
            results.append(run_canary(c2, scratch))
    finally:
        shutil.rmtree(scratch, ignore_errors=True)
    # a canary that no longer applies / compiles on an edited tree cannot be judged: recorded, not failed
    bad = [r for r in results if r["verdict"] not in ("fired", "silent", "patch-does-not-apply", "does-not-compile")]
    skipped = [r for r in results if r["verdict"] in ("patch-does-not-apply", "does-not-compile")]
    if skipped:
        print("  (%d canary(ies) skipped: patch does not apply / compile on this tree)" % len(skipped))
    for r in results:
        print("  canary %-40s %s %s" % (r["name"], r["verdict"], r.get("fired") or r.get("false_alarms") or r.get("detail", "")))
    # append to the evidence file written by the quick part of this run
    ep = os.path.join(VERIF, "evidence", "%s.json" % prop)
    try:
        ev = json.load(open(ep))
        ev["tier"] = "thorough"
        ev["coverage"]["canaries"] = results
        ev["coverage"]["canaries_run"] = len(results)
        ev["coverage"]["canaries_fired"] = sum(1 for r in results if r["verdict"] == "fired")
        ev["coverage"]["benign_edits_silent"] = sum(1 for r in results if r["verdict"] == "silent")
        ev["coverage"]["canaries_skipped"] = len(skipped)
        ev["wall_s"] = round(ev.get("wall_s", 0) + time.time() - t0, 1)
        json.dump(ev, open(ep, "w"), indent=1)
    except Exception:
        pass
    if bad:
        rp = os.path.join(VERIF, "reports", "%s-selftest.json" % prop)
        json.dump({"property": prop, "kind": "checker-selftest", "failed_canaries": bad}, open(rp, "w"), indent=1)
        # a blind checker must not report "held": fail the thorough check (this is a defect of the checker, reported as such)
        print("SELFTEST-FAILED property=%s %d canary(ies) did not fire; see %s" % (prop, len(bad), rp))
        return 2
    return 0


MUT_CACHE = None


def main(argv):
    global MUT_CACHE
    props = argv or engine.PROPS
    rc = 0
    if len(props) > 1:
        MUT_CACHE = tempfile.mkdtemp(prefix="snelcheck-mutfacts-", dir="/var/tmp")
    try:
        for p in props:
            rc = max(rc, run_for_property(p))
    finally:
        if MUT_CACHE:
            shutil.rmtree(MUT_CACHE, ignore_errors=True)
    return rc
