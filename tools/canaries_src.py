#!/usr/bin/env python3
"""Source of the canary mutants: (name, expect, what, [(file, old, new)]). `make` regenerates /verif/mutants/*.diff against /repo HEAD
using the scratch worktree /tmp/wt/canary (git worktree of /repo)."""
import json, os, subprocess, sys
WT = "/tmp/wt/canary"
C = []


def c(name, expect, what, edits):
    C.append((name, expect, what, edits))


c("c02a_memtable_emit_unevaluated", ["C02.a1"], "memtable source pushes rows before evaluating the condition",
  [("src/engine/core/read/flow/operators/memtable_source.rs",
    "            if !evaluator.evaluate_event(event) {\n                continue;\n            }\n\n            row_buf.clear();",
    "            let _ = evaluator.evaluate_event(event);\n\n            row_buf.clear();")])
c("c02b_surf_none_empty", ["C02.b"], "ZoneSuRF arm returns no zones when the pruner cannot decide",
  [("src/engine/core/zone/selector/field_selector.rs",
    """                        candidate_zones =
                            CandidateZone::create_all_zones_for_segment_from_meta_cached(
                                &self.qplan.segment_base_dir,
                                args.segment_id,
                                uid,
                                self.caches,
                            );""",
    "                        return Vec::new();")])
c("c02e_and_combined_with_or", ["C02.e2"], "AND groups are combined with LogicalOp::Or",
  [("src/engine/core/zone/zone_group_collector.rs",
    "                self.collect_and_combine_children(children, LogicalOp::And)\n            }\n            FilterGroup::Or",
    "                self.collect_and_combine_children(children, LogicalOp::Or)\n            }\n            FilterGroup::Or")])
c("c02e_not_and_demorgan", ["C02.e2"], "NOT(AND ..) combines the negated children with And",
  [("src/engine/core/zone/zone_group_collector.rs",
    "                self.collect_and_combine_children(&not_children, LogicalOp::Or)",
    "                self.collect_and_combine_children(&not_children, LogicalOp::And)")])
c("c03b_replace_before_passive", ["C03.b1"], "rotation swaps the memtable before the passive copy exists",
  [("src/engine/store/insert.rs",
    "        let passive_arc = ctx.passive_buffers.add_from(&ctx.memtable).await;\n        let flushed_mem = std::mem::replace(&mut ctx.memtable, MemTable::new(capacity));",
    "        let flushed_mem = std::mem::replace(&mut ctx.memtable, MemTable::new(capacity));\n        let passive_arc = ctx.passive_buffers.add_from(&flushed_mem).await;")])
c("c03c_clear_before_publish", ["C03.c", "C11/C03.c"], "flush task clears the passive buffer before the segment id is published",
  [("src/engine/core/write/flush_worker.rs",
    """                        // Only update segment_ids after successful verification
                        let segment_name = format!("{:05}", segment_id);""",
    """                        if track_lifecycle {
                            if let Some(passive) = lifecycle.clear_and_complete(segment_id).await {
                                passive.lock().await.flush();
                            }
                        }
                        let segment_name = format!("{:05}", segment_id);""")])
c("c03d_no_passive_snapshot", ["C03.d"], "StreamingContext ignores the passive buffers",
  [("src/engine/query/streaming/context.rs",
    "        let passive_snapshot = passive_buffers.non_empty().await;",
    "        let _ = passive_buffers;\n        let passive_snapshot = Vec::new();")])
c("c03e_no_dedup", ["C03.e2", "C20/C03.e2"], "try_accept_row no longer consults seen_ids",
  [("src/command/handlers/query/streaming/response_writer.rs",
    "            if !self.seen_ids.insert(id) {\n                return false;\n            }",
    "            let _ = id;")])
c("c03i_unsigned_pending_counter", ["C03.i"], "FlowMetrics::pending_batches is an unsigned atomic again",
  [("src/engine/core/read/flow/metrics.rs", "    pending_batches: AtomicI64,", "    pending_batches: AtomicU64,"),
   ("src/engine/core/read/flow/metrics.rs", "        self.pending_batches.load(Ordering::Relaxed).max(0) as u64", "        self.pending_batches.load(Ordering::Relaxed)"),
   ("src/engine/core/read/flow/metrics.rs", "        if pending <= 0 {\n            return;\n        }\n        let pending = pending as u64;\n", "")])
c("c02f_uniq_key_without_uid", ["C02.f"], "CandidateZone::uniq keys by (zone_id, segment_id) only",
  [("src/engine/core/zone/candidate_zone.rs", """            let key = (
                zone.zone_id,
                zone.segment_id.clone(),
                zone.uid().map(str::to_string),
            );""", "            let key = (zone.zone_id, zone.segment_id.clone());")])
c("c02g_no_uid_fallback", ["C02.g"], "ZoneHydrator groups only uid-tagged zones",
  [("src/engine/core/zone/zone_hydrator.rs", "            if let Some(uid) = zone.uid().or(fallback_uid.as_deref()) {", "            let _ = &fallback_uid;\n            if let Some(uid) = zone.uid() {")])
c("c04a_insert_front", ["C04.a"], "memtable inserts new events at the front of the context bucket",
  [("src/engine/core/memory/memtable.rs",
    "            .or_default()\n            .push(event);",
    "            .or_default()\n            .insert(0, event);")])
c("c04b_flush_sorts_bucket", ["C04.b"], "flusher sorts each context bucket by timestamp before writing",
  [("src/engine/core/write/flusher.rs",
    "            total_count += bucket.len();",
    "            total_count += bucket.len();\n            bucket.sort_by_key(|e| e.timestamp);")])
c("c04e_replay_unordered", ["C04.e"], "REPLAY loses its ORDER BY again",
  [("src/command/types.rs", """                order_by: Some(OrderSpec {
                    field: "event_id".to_string(),
                    desc: false,
                }),""", "                order_by: None,")])
c("c04e_replay_by_timestamp", ["C04.e"], "REPLAY ordered by timestamp (second resolution) instead of event id",
  [("src/command/types.rs", '                    field: "event_id".to_string(),', '                    field: "timestamp".to_string(),')])
c("c05a_commit_despite_error", ["C05.a"], "process_batch ignores the compactor's error and commits",
  [("src/engine/core/compaction/compaction_worker.rs",
    "        let results = compactor\n            .run()\n            .await\n            .map_err(|e| CompactorError::ZoneWriter(e.to_string()))?;",
    "        let results = compactor.run().await.unwrap_or_default();")])
c("c05b_lock_after_load", ["C05.b1", "C11/C05.b1"], "commit_batch loads the index before taking the flush lock",
  [("src/engine/core/compaction/handover.rs",
    "            let _guard = self.flush_lock.lock().await;\n            let mut index = SegmentIndex::load(&self.shard_dir).await?;",
    "            let mut index = SegmentIndex::load(&self.shard_dir).await?;\n            let _guard = self.flush_lock.lock().await;")])
c("c05b_no_exists_guard", ["C05.b1", "C11/C05.b1"], "commit_batch no longer checks that the output directory exists",
  [("src/engine/core/compaction/handover.rs",
    "                if !output_segment_dir.exists() {",
    "                if false && !output_segment_dir.exists() {")])
c("c05c_reclaim_in_loop", ["C05.c"], "inputs are reclaimed inside the batch loop",
  [("src/engine/core/compaction/compaction_worker.rs",
    "            let drained = self.process_batch(batch).await?;\n            all_drained_segments.extend(drained);",
    "            let drained = self.process_batch(batch).await?;\n            self.handover.schedule_reclaim(drained.clone());\n            all_drained_segments.extend(drained);")])
c("c06a_skip_validation_single_field", ["C06.a"], "store handler skips payload validation for single-field schemas",
  [("src/command/handlers/store.rs",
    "    if let Err(e) = validate_payload(payload, mini_schema) {",
    "    if mini_schema.fields.len() > 1\n        && let Err(e) = validate_payload(payload, mini_schema)\n    {")])
c("c06d_register_before_append", ["C06.d1"], "define_async registers the schema before it is durable",
  [("src/engine/schema/registry.rs",
    """        tokio::task::spawn_blocking(move || store.append(&record_clone))
            .await
            .map_err(|e| SchemaError::IoWriteFailed(format!("spawn_blocking failed: {}", e)))??;

        self.register_record(record);
        Ok(())""",
    """        self.register_record(record);
        tokio::task::spawn_blocking(move || store.append(&record_clone))
            .await
            .map_err(|e| SchemaError::IoWriteFailed(format!("spawn_blocking failed: {}", e)))??;

        Ok(())""")])
c("c07a_tag_swap", ["C07.a1"], "PhysicalType::from(u8) swaps tags 2 and 3",
  [("src/engine/core/column/format.rs",
    "            2 => PhysicalType::U64,\n            3 => PhysicalType::F64,",
    "            2 => PhysicalType::F64,\n            3 => PhysicalType::U64,")])
c("c07a_header_offsets", ["C07.a2"], "ColumnBlockHeader::read_from reads aux_len from the row_count bytes",
  [("src/engine/core/column/format.rs",
    "        c.copy_from_slice(&slice[8..12]);\n        let aux_len = u32::from_le_bytes(c);",
    "        c.copy_from_slice(&slice[4..8]);\n        let aux_len = u32::from_le_bytes(c);")])
c("c07c_projection_drops_event_id", ["C07.c"], "RETURN projection no longer carries event_id",
  [("src/engine/core/read/flow/shard_pipeline.rs",
    '        "timestamp".to_string(),\n        "event_id".to_string(),\n    ];',
    '        "timestamp".to_string(),\n    ];')])
c("c08a_probe_own_encoding", ["C08.a1"], "RangePruner encodes the probe with encode_i64 directly",
  [("src/engine/core/zone/selector/pruner/range_pruner.rs",
    "                if let Some(bytes) = surf_encoding::encode_value(value).as_deref() {",
    "                if let Some(bytes) = value.as_i64().map(surf_encoding::encode_i64).as_deref() {")])
c("c08b_gt_uses_min", ["C08.b"], "TemporalPruner keeps a zone for > only if its minimum exceeds the bound",
  [("src/engine/core/zone/selector/pruner/temporal_pruner.rs",
    "                            CompareOp::Gt => zti.max_ts > ts as i64,",
    "                            CompareOp::Gt => zti.min_ts > ts as i64,")])
c("c09a_merge_drops_avg", ["C09.a1"], "AggState::merge has no Avg arm",
  [("src/engine/core/read/aggregate/partial.rs",
    "            (AggState::Avg { sum: a1, count: c1 }, AggState::Avg { sum: a2, count: c2 }) => {\n                *a1 += *a2;\n                *c1 += *c2;\n            }\n",
    "")])
c("c10a_offset_without_limit", ["C10.a"], "handler no longer rejects OFFSET without LIMIT",
  [("src/command/handlers/query/handler.rs",
    "        if offset.is_some() && limit.is_none() {",
    "        if false && offset.is_some() && limit.is_none() {")])
c("c10b_comparator_string", ["C10.b"], "memtable source compares sort keys by string representation",
  [("src/engine/core/read/flow/operators/memtable_source.rs",
    "    // Use the efficient direct comparison method\n    a.compare(b)\n}\n\nfn field_type_to_logical",
    "    a.to_string_repr().cmp(&b.to_string_repr())\n}\n\nfn field_type_to_logical")])
c("c12a_random_hasher", ["C12.a"], "get_shard hashes with a randomly keyed hasher",
  [("src/engine/shard/manager.rs",
    "        let mut hasher = DefaultHasher::new();\n        context_id.hash(&mut hasher);",
    "        let mut hasher = std::collections::hash_map::RandomState::new().build_hasher();\n        context_id.hash(&mut hasher);"),
   ("src/engine/shard/manager.rs", "use std::hash::{Hash, Hasher};", "use std::hash::{BuildHasher, Hash, Hasher};")])
c("c12c_skip_first_shard", ["C12.c1"], "query dispatch skips the first shard",
  [("src/command/handlers/query/dispatch/streaming.rs",
    "        for shard in ctx.shard_manager.all_shards() {",
    "        for shard in ctx.shard_manager.all_shards().iter().skip(1) {")])
c("c13a_tcp_passes_bypass", ["C13.a"], "TCP listener dispatches with the bypass identity",
  [("src/frontend/tcp/listener.rs",
    "                                    authenticated_user_id.as_deref(),\n                                    &UnixRenderer,",
    "                                    Some(\"bypass\"),\n                                    &UnixRenderer,")])
c("c13b_gate_opens_on_failure", ["C13.b1"], "unix gate returns Some on signature failure",
  [("src/frontend/unix/connection.rs",
    "                    Ok(_) => Some((command, Some(user_id.to_string()))),\n                    Err(_) => None,",
    "                    Ok(_) => Some((command, Some(user_id.to_string()))),\n                    Err(_) => Some((command, Some(user_id.to_string()))),")])
c("c13c_query_no_can_read", ["C13.c"], "query handler no longer checks can_read",
  [("src/command/handlers/query/handler.rs",
    "                if uid != BYPASS_USER_ID && !auth_mgr.can_read(uid, event_type).await {",
    "                if false && uid != BYPASS_USER_ID && !auth_mgr.can_read(uid, event_type).await {")])
c("c13e_revoke_keeps_sessions", ["C13.e"], "AuthManager::revoke_key no longer revokes session tokens",
  [("src/engine/auth/manager.rs",
    "        let mut store = self.session_store.write().await;\n        let revoked_count = store.revoke_user_sessions(user_id);\n        drop(store);\n\n        if revoked_count > 0 {",
    "        let revoked_count = 0usize;\n\n        if revoked_count > 0 {")])
c("c14a_remember_overwrites", ["C14.a"], "REMEMBER no longer rejects an existing alias",
  [("src/command/handlers/remember.rs",
    "        .is_some()\n    {\n        return Err(format!(\"Materialization '{}' already exists\", spec.alias()));\n    }",
    "        .is_some()\n    {\n        tracing::warn!(\"Materialization '{}' already exists, replacing\", spec.alias());\n    }")])
c("c14c_send_unfiltered", ["C14.c"], "delta refresher streams the unfiltered batch",
  [("src/command/handlers/show/delta/refresher.rs",
    "                let mut batch = batch;\n                if watermark.enabled() {\n                    match watermark.filter(batch) {",
    "                let original = batch.clone();\n                let mut batch = batch;\n                if watermark.enabled() {\n                    match watermark.filter(batch) {"),
   ("src/command/handlers/show/delta/refresher.rs",
    "                if sender.send(batch).await.is_err() {",
    "                if sender.send(original).await.is_err() {")])
c("c15_followed_strict", ["C15.a1"], "FOLLOWED BY requires a strictly later partner",
  [("src/engine/core/read/sequence/matcher.rs",
    "            if ts_b >= ts_a {\n                timestamp_passed += 1;",
    "            if ts_b > ts_a {\n                timestamp_passed += 1;")])
c("c16_second_parser", ["C16.a"], "add_special_fields parses SINCE with chrono directly",
  [("src/engine/core/filter/condition_evaluator_builder.rs",
    "                if let Some(parsed) =\n                    TimeParser::parse_str_to_epoch_seconds(since, TimeKind::DateTime)\n                {",
    "                if let Some(parsed) = chrono::DateTime::parse_from_rfc3339(since)\n                    .ok()\n                    .map(|d| d.timestamp())\n                {")])
c("c17a_new_unwrap", ["C17.a1"], "a grammar action unwraps a parse again",
  [("src/command/parser/commands/query.rs",
    "                n.parse::<u32>()\n                    .map(Clause::Limit)\n                    .map_err(|_| \"LIMIT value out of range\")\n            }",
    "                let r: Result<Clause, &'static str> = Ok(Clause::Limit(n.parse::<u32>().unwrap()));\n                r\n            }")])
c("c17b_dispatcher_unreachable", ["C17.b", "C17.a2"], "dispatcher wildcard arm panics again",
  [("src/command/dispatcher.rs",
    "            let resp = Response::error(StatusCode::BadRequest, \"Unsupported command\");\n            writer.write_all(&renderer.render(&resp)).await?;\n            writer.flush().await?;\n            Ok(())",
    "            unreachable!(\"dispatch_command called with non-command\")")])
c("c18a_id_only_for_shard0", ["C18.a"], "on_store assigns ids only on shard 0",
  [("src/engine/shard/worker.rs",
    "    if event.event_id().is_zero() {\n        let id = ctx.next_event_id();",
    "    if event.event_id().is_zero() && ctx.id == 0 {\n        let id = ctx.next_event_id();")])
c("c18b_no_clock_pin", ["C18.b1"], "generator no longer pins a clock that stepped back",
  [("src/engine/core/event/event_id.rs",
    "            millis = self.last_millis;\n        }\n\n        if millis == self.last_millis {",
    "            tracing::warn!(\"system clock moved backwards\");\n        }\n\n        if millis == self.last_millis {")])
c("c19a_failures_only_logged", ["C19.a"], "cleaner proceeds with deletion although archiving failed",
  [("src/engine/core/wal/wal_cleaner.rs",
    "                    \"Some WAL files failed to archive, skipping cleanup to preserve data\"\n                );\n                return;",
    "                    \"Some WAL files failed to archive, skipping cleanup to preserve data\"\n                );")])
c("c19c_archive_write_ignored", ["C19.c"], "archive_log ignores a failed archive write",
  [("src/engine/core/wal/wal_archiver.rs",
    "        let archive_path = archive.write_to_file(&self.archive_dir)?;",
    "        let archive_path = archive\n            .write_to_file(&self.archive_dir)\n            .unwrap_or_else(|_| self.archive_dir.join(\"failed\"));")])
c("c20b_float_builder_drops_int", ["C20.b"], "batch.rs float cell builder loses its Int64 arm again",
  [("src/engine/core/read/flow/batch.rs", "            ScalarValue::Float64(f) => builder.append_value(*f),\n            ScalarValue::Int64(i) => builder.append_value(*i as f64),\n", "            ScalarValue::Float64(f) => builder.append_value(*f),\n")])
c("c20a_end_counts_seen", ["C20.a"], "stream_end announces a different counter than emitted",
  [("src/command/handlers/query/streaming/response_writer.rs",
    "        self.renderer.stream_end(self.emitted, &mut self.encode_buf);",
    "        self.renderer\n            .stream_end(self.emitted + self.skipped, &mut self.encode_buf);")])


# ---- behaviour-preserving edits: no check may fire on these -----------------------------------------------------
c("benign_rename_locals", [], "locals renamed (mask, millis, failure_count, valid_row_indices, retired_set, flushed_mem)",
  [("src/engine/core/filter/condition_evaluator.rs", "mask", "keep_row"),
   ("src/engine/core/event/event_id.rs", "millis", "now_ms"),
   ("src/engine/core/wal/wal_cleaner.rs", "failure_count", "failed"),
   ("src/command/handlers/query/streaming/response_writer.rs", "valid_row_indices", "accepted"),
   ("src/engine/core/compaction/handover.rs", "retired_set", "gone"),
   ("src/engine/store/insert.rs", "flushed_mem", "rotated"),
   ("src/engine/core/read/sequence/matcher.rs", "row_a", "head_row"),
   ("src/engine/core/read/sequence/matcher.rs", "zones_a", "head_zones")], )
c("benign_more_logging", [], "extra tracing statements at the anchor sites",
  [("src/engine/core/write/flush_worker.rs", "                        let cleaner = WalCleaner::new(shard_id);",
    "                        debug!(target: \"sneldb::flush\", shard_id, segment_id, \"about to prune the WAL\");\n                        let cleaner = WalCleaner::new(shard_id);"),
   ("src/engine/core/compaction/handover.rs", "            index.save(&self.shard_dir).await?;",
    "            debug!(target: \"compaction_handover::commit_batch\", shard = self.shard_id, \"saving index\");\n            index.save(&self.shard_dir).await?;"),
   ("src/engine/store/insert.rs", "    ctx.memtable.insert(event)?;", "    trace!(target: \"sneldb::store\", \"inserting\");\n    ctx.memtable.insert(event)?;"),
   ("src/engine/shard/manager.rs", "        let mut hasher = DefaultHasher::new();", "        tracing::trace!(target: \"shard::manager\", context_id, \"routing\");\n        let mut hasher = DefaultHasher::new();")])
c("benign_reorder_and_flip", [], "independent statements reordered; comparisons written the other way round",
  [("src/engine/store/insert.rs", "        let current_segment_id = ctx.allocator.next_for_level(0) as u64;\n\n        let capacity = ctx.memtable.capacity();",
    "        let capacity = ctx.memtable.capacity();\n\n        let current_segment_id = ctx.allocator.next_for_level(0) as u64;"),
   ("src/engine/core/wal/wal_cleaner.rs", "                            if id < keep_from_log_id {", "                            if keep_from_log_id > id {"),
   ("src/engine/core/read/sequence/matcher.rs", "            if ts_b >= ts_a {\n                timestamp_passed += 1;", "            if ts_a <= ts_b {\n                timestamp_passed += 1;"),
   ("src/engine/core/event/event_id.rs", "        if millis < self.last_millis {", "        if self.last_millis > millis {"),
   ("src/engine/core/zone/selector/pruner/temporal_pruner.rs", "                            CompareOp::Gt => zti.max_ts > ts as i64,", "                            CompareOp::Gt => (ts as i64) < zti.max_ts,")])
c("benign_extract_helper", [], "the verified-publication step of the flush task is restructured with an early continue-style guard",
  [("src/engine/core/write/flush_worker.rs", "                            if !segs.contains(&segment_name) {\n                                segs.push(segment_name.clone());",
    "                            let already = segs.contains(&segment_name);\n                            if !already {\n                                segs.push(segment_name.clone());")])


def make(only=None):
    os.makedirs("/verif/mutants", exist_ok=True)
    for name, expect, what, edits in C:
        if only and name not in only:
            continue
        subprocess.run("git checkout -q -- .", shell=True, cwd=WT, check=True)
        ok = True
        for f, old, new in edits:
            p = os.path.join(WT, f)
            s = open(p).read()
            if old not in s:
                print("!! %s: anchor text not found in %s" % (name, f))
                ok = False
                break
            import re as _re
            open(p, "w").write(_re.sub(r"\b%s\b" % _re.escape(old), new, s) if name.startswith("benign_rename") else s.replace(old, new, 1))
        if not ok:
            continue
        d = subprocess.run("git diff", shell=True, cwd=WT, stdout=subprocess.PIPE, text=True).stdout
        open("/verif/mutants/%s.diff" % name, "w").write(d)
        json.dump({"expect": expect, "what": what}, open("/verif/mutants/%s.json" % name, "w"), indent=1)
        print("wrote", name)
    subprocess.run("git checkout -q -- .", shell=True, cwd=WT, check=True)


if __name__ == "__main__":
    make(set(sys.argv[1:]) or None)
