#!/usr/bin/env python3
"""Confirms a seeded change in its scratch worktree: (1) demo passes on clean HEAD, (2) patch applies and the tree builds, (3) the pinned suite's stable tests all still pass with the patch,
(4) the demo fails with the patch. Usage: confirm_seeded.py <prop> <changeN> ; prints a JSON verdict and appends it to /tmp/wt/confirm.log"""
import json, os, subprocess, sys, xml.etree.ElementTree as ET, time

DEMOS = {
    ("C01", "change1"): ("py", "SNEL_BIN", "demo_wal_restart_partial_log.py"),
    ("C01", "change2"): ("py", "SNEL_BIN", "demo_restart_after_deep_compaction.py"),
    ("C02", "change1"): ("py", "SNELDB_BIN", "demo_range_query.py"),
    ("C02", "change2"): ("py", "SNELDB_BIN", "demo_compaction.py"),
    ("C03", "change1"): ("test", "demo.patch", "-E 'test(c03_reads_see_all_events_while_many_rotations_overlap)'"),
    ("C03", "change2"): ("test", "demo.patch", "--no-fail-fast --test-threads 1 -E 'test(c03_busy_passive_demo_test)'"),
    ("C05", "change1"): ("test", "demo.diff", "c05_demo_partial_drain"),
    ("C05", "change2"): ("test", "demo.diff", "c05_demo_failed_uid"),
    ("C04", "change1"): ("py", "SNELDB_BIN", "demo_restart_order.py"),
    ("C04", "change2"): ("py", "SNELDB_BIN", "demo_zone_boundary.py"),
    ("C06", "change1"): ("cptest", "c06_change1_demo.rs", "c06_change1_demo"),
    ("C06", "change2"): ("cptest", "c06_change2_demo.rs", "c06_change2_demo"),
    ("C09", "change1"): ("cpmod", "c09_demo_minmax_test.rs:src/command/handlers/query/merge/:register_demo_test.diff", "-E 'test(c09_demo_min_max)'"),
    ("C09", "change2"): ("cpmod", "c09_demo_nullable_total_test.rs:src/engine/core/read/flow/operators/:register_demo_test.diff", "-E 'test(c09_demo_nullable_total)'"),
    ("C07", "change1"): ("py", "SNELDB_BIN", "demo_stale_block_cache.py"),
    ("C07", "change2"): ("py", "SNELDB_BIN", "demo_u64_after_compaction.py"),
    ("C08", "change1"): ("cptest", "c08_calendar_wide_zone_demo.rs", "c08_calendar_wide_zone_demo"),
    ("C08", "change2"): ("cptest", "c08_surf_many_zones_demo.rs", "c08_surf_many_zones_demo"),
    ("C10", "change1"): ("sh", "cp {out}/demo/c10_demo.rs src/bin/c10_demo.rs && SNELDB_CONFIG={out}/demo/config.toml cargo run --offline --bin c10_demo -- nulls 2>&1 | tail -15; rc=${PIPESTATUS[0]}; rm -f src/bin/c10_demo.rs; exit $rc", None),
    ("C10", "change2"): ("sh", "cp {out}/demo/c10_demo.rs src/bin/c10_demo.rs && SNELDB_CONFIG={out}/demo/config.toml cargo run --offline --bin c10_demo -- memtable-page 2>&1 | tail -15; rc=${PIPESTATUS[0]}; rm -f src/bin/c10_demo.rs; exit $rc", None),
    ("C11", "change1"): ("sh", "git apply {out}/demo/demo.diff && cargo test --offline --lib c11_flush_publish_racing 2>&1 | tail -15; rc=${PIPESTATUS[0]}; git apply -R {out}/demo/demo.diff; exit $rc", None),
    ("C11", "change2"): ("sh", "git apply {out}/demo/demo.diff && cargo test --offline --lib c11_compaction_with_one_unreadable 2>&1 | tail -15; rc=${PIPESTATUS[0]}; git apply -R {out}/demo/demo.diff; exit $rc", None),
    ("C12", "change1"): ("sh", "{out}/demo/run_demo.sh 2>&1 | tail -15; exit ${PIPESTATUS[0]}", None),
    ("C12", "change2"): ("sh", "{out}/demo/run_demo.sh 2>&1 | tail -15; exit ${PIPESTATUS[0]}", None),
    ("C14", "change1"): ("sh", "{out}/demo/run_demo.sh without 2>&1 | tail -15; exit ${PIPESTATUS[0]}", "{out}/demo/run_demo.sh with 2>&1 | tail -15; exit ${PIPESTATUS[0]}"),
    ("C14", "change2"): ("sh", "{out}/demo/run_demo.sh without 2>&1 | tail -15; exit ${PIPESTATUS[0]}", "{out}/demo/run_demo.sh with 2>&1 | tail -15; exit ${PIPESTATUS[0]}"),
    ("C13", "change1"): ("py", "SNELDB_BIN", "demo_grant_leak.py"),
    ("C13", "change2"): ("py", "SNELDB_BIN", "demo_revoked_user_forged_sig.py"),
    ("C15", "change1"): ("sh", "bash {out}/demo/run_demo.sh 2>&1 | tail -25; exit ${PIPESTATUS[0]}", None),
    ("C15", "change2"): ("sh", "bash {out}/demo/run_demo.sh 2>&1 | tail -25; exit ${PIPESTATUS[0]}", None),
    ("C16", "change1"): ("sh", "bash {out}/demo/run.sh 2>&1 | tail -25; exit ${PIPESTATUS[0]}", None),
    ("C16", "change2"): ("sh", "bash {out}/demo/run.sh 2>&1 | tail -25; exit ${PIPESTATUS[0]}", None),
    ("C17", "change1"): ("sh", "bash {out}/demo/run.sh 2>&1 | tail -25; exit ${PIPESTATUS[0]}", None),
    ("C17", "change2"): ("sh", "bash {out}/demo/run.sh 2>&1 | tail -25; exit ${PIPESTATUS[0]}", None),
    ("C18", "change1"): ("sh", "sh {out}/demo/run_demo.sh 2>&1 | tail -25; exit ${PIPESTATUS[0]}", None),
    ("C18", "change2"): ("sh", "sh {out}/demo/run_demo.sh 2>&1 | tail -25; exit ${PIPESTATUS[0]}", None),
    ("C19", "change1"): ("sh", "bash {out}/demo/run.sh 2>&1 | tail -25; exit ${PIPESTATUS[0]}", None),
    ("C19", "change2"): ("sh", "bash {out}/demo/run.sh 2>&1 | tail -25; exit ${PIPESTATUS[0]}", None),
    ("C20", "change1"): ("sh", "bash {out}/demo/run.sh 2>&1 | tail -25; exit ${PIPESTATUS[0]}", None),
    ("C20", "change2"): ("sh", "bash {out}/demo/run.sh 2>&1 | tail -25; exit ${PIPESTATUS[0]}", None),
    ("C02r2", "change1"): ("sh", "python3 {out}/demo/demo_datetime_eq_wide_zone.py 2>&1 | tail -25; exit ${PIPESTATUS[0]}", None),
    ("C02r2", "change2"): ("sh", "python3 {out}/demo/demo_compaction_level_reuse.py 2>&1 | tail -25; exit ${PIPESTATUS[0]}", None),
    ("C03r2", "change1"): ("sh", "bash {out}/demo/run.sh 2>&1 | tail -25; exit ${PIPESTATUS[0]}", None),
    ("C03r2", "change2"): ("sh", "bash {out}/demo/run.sh 2>&1 | tail -25; exit ${PIPESTATUS[0]}", None),
    ("C05r2", "change1"): ("sh", "bash {out}/demo/run.sh 2>&1 | tail -25; exit ${PIPESTATUS[0]}", None),
    ("C05r2", "change2"): ("sh", "bash {out}/demo/run.sh 2>&1 | tail -25; exit ${PIPESTATUS[0]}", None),
    ("C07r2", "change1"): ("sh", "bash {out}/demo/run.sh 2>&1 | tail -25; exit ${PIPESTATUS[0]}", None),
    ("C07r2", "change2"): ("sh", "bash {out}/demo/run.sh 2>&1 | tail -25; exit ${PIPESTATUS[0]}", None),
    ("C06r2", "change1"): ("sh", "bash {out}/demo/run.sh 2>&1 | tail -25; exit ${PIPESTATUS[0]}", None),
    ("C06r2", "change2"): ("sh", "bash {out}/demo/run.sh 2>&1 | tail -25; exit ${PIPESTATUS[0]}", None),
    ("C08r2", "change1"): ("sh", "bash {out}/demo/run.sh 2>&1 | tail -25; exit ${PIPESTATUS[0]}", None),
    ("C08r2", "change2"): ("sh", "bash {out}/demo/run.sh 2>&1 | tail -25; exit ${PIPESTATUS[0]}", None),
    ("C09r2", "change1"): ("sh", "bash {out}/demo/run.sh 2>&1 | tail -25; exit ${PIPESTATUS[0]}", None),
    ("C09r2", "change2"): ("sh", "bash {out}/demo/run.sh 2>&1 | tail -25; exit ${PIPESTATUS[0]}", None),
    ("C04r2", "change1"): ("sh", "bash {out}/demo/run.sh 2>&1 | tail -25; exit ${PIPESTATUS[0]}", None),
    ("C04r2", "change2"): ("sh", "bash {out}/demo/run.sh 2>&1 | tail -25; exit ${PIPESTATUS[0]}", None),
    ("C10r2", "change1"): ("sh", "bash {out}/demo/run.sh 2>&1 | tail -25; exit ${PIPESTATUS[0]}", None),
    ("C10r2", "change2"): ("sh", "bash {out}/demo/run.sh 2>&1 | tail -25; exit ${PIPESTATUS[0]}", None),
    ("C11r2", "change1"): ("sh", "bash {out}/demo/run.sh 2>&1 | tail -25; exit ${PIPESTATUS[0]}", None),
    ("C11r2", "change2"): ("sh", "bash {out}/demo/run.sh 2>&1 | tail -25; exit ${PIPESTATUS[0]}", None),
    ("C12r2", "change1"): ("sh", "bash {out}/demo/run.sh 2>&1 | tail -25; exit ${PIPESTATUS[0]}", None),
    ("C12r2", "change2"): ("sh", "bash {out}/demo/run.sh 2>&1 | tail -25; exit ${PIPESTATUS[0]}", None),
    ("C13r2", "change1"): ("sh", "bash {out}/demo/run.sh 2>&1 | tail -25; exit ${PIPESTATUS[0]}", None),
    ("C13r2", "change2"): ("sh", "bash {out}/demo/run.sh 2>&1 | tail -25; exit ${PIPESTATUS[0]}", None),
    ("C14r2", "change1"): ("sh", "bash {out}/demo/run.sh 2>&1 | tail -25; exit ${PIPESTATUS[0]}", None),
    ("C14r2", "change2"): ("sh", "bash {out}/demo/run.sh 2>&1 | tail -25; exit ${PIPESTATUS[0]}", None),
    ("C15r2", "change1"): ("sh", "bash {out}/demo/run.sh 2>&1 | tail -25; exit ${PIPESTATUS[0]}", None),
    ("C15r2", "change2"): ("sh", "bash {out}/demo/run.sh 2>&1 | tail -25; exit ${PIPESTATUS[0]}", None),
    ("C16r2", "change1"): ("sh", "bash {out}/demo/run.sh 2>&1 | tail -25; exit ${PIPESTATUS[0]}", None),
    ("C16r2", "change2"): ("sh", "bash {out}/demo/run.sh 2>&1 | tail -25; exit ${PIPESTATUS[0]}", None),
    ("C17r2", "change1"): ("sh", "bash {out}/demo/run.sh 2>&1 | tail -25; exit ${PIPESTATUS[0]}", None),
    ("C17r2", "change2"): ("sh", "bash {out}/demo/run.sh 2>&1 | tail -25; exit ${PIPESTATUS[0]}", None),
    ("C18r2", "change1"): ("sh", "bash {out}/demo/run.sh 2>&1 | tail -25; exit ${PIPESTATUS[0]}", None),
    ("C18r2", "change2"): ("sh", "bash {out}/demo/run.sh 2>&1 | tail -25; exit ${PIPESTATUS[0]}", None),
    ("C19r2", "change1"): ("sh", "bash {out}/demo/run.sh 2>&1 | tail -25; exit ${PIPESTATUS[0]}", None),
    ("C19r2", "change2"): ("sh", "bash {out}/demo/run.sh 2>&1 | tail -25; exit ${PIPESTATUS[0]}", None),
    ("C20r2", "change1"): ("sh", "bash {out}/demo/run.sh 2>&1 | tail -25; exit ${PIPESTATUS[0]}", None),
    ("C20r2", "change2"): ("sh", "bash {out}/demo/run.sh 2>&1 | tail -25; exit ${PIPESTATUS[0]}", None),
    ("C01r2", "change1"): ("sh", "python3 {out}/demo/demo.py 2>&1 | tail -25; exit ${PIPESTATUS[0]}", None),
    ("C01r2", "change2"): ("sh", "python3 {out}/demo/demo.py 2>&1 | tail -25; exit ${PIPESTATUS[0]}", None),
}


def sh(cmd, cwd, env=None, timeout=3600):
    e = dict(os.environ)
    e.update(env or {})
    r = subprocess.run(cmd, shell=True, cwd=cwd, env=e, stdout=subprocess.PIPE, stderr=subprocess.STDOUT, text=True, timeout=timeout)
    return r.returncode, r.stdout


def main():
    tag, ch = sys.argv[1], sys.argv[2]   # tag = property id, optionally with a round suffix (C01r2)
    prop = tag[:3]
    wt = "/tmp/wt/%s" % tag
    out = "/tmp/wt/%s-out/%s" % (tag, ch)
    tgt = "/tmp/wt/%s-target" % tag
    env = {"CARGO_TARGET_DIR": tgt, "CARGO_NET_OFFLINE": "true", "RUST_BACKTRACE": "0"}
    import os.path
    kind, a, b = DEMOS.get((tag, ch)) or (json.load(open(out + "/demo/confirm.json")) if os.path.exists(out + "/demo/confirm.json")
                                          else ("sh", "bash {out}/demo/run.sh 2>&1 | tail -25; exit ${PIPESTATUS[0]}", None))
    res = {"property": prop, "tag": tag, "change": ch, "t": time.strftime("%H:%M:%S")}
    rc, o = sh("git status --porcelain", wt)
    if o.strip():
        sh("git checkout -- . && git clean -fdq src tests", wt)

    def demo(patched=False):
        if kind == "sh":
            cmd = a
            if patched and b:
                # the demo script applies ../patch.diff itself and resets the tree: start from a clean tree
                sh("git checkout -- .", wt)
                cmd = b
            rc, o = sh("bash -c %r" % cmd.replace("{out}", out), wt, env, timeout=3000)
            return rc == 0, o[-1500:]
        if kind == "py":
            rc, o = sh("cargo build --offline --bin snel_db 2>&1 | tail -3", wt, env)
            if "error" in o and "Finished" not in o:
                return None, o[-800:]
            rc, o = sh("python3 %s/demo/%s" % (out, b), out + "/demo", dict(env, **{a: tgt + "/debug/snel_db"}), timeout=1200)
            return rc == 0, o[-1500:]
        elif kind == "cptest":
            sh("cp %s/demo/%s tests/" % (out, a), wt)
            rc, o = sh("cargo test --offline --test %s -- --test-threads 1 2>&1 | tail -40" % b, wt, env, timeout=2400)
            sh("rm -f tests/%s" % a, wt)
            ok = "test result: ok" in o and "FAILED" not in o
            return ok, o[-1500:]
        elif kind == "cpmod":
            fn, dest, reg = a.split(":")
            sh("cp %s/demo/%s %s" % (out, fn, dest), wt)
            rc, o = sh("git apply %s/demo/%s" % (out, reg), wt)
            if rc != 0:
                return None, "register diff does not apply: " + o
            rc, o = sh("cargo nextest run --workspace --offline --no-capture %s 2>&1 | tail -60" % b, wt, env, timeout=2400)
            ok = "Summary" in o and " passed" in o and " failed" not in o.split("Summary")[-1]
            sh("git apply -R %s/demo/%s; rm -f %s/%s" % (out, reg, dest, fn), wt)
            return ok, o[-1500:]
        else:
            rc, o = sh("git apply %s/demo/%s" % (out, a), wt)
            if rc != 0:
                return None, "demo patch does not apply: " + o
            rc, o = sh("cargo nextest run --offline --no-capture %s 2>&1 | tail -60" % b, wt, env, timeout=2400)
            ok = ("0 failed" in o or " failed" not in o.split("Summary")[-1]) and "Summary" in o and " passed" in o
            sh("git apply -R %s/demo/%s" % (out, a), wt)
            return ok, o[-1500:]
    ok0, o0 = demo()
    res["demo_on_clean_head_passes"] = ok0
    res["demo_clean_tail"] = o0[-400:]
    rc, o = sh("git apply %s/patch.diff" % out, wt)
    res["patch_applies"] = rc == 0
    if rc != 0:
        res["detail"] = o
        return finish(res, wt)
    rc, o = sh("cargo nextest run --workspace --no-fail-fast --tool-config-file pb:/w/lib/nextest.toml --profile pb --test-threads 8 --offline 2>&1 | tail -600 | grep -E 'Summary|error(\\[|:)' | head -5", wt, env, timeout=3000)
    res["nextest_summary"] = o.strip()[-300:]
    stable = set(json.load(open("/root/.vp/BASELINE.json"))["stable_pass"])
    try:
        import os.path
        cands = [x for x in (tgt + "/nextest/pb/junit.xml", wt + "/target/nextest/pb/junit.xml") if os.path.exists(x)]
        t = ET.parse(max(cands, key=os.path.getmtime))
        got = {}
        for tc in t.iter("testcase"):
            got[tc.get("classname") + "::" + tc.get("name")] = not (tc.find("failure") is not None or tc.find("error") is not None)
        missing = sorted(s for s in stable if not got.get(s))
        res["stable_tests_not_passing"] = missing[:10]
        res["suite_ok"] = not missing
        if missing and len(missing) <= 6:
            # flaky under load? re-run just those
            flt = " ".join("-E 'test(=%s)'" % m.split("::", 1)[1] for m in missing)
            rc2, o2 = sh("cargo nextest run --offline --no-fail-fast %s 2>&1 | tail -5" % flt, wt, env, timeout=1200)
            res["rerun_of_failing"] = o2.strip()[-300:]
            if "0 failed" in o2 or (" passed" in o2 and " failed" not in o2.split("Summary")[-1]):
                res["suite_ok"] = True
    except Exception as e:
        res["suite_ok"] = False
        res["detail"] = repr(e)
    ok1, o1 = demo(patched=True)
    res["demo_with_change_passes"] = ok1
    res["demo_changed_tail"] = o1[-600:]
    return finish(res, wt)


def finish(res, wt):
    sh("git checkout -- . && git clean -fdq src tests", wt)
    res["confirmed"] = bool(res.get("demo_on_clean_head_passes") and res.get("patch_applies") and res.get("suite_ok") and res.get("demo_with_change_passes") is False)
    print(json.dumps(res, indent=1))
    open("/tmp/wt/confirm.log", "a").write(json.dumps(res) + "\n")


main()
