#!/usr/bin/env python3
"""Rewrites DESIGN.md §4d (between '## 4d.' and '## 4e.') from evidence/*.json (run `./check all` on the clean tree first)."""
import json, re, os
V = "/verif"
rows, n, known = [], 0, 0
for i in range(1, 21):
    p = "%s/evidence/C%02d.json" % (V, i)
    e = json.load(open(p))
    seen = set()
    for s_ in e["coverage"]["samples"]:
        key = (s_["instance"], s_["container"])
        if key in seen:
            continue
        seen.add(key)
        n += 1
        v = s_["verdict"]
        today = "holds" if v == "ok" else ("**known finding**" if v == "known" else "**" + v + "**")
        known += v == "known"
        rows.append("| %s | %s | `%s` | %s | %s |" % (s_["instance"], s_["rule"], s_["container"].replace("|", "/"), s_["statement"].replace("|", "/"), today))
head = """## 4d. [build] The instance tables as built

`./check all -v` prints, and `evidence/<id>.json` records, every instance with the
sites it matched. %d instances exist on today's tree, %d of them known findings
(regenerate this table with `python3 tools/gen_instance_table.py` after `./check all`):

| instance | rule kind | container | what is decided (on all paths) | today |
|---|---|---|---|---|
""" % (n, known)
s = open(V + "/DESIGN.md").read()
a, b = s.index("## 4d. [build]"), s.index("## 4e. [build]")
tail = ""
m = re.search(r"\n\n(Deviations.*)$", s[a:b], re.S)
old = s[a:b]
# keep whatever prose followed the table in the old section
after = old.split("\n\n")
keep = [x for x in after[1:] if not x.lstrip().startswith("|") and not x.startswith("`./check all -v`")]
s = s[:a] + head + "\n".join(rows) + "\n\n" + ("\n\n".join(keep).strip() + "\n\n" if keep else "") + s[b:]
open(V + "/DESIGN.md", "w").write(s)
print(n, "instances,", known, "known")
