#!/usr/bin/env python3
"""Regenerates /verif/MANIFEST.json from the rule modules present under snelcheck/rules."""
import importlib, json, os, sys
ROOT = os.path.dirname(os.path.dirname(os.path.abspath(__file__)))
sys.path.insert(0, ROOT)
props = [json.loads(l) for l in open(os.path.join(ROOT, "properties.jsonl"))]
NA = {}
try:
    NA = json.load(open(os.path.join(ROOT, "tools", "not_applicable.json")))
except Exception:
    pass
checks, na = [], []
for p in props:
    pid = p["id"]
    path = os.path.join(ROOT, "snelcheck", "rules", pid + ".py")
    if pid in NA or not os.path.exists(path):
        na.append({"property_id": pid, "reason": NA.get(pid, "rule table not built yet (build in progress); see DESIGN.md §4")})
        continue
    mod = importlib.import_module("snelcheck.rules." + pid)
    expl = " ".join(mod.EXPLANATION.split())
    # the rule instances as armed today (id [kind] claim), read off the rule module itself
    import re as _re
    src = open(path).read()
    seen_ids, rl = set(), []
    for rid, kind, target, claim in _re.findall(r'ctx\.run\("(C\d\d(?:/C\d\d)?\.[a-z0-9]+)",\s*"([^"]+)",\s*"[^"]*",\s*"([^"]+)"()', src):
        pass
    for m_ in _re.finditer(r'ctx\.run\("([^"]+)",\s*"([^"]+)",\s*"([^"]+)",\s*"([^"]+)"', src):
        rid, kind, target, claim = m_.groups()
        if rid in seen_ids:
            continue
        seen_ids.add(rid)
        rl.append("%s [%s] %s" % (rid, kind, claim))
    rules_txt = " Rules armed: " + "; ".join(rl) + "."
    checks.append({
        "property_id": pid,
        "quick_cmd": "./check %s" % pid,
        "thorough_cmd": "./check %s --tier thorough" % pid,
        "evidence_file": "/verif/evidence/%s.json" % pid,
        "replay_cmd_template": "./check explain {path}",
        "engine": "snelcheck",
        "level_claimed": {
            "category": "other",
            "text": "Static analysis over rustc MIR (all CFG paths of the anchor functions / whole-crate call graph): "
                    "decides structural necessary conditions of the property, not the behaviour itself. " + expl[:1800] + rules_txt,
            "design_ref": "DESIGN.md §4 " + pid,
        },
        "level_note": "Trusted: rustc 1.97-nightly front-end + MIR construction, the snelcheck fact extractor, CHA over-approximation of dyn calls, "
                      "external crates as leaves. Value-level, schedule-level and crash-point clauses are explicitly not decided.",
        "technique": getattr(mod, "TECHNIQUE", "static analysis: custom MIR dataflow/dominance/call-graph rules (rustc_private driver)"),
    })
m = {
    "version": 1,
    "setup_cmd": "./setup.sh",
    "hooks": {"guard": "sneldb_sneldb_verif", "enable": "not used: the checks read /repo's source through a rustc driver; no hooks are compiled into sneldb",
              "baseline_off_cmd": "cd /repo && cargo test --workspace --no-fail-fast --offline", "source_commits": [], "add_only": True},
    "engines": [{"name": "snelcheck", "path": "/verif/snelcheck", "serves_properties": [c["property_id"] for c in checks],
                 "kind_free_text": "rustc_private MIR fact extractor (driver/) + Python rule engine: dominance / cut / reachability / provenance / guard-shape / table rules; thorough tier adds canary-mutant self-test"}],
    "checks": checks,
    "notes": "All checks are static: they never run sneldb or its tests. known_findings.json lists reproduced genuine defects (DESIGN.md §4c).",
    "not_applicable": na,
}
json.dump(m, open(os.path.join(ROOT, "MANIFEST.json"), "w"), indent=1)
print("checks:", [c["property_id"] for c in checks], "n/a:", [x["property_id"] for x in na])
