#!/usr/bin/env python3
"""Rewrites the table between the SEEDED_TABLE markers of DESIGN.md from seeded/*/meta.json"""
import json, glob, os, re
rows = []
for p in sorted(glob.glob("/verif/seeded/*/meta.json")):
    m = json.load(open(p))
    name = os.path.basename(os.path.dirname(p))
    det = ", ".join(m["detected_by"]) or "— (missed)"
    rows.append("| `%s` | %s | %s | %s | %s | %s |" % (name, m["property"], (m["summary"] or "").replace("|", "/")[:260], (m["needs_to_manifest"] or "").replace("|", "/")[:220], det, m["detection_history"].replace("|", "/")))
n = len(rows)
caught = sum(1 for p in glob.glob("/verif/seeded/*/meta.json") if json.load(open(p))["detected_by"])
first = sum(1 for p in glob.glob("/verif/seeded/*/meta.json") if json.load(open(p))["detection_history"].startswith("caught by the table as first built"))
tbl = "<!-- SEEDED_TABLE_BEGIN -->\n| seeded change | property | what it does | needs to manifest | detected by | history |\n|---|---|---|---|---|---|\n" + "\n".join(rows) + \
      "\n\n%d changes kept; %d detected by today's checks (%d of them already by the tables as first built, the others after a rule was added in response); %d missed and declared so.\n<!-- SEEDED_TABLE_END -->" % (n, caught, first, n - caught)
s = open("/verif/DESIGN.md").read()
if "<!-- SEEDED_TABLE_BEGIN -->" in s:
    s = re.sub(r"<!-- SEEDED_TABLE_BEGIN -->.*?<!-- SEEDED_TABLE_END -->", lambda _: tbl, s, flags=re.S)
else:
    s = s.replace("SEEDED_TABLE", tbl, 1)
open("/verif/DESIGN.md", "w").write(s)
print(n, caught, first)
