#!/usr/bin/env python3
"""keep_seeded.py <prop> <changeN> <name> <detected_by csv or -> <history note>: copies a confirmed seeded change into /verif/seeded/<name>/"""
import json, os, shutil, sys
tag, ch, name, det, note = sys.argv[1:6]
prop = tag[:3]
src = "/tmp/wt/%s-out/%s" % (tag, ch)
dst = "/verif/seeded/%s" % name
conf = None
for l in open("/tmp/wt/confirm.log"):
    r = json.loads(l)
    if r.get("tag", r["property"]) == tag and r["change"] == ch:
        conf = r
if not conf or not conf["confirmed"]:
    raise SystemExit("not confirmed: %s %s" % (prop, ch))
os.makedirs(dst, exist_ok=True)
shutil.copy(src + "/patch.diff", dst + "/patch.diff")
if os.path.exists(dst + "/demo"):
    shutil.rmtree(dst + "/demo")
shutil.copytree(src + "/demo", dst + "/demo", ignore=shutil.ignore_patterns("*.log", "run", "__pycache__", "data*", "target"))
m = json.load(open(src + "/meta.json"))
meta = {
    "property": prop,
    "summary": m.get("summary"),
    "needs_to_manifest": m.get("needs_to_manifest"),
    "author": "fresh sub-agent given only the property text and a scratch worktree (tools/mutant_prompt.py)",
    "confirmed": {
        "how": "tools/confirm_seeded.py in the scratch worktree: demo on clean HEAD, git apply patch.diff, full pinned suite (nextest, junit compared with BASELINE stable_pass), demo with the change",
        "demo_on_clean_head_passes": conf["demo_on_clean_head_passes"],
        "suite_with_change": conf.get("nextest_summary", "").split("\n")[0][-80:],
        "stable_tests_not_passing_with_change": conf.get("stable_tests_not_passing"),
        "demo_with_change_passes": conf["demo_with_change_passes"],
    },
    "detected_by": [x for x in det.split(",") if x and x != "-"],
    "detection_history": note,
    "checks_run": "tools/try_seeded.sh patch.diff  (git -C /repo apply; ./check all; git -C /repo checkout -- .)",
}
json.dump(meta, open(dst + "/meta.json", "w"), indent=1)
print("kept", dst, meta["detected_by"])
