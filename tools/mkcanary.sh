#!/bin/sh
# usage: mkcanary.sh <name> '<expect json list>' '<what>'  -- run after editing /tmp/wt/canary; writes the diff + meta and resets the worktree
set -e
name=$1
cd /tmp/wt/canary
git diff > /verif/mutants/$name.diff
test -s /verif/mutants/$name.diff || { echo "empty diff"; exit 1; }
python3 - "$name" "$2" "$3" <<'PY'
import json,sys
json.dump({"expect": json.loads(sys.argv[2]), "what": sys.argv[3]}, open("/verif/mutants/%s.json" % sys.argv[1], "w"), indent=1)
PY
git checkout -q -- .
echo "wrote $name ($(wc -l < /verif/mutants/$name.diff) lines)"
