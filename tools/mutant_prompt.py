#!/usr/bin/env python3
"""Prints the prompt given to a fresh sub-agent asked for a property-breaking change (nothing from /verif besides the property text)."""
import json, sys
pid = sys.argv[1]
props = {json.loads(l)["id"]: json.loads(l) for l in open("/verif/properties.jsonl")}
p = props[pid]
print(f"""You are given a Rust project (sneldb: a single-node, append-only event database with sharded memtables, on-disk segments and zones, zone filters, compaction, and a small query language) checked out as a git worktree at /tmp/wt/{pid} (detached HEAD). Work ONLY inside /tmp/wt/{pid} and /tmp/wt/{pid}-out (create it). Never touch /repo or /verif, and do not read /verif. There is no network; always pass --offline to cargo. Use your own build directory: first run `cp -r /repo/target /tmp/wt/{pid}-target` (reuses compiled dependencies, ~7 GB) and then always set `CARGO_TARGET_DIR=/tmp/wt/{pid}-target`.

The project is supposed to satisfy this property:

  Title: {p['title']}
  Statement: {p['statement']}
  Must hold for: {p['quantifier']['text']}

Your task: produce TWO independent, realistic changes to the project's source (each a small patch, like a plausible refactoring slip, optimisation, or well-meant 'fix' by a maintainer) that each BREAK this property, while (1) the project still compiles without new warnings-as-errors, and (2) the existing test suite still passes exactly as before. The two changes must break the property through different mechanisms / different places in the code. Prefer changes that need something specific to manifest — a particular interleaving, a crash or fault at a particular point, a multi-step sequence of operations, an unusual input, or two cooperating sites that each look fine alone — rather than changes that ordinary use would expose at once. Do not just delete whole features or insert obviously malicious code; a reviewer skimming the diff should find it plausible. Do not modify existing tests.

For each change also write a DEMONSTRATION: a test or small program that FAILS (or shows the wrong behaviour) with the change applied and PASSES without it. A new unit/integration test inside the worktree is fine (many existing tests in this repo need a global config and fail in this sandbox regardless — look at how the passing tests in the same module set themselves up, and make sure your demo passes on the unmodified tree here), or a script that starts the server binary and talks to it over TCP, or a small extra binary under src/bin. State exactly how to run it.

Baseline for 'existing tests still pass': on the unmodified tree, `cd /tmp/wt/{pid} && CARGO_TARGET_DIR=/tmp/wt/{pid}-target cargo nextest run --workspace --no-fail-fast --tool-config-file pb:/w/lib/nextest.toml --profile pb --test-threads 8 --offline` reports `3250 tests run: 2760 passed, 490 failed` (the 490 failures are pre-existing: they need a config file). With your change applied (and WITHOUT your new demo test, or counting it separately) the same set of tests must pass: report the summary line you get for each change. (`cargo nextest` is installed. The first build of the tests takes several minutes.)

Deliver, for change N in (1, 2), the directory /tmp/wt/{pid}-out/changeN/ containing:
  - patch.diff : output of `git diff` for the source change ONLY (no demo files), applying cleanly to HEAD with `git apply`;
  - demo/ : the demonstration files (test source, script, …) plus demo/README.md saying how to run it, what it prints with and without the change;
  - meta.json : {{"property": "{pid}", "summary": "<one sentence: what the change does>", "needs_to_manifest": "<what specific input / schedule / crash point / history exposes it>", "nextest_summary_with_change": "<the summary line>", "demo_without_change": "<observed>", "demo_with_change": "<observed>"}}
Keep the two changes separate: each patch.diff must apply to a clean HEAD on its own. Leave the worktree clean (git checkout -- .) when you finish; do not commit. Never use `git stash` (worktrees share one stash): save work with `git diff > file` and restore with `git apply`. Your final message: a short description of both changes and where the deliverables are.""")
