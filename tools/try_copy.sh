#!/bin/sh
# usage: try_copy.sh <abs patch.diff> : like try_seeded.sh, but on a scratch copy of /repo (for use while /repo must stay untouched,
# e.g. during a selftest): rsync /repo -> /var/tmp/trycopy/repo, apply, ./check all --scratch with SNELCHECK_REPO, remove nothing but the patch.
set -e
P=$1
mkdir -p /var/tmp/trycopy
rsync -a --delete --exclude target --exclude .git /repo/ /var/tmp/trycopy/repo/
cd /var/tmp/trycopy/repo
git init -q 2>/dev/null || true
git apply "$P"
cd /verif
SNELCHECK_REPO=/var/tmp/trycopy/repo ./check all --scratch 2>&1 | grep -v "^KNOWN-FINDING" | grep -E "^VIOLATION|^  C[0-9]|violations \(|^snelcheck:|^error" | grep -v " 0 violations" || true
exit 0
