#!/bin/sh
# usage: try_seeded.sh <patch.diff> : apply to /repo, run all quick checks, show what fires, undo.
set -e
P=$1
cd /repo
git status --porcelain | grep -q . && { echo "repo dirty"; exit 1; }
git apply "$P"
cd /verif
./check all --scratch 2>&1 | grep -v "^KNOWN-FINDING" | grep -E "^VIOLATION|^  C[0-9]|violations \(|^snelcheck:|^error" | grep -v " 0 violations" || true
git -C /repo checkout -- .
git -C /repo status --porcelain | head -3
