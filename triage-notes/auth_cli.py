import hmac, hashlib, sys
from cli import send
def signed(user,key,cmd):
    sig=hmac.new(key.encode(),cmd.encode(),hashlib.sha256).hexdigest()
    return f"{user}:{sig}:{cmd}"
port=int(sys.argv[1])
A=("admin","adminkey")
def run(who,cmds):
    for c,r in send(port,[signed(who[0],who[1],c) for c in cmds]):
        print(">>",who[0],"::",c.split(":",2)[2]); print("\n".join(l for l in r.splitlines() if l and '"type":"schema"' not in l))
run(A,['DEFINE secret FIELDS { "n": "int" }','STORE secret FOR c1 PAYLOAD {"n":42}','CREATE USER bob WITH KEY bobkey','CREATE USER bypass WITH KEY bypkey'])
B=("bob","bobkey")
run(B,['QUERY secret RETURN [n]','REPLAY secret FOR c1 RETURN [n]','REPLAY FOR c1','FLUSH','STORE secret FOR c1 PAYLOAD {"n":7}','REMEMBER QUERY secret AS m1','SHOW m1'])
Y=("bypass","bypkey")
run(Y,['QUERY secret RETURN [n]','STORE secret FOR c9 PAYLOAD {"n":666}','CREATE USER eve WITH KEY evekey','LIST USERS'])
