#!/usr/bin/env python3
"""
Baseline history (b): clean shutdown, restart, stores across one flush boundary, kill -9.

Config: 1 shard, flush threshold 4 (fill_factor=1 x event_per_zone=4), WAL unbuffered + flush_each_write.
exit 0 = C01 holds, exit 1 = violated.
"""
import os, sys
sys.path.insert(0, os.path.join(os.path.dirname(os.path.abspath(__file__)), ".."))
from harness import Server, Oracle, build, quiesce, disk_state


def step(msg):
    print("  > " + msg)


def main():
    build()
    s = Server(shard_count=1, fill_factor=1, event_per_zone=4)
    problems = []
    try:
        s.start()
        o = Oracle(s)
        step('DEFINE order FIELDS { "n": "int", "tag": "string" }')
        o.define()
        step("STORE order n=0..5 (6 events; n=0..3 auto-flush to segment 00000, n=4,5 stay in memtable + wal-00001.log)")
        for n in range(6):
            o.store(n, "ctx-%d" % (n % 3))
        quiesce(s.base)
        problems += o.check("before clean shutdown")
        print("    disk:", disk_state(s.base))
        step("SIGINT (graceful shutdown: flush_all + shutdown_all), wait for exit")
        s.stop_clean()
        print("    disk:", disk_state(s.base))
        step("restart")
        s.start()
        problems += o.check("after clean restart")
        step("STORE order n=6..11 (6 events; n=6..9 fill the memtable -> auto-flush; n=10,11 acknowledged afterwards)")
        for n in range(6, 12):
            o.store(n, "ctx-%d" % (n % 3))
        quiesce(s.base)
        problems += o.check("after 6 more stores (all visible to reads)")
        print("    disk:", disk_state(s.base))
        step("kill -9 (process idle), restart")
        s.crash()
        s.start()
        print("    disk:", disk_state(s.base))
        problems += o.check("after kill -9 + restart")
    finally:
        s.cleanup()
    if problems:
        print("VERDICT (b): C01 VIOLATED on the unmodified tree")
        return 1
    print("VERDICT (b): property held")
    return 0


if __name__ == "__main__":
    sys.exit(main())
