#!/usr/bin/env python3
"""
Baseline history (c): kill -9 in the middle of an automatic flush, restart, a few more stores, kill -9 again.

Config: 1 shard, flush threshold 40 (fill_factor=1 x event_per_zone=40), WAL unbuffered + flush_each_write.

The mid-flush crash point is made deterministic without touching the server: the script busy-polls for the
segment directory data/shard-0/00000 (created by Flusher::flush as its first step), SIGSTOPs the server the moment it
appears, verifies from the on-disk state that the flush has NOT reached WAL cleanup yet (wal-00000.log still there),
and only then SIGKILLs it. If the window is missed the attempt is repeated with a fresh store (max 5 attempts).

exit 0 = C01 holds, exit 1 = violated, exit 2 = could not hit the crash point.
"""
import os, signal, sys, time
sys.path.insert(0, os.path.join(os.path.dirname(os.path.abspath(__file__)), ".."))
from harness import Server, Oracle, build, quiesce, listing, read_segments_idx, wal_contents

CAP = 40


def step(msg):
    print("  > " + msg)


def disk(s):
    l = listing(s.base)
    seg0 = os.path.join(s.base, "data", "shard-0", "00000")
    nfiles = len(os.listdir(seg0)) if os.path.isdir(seg0) else None
    return "segment dirs=%s (files in 00000: %s) segments.idx=%s wal entries=%s" % (
        l["segments"], nfiles, read_segments_idx(s.base), {k: len(v) for k, v in wal_contents(s.base).items()})


def bulk_store(s, o, lo, hi):
    lines = []
    for n in range(lo, hi):
        ctx = "ctx-%d" % (n % 3)
        lines.append('STORE order FOR %s PAYLOAD {"n": %d, "tag": "tag-%d"}' % (ctx, n, n))
    r = s.cmd("\n".join(lines), timeout=60)
    assert r.count("200 OK") == hi - lo, "not all STOREs acknowledged: %r" % r[-300:]
    for n in range(lo, hi):
        o.expected[n] = ("ctx-%d" % (n % 3), "tag-%d" % n)


def attempt():
    s = Server(shard_count=1, fill_factor=1, event_per_zone=CAP)
    problems = []
    try:
        s.start()
        o = Oracle(s)
        step('DEFINE order FIELDS { "n": "int", "tag": "string" }')
        o.define()
        step("STORE order n=0..%d (%d events, one short of the flush threshold), all acknowledged" % (CAP - 2, CAP - 1))
        bulk_store(s, o, 0, CAP - 1)
        quiesce(s.base)
        problems += o.check("before the flush-triggering store")
        seg0 = os.path.join(s.base, "data", "shard-0", "00000")
        step("STORE order n=%d (acknowledged; memtable full -> rotated to passive buffer -> background flush to 00000)" % (CAP - 1))
        o.store(CAP - 1, "ctx-%d" % ((CAP - 1) % 3))
        deadline = time.time() + 10
        while not os.path.exists(seg0):
            if time.time() > deadline:
                print("    flush never started?")
                return None
        os.kill(s.proc.pid, signal.SIGSTOP)
        wal_now = wal_contents(s.base)
        print("    server SIGSTOPped mid-flush; disk:", disk(s))
        if "wal-00000.log" not in wal_now:
            print("    missed the window (flush already reached WAL cleanup)")
            return None
        step("kill -9 (mid-flush: segment dir created, segment not in segments.idx, WAL not yet pruned), restart")
        s.crash()
        s.start()
        print("    disk:", disk(s))
        problems += o.check("after mid-flush kill -9 + restart")
        step("STORE order n=%d..%d (3 events, all acknowledged)" % (CAP, CAP + 2))
        for n in range(CAP, CAP + 3):
            o.store(n, "ctx-%d" % (n % 3))
        quiesce(s.base)
        problems += o.check("after 3 more stores (visible to reads)")
        print("    disk:", disk(s))
        step("kill -9 (process idle), restart")
        s.crash()
        s.start()
        print("    disk:", disk(s))
        problems += o.check("after 2nd kill -9 + restart")
        return problems
    finally:
        s.cleanup()


def main():
    build()
    for i in range(5):
        print("attempt %d" % (i + 1))
        problems = attempt()
        if problems is None:
            continue
        if problems:
            print("VERDICT (c): C01 VIOLATED on the unmodified tree")
            return 1
        print("VERDICT (c): property held")
        return 0
    print("VERDICT (c): could not stop the server inside the flush window")
    return 2


if __name__ == "__main__":
    sys.exit(main())
