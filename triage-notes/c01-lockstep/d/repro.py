#!/usr/bin/env python3
"""
Baseline history (d): all L0 segments compacted, kill -9, restart, two more automatic flushes, kill -9, restart.

Config: 1 shard, flush threshold 4 (fill_factor=1 x event_per_zone=4), segments_per_merge=2,
compaction_interval=2 s (raised to 1 h after the first restart so no later kill can hit a merge),
WAL unbuffered + flush_each_write. Every kill hits an idle process.

exit 0 = C01 holds, exit 1 = violated.
"""
import os, sys, time
sys.path.insert(0, os.path.join(os.path.dirname(os.path.abspath(__file__)), ".."))
from harness import Server, Oracle, build, quiesce, listing, disk_state


def step(msg):
    print("  > " + msg)


def wait_for_compaction(s, timeout=60):
    deadline = time.time() + timeout
    while time.time() < deadline:
        segs = listing(s.base)["segments"]
        if segs and all(int(x) >= 10000 for x in segs):
            quiesce(s.base)
            return
        time.sleep(0.2)
    raise RuntimeError("background compaction did not finish: %s" % listing(s.base))


def main():
    build()
    s = Server(shard_count=1, fill_factor=1, event_per_zone=4, segments_per_merge=2, compaction_interval=2)
    problems = []
    try:
        s.start()
        o = Oracle(s)
        step('DEFINE order FIELDS { "n": "int", "tag": "string" }')
        o.define()
        step("STORE order n=0..17 (18 events -> L0 segments 00000..00003 auto-flushed, n=16,17 in memtable + wal-00004.log)")
        for n in range(18):
            o.store(n, "ctx-%d" % (n % 3))
        quiesce(s.base, stable_for=0.3)
        problems += o.check("after 18 stores")
        print("    disk:", disk_state(s.base))
        step("wait for the background compactor to merge every L0 segment")
        wait_for_compaction(s)
        print("    disk:", disk_state(s.base))
        problems += o.check("after compaction")
        step("kill -9 (idle), restart  [compaction_interval -> 3600 from now on]")
        s.crash()
        s.reconfigure(compaction_interval=3600)
        s.start()
        problems += o.check("after kill -9 #1 + restart")
        step("STORE order n=18..23 (6 events -> memtable fills twice -> two automatic flushes)")
        for n in range(18, 24):
            o.store(n, "ctx-%d" % (n % 3))
        quiesce(s.base, stable_for=0.3)
        problems += o.check("after 6 more stores")
        print("    disk:", disk_state(s.base))
        step("kill -9 (idle), restart")
        s.crash()
        s.start()
        problems += o.check("after kill -9 #2 + restart")
        print("    disk:", disk_state(s.base))
        step("STORE order n=24 (one event), then kill -9 (idle), restart")
        o.store(24, "ctx-0")
        quiesce(s.base, stable_for=0.3)
        print("    disk:", disk_state(s.base))
        s.crash()
        s.start()
        problems += o.check("after kill -9 #3 + restart")
    finally:
        s.cleanup()
    if problems:
        print("VERDICT (d): C01 VIOLATED on the unmodified tree")
        return 1
    print("VERDICT (d): property held")
    return 0


if __name__ == "__main__":
    sys.exit(main())
