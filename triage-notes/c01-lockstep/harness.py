#!/usr/bin/env python3
"""Tiny harness: run the sneldb server binary against a private data dir, talk TCP, kill -9, restart."""
import json, os, signal, socket, subprocess, sys, tempfile, time, shutil

ROOT = os.environ.get("SNELDB_WORKTREE", "/tmp/wt/C01r2")
TARGET = os.environ.get("CARGO_TARGET_DIR", "/tmp/wt/C01r2-target")
BIN = os.path.join(TARGET, "debug", "snel_db")


def build():
    env = dict(os.environ, CARGO_TARGET_DIR=TARGET)
    r = subprocess.run(["cargo", "build", "--offline", "--bin", "snel_db"], cwd=ROOT, env=env,
                       stdout=subprocess.PIPE, stderr=subprocess.STDOUT, text=True)
    if r.returncode != 0:
        print(r.stdout)
        sys.exit("build failed")


def free_port():
    s = socket.socket()
    s.bind(("127.0.0.1", 0))
    p = s.getsockname()[1]
    s.close()
    return p


CONFIG_TMPL = """
[wal]
enabled = true
fsync = false
buffered = {buffered}
buffer_size = 65536
dir = "{base}/wal"
flush_each_write = {flush_each_write}
conservative_mode = false
archive_dir = "{base}/wal/archived"
compression_level = 3
compression_algorithm = "zstd"

[engine]
data_dir = "{base}/data"
index_dir = "{base}/index"
shard_count = {shard_count}
fill_factor = {fill_factor}
event_per_zone = {event_per_zone}
compaction_interval = {compaction_interval}
sys_io_threshold = 100
sys_memory_threshold_mb = 1
max_inflight_passives = 8
segments_per_merge = {segments_per_merge}
compaction_max_shard_concurrency = 1

[schema]
def_dir = "{base}/schema"

[server]
socket_path = "{base}/sneldb.sock"
log_level = "error"
output_format = "json"
tcp_addr = "127.0.0.1:{tcp}"
http_addr = "127.0.0.1:{http}"
ws_addr = "127.0.0.1:{ws}"
auth_token = "test"
backpressure_threshold = 90

[playground]
enabled = false
allow_unauthenticated = true

[auth]
bypass_auth = true
rate_limit_enabled = false

[logging]
log_dir = "{base}/logs"
stdout_level = "error"
file_level = "{file_level}"

[query]
zone_index_cache_max_entries = 256
column_block_cache_max_bytes = 67108864
zone_surf_cache_max_bytes = 10485760

[time]
timezone = "UTC"
week_start = "Mon"
use_calendar_bucketing = true
"""


class Server:
    def __init__(self, base=None, **kw):
        self.base = base or tempfile.mkdtemp(prefix="sneldb-demo-")
        self.params = dict(buffered="false", flush_each_write="true", shard_count=1, fill_factor=1,
                           event_per_zone=4, compaction_interval=3600, segments_per_merge=2,
                           file_level="error")
        self.params.update(kw)
        self.tcp = free_port()
        self.http = free_port()
        self.ws = free_port()
        self.proc = None
        self.cfg = os.path.join(self.base, "config.toml")
        self.write_config()

    def write_config(self):
        with open(self.cfg, "w") as f:
            f.write(CONFIG_TMPL.format(base=self.base, tcp=self.tcp, http=self.http, ws=self.ws, **self.params))

    def reconfigure(self, **kw):
        """Change config values; takes effect at the next start()."""
        self.params.update(kw)
        self.write_config()

    def start(self):
        env = dict(os.environ, SNELDB_CONFIG=self.cfg, RUST_LOG="error")
        log = open(os.path.join(self.base, "server.out"), "ab")
        self.proc = subprocess.Popen([BIN], env=env, cwd=self.base, stdout=log, stderr=log)
        for _ in range(200):
            if self.proc.poll() is not None:
                raise RuntimeError("server exited early, see %s/server.out" % self.base)
            try:
                socket.create_connection(("127.0.0.1", self.tcp), timeout=0.2).close()
                return
            except OSError:
                time.sleep(0.05)
        raise RuntimeError("server did not come up")

    def cmd(self, line, timeout=20):
        s = socket.create_connection(("127.0.0.1", self.tcp), timeout=timeout)
        s.sendall(line.encode() + b"\n")
        s.shutdown(socket.SHUT_WR)
        out = b""
        while True:
            b = s.recv(65536)
            if not b:
                break
            out += b
        s.close()
        return out.decode(errors="replace")

    def crash(self):
        """SIGKILL the server process we started."""
        if self.proc and self.proc.poll() is None:
            os.kill(self.proc.pid, signal.SIGKILL)
            self.proc.wait()
        self.proc = None

    def stop_clean(self, timeout=60):
        if self.proc and self.proc.poll() is None:
            os.kill(self.proc.pid, signal.SIGINT)
            try:
                self.proc.wait(timeout=timeout)
            except subprocess.TimeoutExpired:
                os.kill(self.proc.pid, signal.SIGKILL)
                self.proc.wait()
        self.proc = None

    def cleanup(self):
        self.crash()
        shutil.rmtree(self.base, ignore_errors=True)


def rows_of(resp):
    """Extract rows from the streaming JSON response (list of lists)."""
    rows = []
    cols = None
    for line in resp.splitlines():
        line = line.strip()
        if not line.startswith("{"):
            continue
        try:
            o = json.loads(line)
        except Exception:
            continue
        if o.get("type") == "schema":
            cols = [c["name"] if isinstance(c, dict) else c for c in o.get("columns", [])]
        elif o.get("type") == "batch":
            for r in o.get("rows", []):
                rows.append(dict(zip(cols, r)) if cols and isinstance(r, list) else r)
        elif o.get("type") == "row":
            v = o.get("values")
            rows.append(dict(zip(cols, v)) if cols and isinstance(v, list) else o)
    return rows


def quiesce(base, stable_for=0.8, timeout=30.0):
    """Wait until nothing under <base>/data and <base>/wal changes for `stable_for` seconds
    (i.e. the WAL writer and the background flush worker are idle)."""
    def snap():
        out = []
        for sub in ("data", "wal"):
            for root, dirs, files in os.walk(os.path.join(base, sub)):
                for f in files:
                    p = os.path.join(root, f)
                    try:
                        st = os.stat(p)
                        out.append((p, st.st_size, st.st_mtime_ns))
                    except FileNotFoundError:
                        pass
        return sorted(out)
    deadline = time.time() + timeout
    last = snap()
    since = time.time()
    while time.time() < deadline:
        time.sleep(0.1)
        cur = snap()
        if cur != last:
            last = cur
            since = time.time()
        elif time.time() - since >= stable_for:
            return
    raise RuntimeError("store did not quiesce")


def listing(base, shard=0):
    def ls(p):
        try:
            return sorted(os.listdir(p))
        except FileNotFoundError:
            return []
    return {"segments": [d for d in ls(os.path.join(base, "data", "shard-%d" % shard)) if d.isdigit()],
            "wal": [f for f in ls(os.path.join(base, "wal", "shard-%d" % shard)) if f.endswith(".log")]}


class Oracle:
    """Remembers every acknowledged STORE and checks QUERY / REPLAY / COUNT against it."""

    def __init__(self, server, event_type="order"):
        self.s = server
        self.et = event_type
        self.expected = {}  # n -> (context, tag)

    def define(self):
        r = self.s.cmd('DEFINE %s FIELDS { "n": "int", "tag": "string" }' % self.et)
        assert "200 OK" in r, r

    def store(self, n, ctx):
        tag = "tag-%d" % n
        r = self.s.cmd('STORE %s FOR %s PAYLOAD {"n": %d, "tag": "%s"}' % (self.et, ctx, n, tag))
        assert "200 OK" in r, "STORE not acknowledged: %r" % r
        self.expected[n] = (ctx, tag)

    def check(self, label, check_count=True):
        """Returns a list of human readable violations (empty list == property holds)."""
        from collections import Counter
        problems = []
        rows = rows_of(self.s.cmd("QUERY %s" % self.et))
        seen = Counter(r["n"] for r in rows)
        missing = sorted(n for n in self.expected if seen[n] == 0)
        dup = sorted(n for n in self.expected if seen[n] > 1)
        unknown = sorted(n for n in seen if n not in self.expected)
        if missing:
            problems.append("QUERY: acknowledged events missing: n=%s" % missing)
        if dup:
            problems.append("QUERY: events returned more than once: n=%s" % dup)
        if unknown:
            problems.append("QUERY: unknown events: n=%s" % unknown)
        for r in rows:
            exp = self.expected.get(r["n"])
            if exp and (r["context_id"], r["tag"], r["event_type"]) != (exp[0], exp[1], self.et):
                problems.append("QUERY: event n=%s came back altered: %r" % (r["n"], r))
        # REPLAY per context
        by_ctx = {}
        for n, (ctx, _) in self.expected.items():
            by_ctx.setdefault(ctx, []).append(n)
        for ctx, ns in sorted(by_ctx.items()):
            rr = rows_of(self.s.cmd("REPLAY %s FOR %s" % (self.et, ctx)))
            got = sorted(r["n"] for r in rr)
            if got != sorted(ns):
                problems.append("REPLAY %s: expected n=%s got n=%s" % (ctx, sorted(ns), got))
        # aggregate
        cr = rows_of(self.s.cmd("QUERY %s COUNT" % self.et))
        count = cr[0]["count"] if cr else 0
        if check_count and count != len(self.expected):
            problems.append("COUNT: expected %d got %s" % (len(self.expected), count))
        status = "OK" if not problems else "VIOLATION"
        print("  [%s] %-46s rows=%d expected=%d count=%s" % (status, label, len(rows), len(self.expected), count))
        for p in problems:
            print("        - " + (p if len(p) <= 220 else p[:217] + "..."))
        return problems


def read_segments_idx(base, shard=0):
    """Decode <data>/shard-N/segments.idx: 20-byte BinaryHeader + bincode Vec<SegmentEntry{id:u32, uids:Vec<String>}>."""
    import struct
    p = os.path.join(base, "data", "shard-%d" % shard, "segments.idx")
    try:
        b = open(p, "rb").read()
    except FileNotFoundError:
        return None
    off = 20
    (n,) = struct.unpack_from("<Q", b, off); off += 8
    out = []
    for _ in range(n):
        (sid,) = struct.unpack_from("<I", b, off); off += 4
        (k,) = struct.unpack_from("<Q", b, off); off += 8
        uids = []
        for _ in range(k):
            (l,) = struct.unpack_from("<Q", b, off); off += 8
            uids.append(b[off:off + l].decode()); off += l
        out.append("%05d" % sid)
    return out


def wal_contents(base, shard=0, field="n"):
    """{wal file name: [payload[field] of every entry]}"""
    d = os.path.join(base, "wal", "shard-%d" % shard)
    out = {}
    try:
        names = sorted(os.listdir(d))
    except FileNotFoundError:
        return out
    for f in names:
        if not f.endswith(".log"):
            continue
        vals = []
        for line in open(os.path.join(d, f), errors="replace"):
            try:
                vals.append(json.loads(line)["payload"][field])
            except Exception:
                vals.append("<torn>")
        out[f] = vals
    return out


def disk_state(base, shard=0):
    l = listing(base, shard)
    return "segment dirs=%s segments.idx=%s wal=%s" % (l["segments"], read_segments_idx(base, shard), wal_contents(base, shard))
