#!/usr/bin/env python3
"""
Baseline finding 1 (unmodified HEAD): while a rotated memtable is being flushed, COUNT
counts its events twice (once from the passive in-memory buffer, once from the not yet
published "in-flight" segment on disk), while QUERY over the same selection returns every
event once.

To keep finding 2 (cache poisoning by reads that hit half-written .zfc files) out of the
picture, the script does NOT read blindly during the flush.  It watches the segment
directory and starts reading only at an observable on-disk step: all six column files
(.col + .zfc) of segment 00000 are complete.  From that point the flusher still has to
build calendars / temporal indexes / xor + surf filters / zone index / catalog, update
segments.idx, verify, publish, release the passive buffer and prune the WAL - about one
second with 200 zones.  The reads stop when the WAL file of that memtable has been pruned
(last step of the flush).

exit 0: every COUNT equalled the number of acknowledged events (in every trial).
exit 1: some COUNT was wrong.
"""
import glob, os, sys, time
sys.path.insert(0, os.path.dirname(os.path.abspath(__file__)))
from harness import Server, Client, query, store_burst

F = int(os.environ.get("REPRO_ZONES", "200"))
TRIALS = int(os.environ.get("REPRO_TRIALS", "3"))
PORT = int(os.environ.get("REPRO_PORT", "17550"))
CTXS = 7

def log(m): print(m, flush=True)

def zfc_entries(p): return (os.path.getsize(p) - 20) // 24

def columns_complete(base, seg):
    d = os.path.join(base, "data", "shard-0", seg)
    z = glob.glob(os.path.join(d, "*.zfc"))
    try:
        return len(z) >= 6 and all(zfc_entries(p) == F for p in z)
    except OSError:
        return False

def stage(base, seg):
    d = os.path.join(base, "data", "shard-0", seg)
    names = os.listdir(d) if os.path.isdir(d) else []
    wal = sorted(os.path.basename(p) for p in glob.glob(os.path.join(base, "wal", "shard-0", "wal-*.log")))
    return {
        "zfc": sum(1 for n in names if n.endswith(".zfc")),
        "zone_index(.idx)": any(n.endswith(".idx") for n in names),
        "catalog(.icx)": any(n.endswith(".icx") for n in names),
        "segments.idx": os.path.exists(os.path.join(base, "data", "shard-0", "segments.idx")),
        "wal": wal,
    }

def trial(t):
    log("\n=== trial %d ===" % t)
    srv = Server(port=PORT, shards=1, fill_factor=F, event_per_zone=1)
    srv.start()
    try:
        w = Client(srv.port)
        log('  cmd> DEFINE ev FIELDS { "id": "int", "kind": "string" }')
        assert "200 OK" in w.cmd('DEFINE ev FIELDS { "id": "int", "kind": "string" }')
        log('  cmd> %d x STORE ev FOR ctx-<i%%7> PAYLOAD {"id":<i>,"kind":"k<i%%3>"}   (pipelined; the last one rotates the memtable)' % F)
        acks = store_burst(w, ['STORE ev FOR ctx-%d PAYLOAD {"id":%d,"kind":"k%d"}' % (i % CTXS, i, i % 3)
                               for i in range(F)]).count(b"200 OK")
        log("  acknowledged STOREs: %d of %d" % (acks, F))
        wal_before = stage(srv.base, "00000")["wal"]

        t0 = time.time()
        while not columns_complete(srv.base, "00000") and time.time() - t0 < 120:
            time.sleep(0.005)
        log("  on-disk step reached after %.2fs: all 6 column files of segment 00000 complete (%d zone entries each); WAL files: %s"
            % (time.time() - t0, F, wal_before))
        log("  cmd> loop { QUERY ev COUNT ; QUERY ev }  until the WAL of the flushed memtable is pruned")

        c = Client(srv.port)
        reads = []
        while True:
            st = stage(srv.base, "00000")
            flush_done = "wal-00000.log" not in st["wal"]
            cr = query(c, "QUERY ev COUNT"); cnt = cr[0][0] if cr else 0
            rows = query(c, "QUERY ev")
            ids = [r[4] for r in rows]
            reads.append((time.time() - t0, cnt, len(rows), len(set(ids)), st))
            if flush_done or time.time() - t0 > 60:
                break
        time.sleep(1.0)
        cr = query(c, "QUERY ev COUNT"); final_cnt = cr[0][0] if cr else 0
        final_rows = len(query(c, "QUERY ev"))

        wrong = [r for r in reads[:-1] if r[1] != F]
        log("  reads while the flush was in progress: %d ; COUNT != %d in %d of them" % (len(reads) - 1, F, len(wrong)))
        shown = 0
        last = None
        for (ts, cnt, nrows, nd, st) in reads:
            key = (cnt, nrows, st["zone_index(.idx)"], st["catalog(.icx)"], st["segments.idx"], tuple(st["wal"]))
            if key != last:
                log("    t=%.2fs  COUNT=%4d (expected %d)  QUERY rows=%4d distinct=%4d | disk: .idx=%s .icx=%s segments.idx=%s wal=%s"
                    % (ts, cnt, F, nrows, nd, st["zone_index(.idx)"], st["catalog(.icx)"], st["segments.idx"], st["wal"]))
                last = key
        log("  after the flush (idle): COUNT=%d QUERY rows=%d (expected %d)" % (final_cnt, final_rows, F))
        if wrong:
            log("  -> VIOLATION: %d acknowledged events, COUNT reported %s while QUERY over the same selection returned %d distinct events"
                % (F, sorted(set(r[1] for r in wrong)), F))
        return bool(wrong) or final_cnt != F
    finally:
        srv.stop()
        if os.environ.get("REPRO_KEEP") != "1":
            srv.cleanup()

def main():
    hits = sum(1 for t in range(TRIALS) if trial(t))
    log("\nhit rate: property violated in %d of %d trials" % (hits, TRIALS))
    return 1 if hits else 0

if __name__ == "__main__":
    sys.exit(main())
